#!/bin/bash
# usage: recheck_seeded.sh <name>  -- confirm a seeded patch against /repo HEAD: demo passes without it, suite passes and demo fails with it
N=$1; OUT=/verif/seeded/$N; S=/tmp/seedchk-$N; rm -rf $S
git -C /repo worktree add -q --detach $S HEAD || exit 2
cd $S
PYTHONPATH=$S/src /venv/bin/python $OUT/demo.py >/dev/null 2>&1; CLEAN=$?
if ! git apply $OUT/patch.diff 2>/dev/null; then echo "$N: PATCH DOES NOT APPLY to HEAD"; cd /; git -C /repo worktree remove --force $S; exit 3; fi
T=$(PYTHONPATH=$S/src /venv/bin/python -m pytest -q -p no:cacheprovider 2>&1 | tail -1)
PYTHONPATH=$S/src /venv/bin/python $OUT/demo.py >/dev/null 2>&1; MUT=$?
cd /; git -C /repo worktree remove --force $S
H=$(git -C /repo log --format=%h -1)
echo "$N: on $H tests='$T' demo_clean=$CLEAN demo_mutant=$MUT"
python3 - "$OUT" "$H" "$T" "$CLEAN" "$MUT" <<'PY'
import json,sys
out,h,t,c,m=sys.argv[1:]
meta=json.load(open(out+'/meta.json'))
meta['reconfirmed']={"repo_head":h,"tests_with_patch":t,"demo_exit_unchanged_tree":int(c),"demo_exit_with_patch":int(m)}
meta['kept']=(int(c)==0 and int(m)!=0 and 'passed' in t and 'failed' not in t)
json.dump(meta,open(out+'/meta.json','w'),indent=1)
PY
