"""regenerate the table of DESIGN.md section 11.6 from seeded/*/meta.json and seeded/RESULTS.tsv"""
import json, os, sys
ROOT = os.path.dirname(os.path.dirname(os.path.abspath(__file__)))
res = {}
for line in open(os.path.join(ROOT, "seeded", "RESULTS.tsv")):
    f = line.rstrip("\n").split("\t")
    res[f[0]] = f
rows = []
for name in sorted(os.listdir(os.path.join(ROOT, "seeded"))):
    mp = os.path.join(ROOT, "seeded", name, "meta.json")
    if not os.path.exists(mp):
        continue
    m = json.load(open(mp))
    summ = (m.get("summary") or "").replace("|", "/").replace("\n", " ")
    if len(summ) > 150:
        summ = summ[:147] + "..."
    r = res.get(name)
    if m.get("kept") is False:
        caught = "moot on the repaired tree (demo no longer fails with the patch); replaced by a later round"
    elif r is None or len(r) < 7:
        caught = "not run" if r is None else r[2]
    else:
        ex, proof, bnd, norep = r[2], r[3], r[4], r[5]
        first = [x for x in r[6].split(";") if x]
        short = []
        for ob in first[:2]:
            parts = ob.split("/")
            short.append("`" + "/".join(parts[1:2] + parts[-1:]) + "`" if len(parts) > 2 else "`" + ob + "`")
        caught = f"{ex}; {proof.replace('proof=', '')} proof obligation(s)" + (f", {bnd.replace('bounded=', '')} bounded" if bnd != "bounded=0" else "") + (": " + ", ".join(short) if short else "")
        if ex == "exit=0":
            caught = "**missed** (" + caught + ")"
    rows.append(f"| {name} | {summ} | {caught} |")
print("| seeded | change | caught by (quick check of its property on the tree with the patch applied) |")
print("|--------|--------|-----------|")
print("\n".join(rows))
