#!/bin/bash
# usage: regress_scratch.sh [names...] -- development aid: every seeded change against its property's quick check on scratch copies of
# /repo's HEAD (PYVC_SRC), two at a time; /repo is not touched. One line per change in /tmp/regress.tsv (name, exit, #proof, #bounded).
cd /verif
NAMES=${@:-$(ls seeded | grep -E '^C[0-9]+-[a-z]$')}
: > /tmp/regress.tsv
one() {
  N=$1
  P=$(python3 -c "import json;print(json.load(open('/verif/seeded/$N/meta.json'))['property'])")
  D=$(mktemp -d /tmp/scr.XXXXXX)
  git -C /repo archive HEAD | tar -x -C $D
  if ! (cd $D && git apply /verif/seeded/$N/patch.diff 2>/dev/null); then printf "%s\tpatch-does-not-apply\n" $N >> /tmp/regress.tsv; rm -rf $D; return; fi
  LOG=$(mktemp)
  PYVC_SRC=$D/src ./check $P > $LOG 2>&1; E=$?
  NP=$(grep "failed obligation:" $LOG | grep -vc "/bounded/")
  NB=$(grep "failed obligation:" $LOG | grep -c "/bounded/")
  NR=$(grep -c "no-failing-input-found" $LOG)
  printf "%s\texit=%s\tproof=%s\tbounded=%s\tnot-replayed=%s\n" $N $E $NP $NB $NR >> /tmp/regress.tsv
  rm -rf $D $LOG
}
export -f one
echo $NAMES | tr ' ' '\n' | xargs -P 2 -I{} bash -c 'one {}'
sort /tmp/regress.tsv -o /tmp/regress.tsv
