#!/bin/sh
# Build the overlay venv used by every check: python 3.12 (same interpreter as /venv, so the
# repo's dependencies are importable through a .pth) + z3-solver, cvc5, jsonschema from the
# offline wheelhouse.  Idempotent, offline.
set -e
cd "$(dirname "$0")/.."
V=.venv
if [ -x "$V/bin/python" ] && "$V/bin/python" -c 'import z3, cvc5, jsonschema, numpy' 2>/dev/null; then
  echo "setup: $V ok"; exit 0
fi
rm -rf "$V"
/venv/bin/python -m venv "$V"
PIP_NO_INDEX=1 "$V/bin/python" -m pip install -q --no-index --find-links /opt/veriftools/wheels z3-solver cvc5 jsonschema >/dev/null
SP=$("$V/bin/python" -c 'import sysconfig; print(sysconfig.get_paths()["purelib"])')
echo "import site; site.addsitedir('/venv/lib/python3.12/site-packages')" > "$SP/zz_repo_deps.pth"
"$V/bin/python" -c 'import z3, cvc5, jsonschema, numpy; print("setup: built", z3.get_version_string())'
