#!/bin/bash
# usage: all_mutants_scratch.sh names...  -- like all_mutants.sh (one row per change appended to seeded/RESULTS.tsv: name, property, exit code,
# #failed proof obligations, #failed bounded obligations, first failed obligations) but against scratch copies of /repo's HEAD with the
# patch applied (PYVC_SRC), two at a time; /repo is not touched
cd /verif
OUT=seeded/RESULTS.tsv
one() {
  N=$1
  P=$(python3 -c "import json;print(json.load(open('/verif/seeded/$N/meta.json'))['property'])")
  D=$(mktemp -d /tmp/scr.XXXXXX)
  git -C /repo archive HEAD | tar -x -C $D
  if ! (cd $D && git apply /verif/seeded/$N/patch.diff 2>/dev/null); then printf "%s\t%s\tpatch-does-not-apply\n" $N $P >> $OUT; rm -rf $D; return; fi
  LOG=$(mktemp)
  PYVC_SRC=$D/src ./check $P > $LOG 2>&1; E=$?
  NP=$(grep "failed obligation:" $LOG | grep -vc "/bounded/")
  NB=$(grep "failed obligation:" $LOG | grep -c "/bounded/")
  FIRST=$(grep "failed obligation:" $LOG | grep -v "/bounded/" | head -2 | sed 's/.*failed obligation: //' | tr '\n' ';')
  FIRSTB=$(grep "failed obligation:" $LOG | grep "/bounded/" | head -1 | sed 's/.*failed obligation: //')
  NOINPUT=$(grep -c "no-failing-input-found" $LOG)
  printf "%s\t%s\texit=%s\tproof=%s\tbounded=%s\tnot-replayed=%s\t%s%s\n" $N $P $E $NP $NB $NOINPUT "$FIRST" "$FIRSTB" >> $OUT
  rm -rf $D $LOG
}
export -f one; export OUT
echo $@ | tr ' ' '\n' | xargs -P 2 -I{} bash -c 'one {}'
