#!/usr/bin/env python3
"""regenerates MANIFEST.json from contracts/index.py and the texts below"""
import json, os, sys
ROOT = os.path.dirname(os.path.dirname(os.path.abspath(__file__)))
sys.path.insert(0, ROOT)
from contracts.index import PROPS

TECH = "contract-based deductive verification: sidecar contracts on the real functions, VCs generated from /repo's AST by symbolic execution, discharged by z3/cvc5; bounded run-time contract checks reported separately"
TEXT = {
 "C01": ("other", "Contracts on all 2 sign, 13 binary, 1 negation and 10 function operator methods (refinement of one configuration step of the documented machine for every kind of adjacent tokens), on Tokens.operate (all token sequences up to length 4-5 over the step's alphabet) and on ExpressionSolver.solve for ~1300 token sequences of the stratified grammar (every operator pair, every sign pattern, functions, nesting, 0-2 blanks) with atoms standing for ARBITRARY reals: the value returned equals the value of the reference AST built from the documented precedence table for all values (z3). Default operator/step tables equal the tables parsed from docs/source/solver/index.rst; symbol table prefix-safe. Ill-formed strings raise. Structure is enumerated, hence reported as bounded_structure (level other).",
         "expression shapes enumerated up to a bound (values symbolic); tokenizer and parenthesis scanner run on concrete strings; transcendental functions uninterpreted"),
 "C02": ("other", "solve() verified from DIRTY instances: the token buffers at entry hold arbitrary leftover tokens (8 patterns, symbolic values) and the outcome (value for all atom values, or error) must be the reference outcome, i.e. what a fresh instance returns; constructor establishes empty buffers; nested solvers are fresh objects (interpreted). Bounded stand-in: random histories of 2-5 solves incl. failures at different points on default / custom-atom / operator-subset / custom-step instances against fresh instances.",
         "expression shapes and leftover patterns enumerated (values symbolic)"),
 "C03": ("proof", "Fraction, Dimensions and Atom product/quotient proved for ALL integer exponents and magnitudes (exact rational value, component-wise dimension sums, exponent sums/differences with fresh result dicts). The parser itself (AtomParser, UnitSolver, BaseUnits.__init__, get_unit_base) is executed by the interpreter on every expression of an enumerated grammar (every table symbol x admitted prefixes incl. 'da' x exponent shapes, 20 compound expressions with numeric factors and parentheses, render/parse round trip, 28 ill-formed strings) against factor and dimension vector computed from the table rows -- reported as bounded_structure. Uniqueness of prefixed spellings by complete evaluation of the real check on the real tables. Bounded stand-in: random expressions over the whole grammar and single-character corruptions on the real classes.",
         "regexes of AtomParser run in CPython on concrete strings only (no all-strings proof of the parser); tables read from settings.py on every run"),
 "C04": ("proof", "For every enumerated pair of units of the published tables (all same-dimension pairs in the thorough tier, a seeded sample in quick) and for ALL values x: value()/to() return x*f(u)/f(v) with f read independently from the table rows, reciprocal-dimension pairs convert by the reciprocal, number->rad is unchanged, other pairs raise and leave the quantity unchanged, value() writes nothing, to() writes only self.magnitude/self.baseunits; round trip / intermediate-unit / reciprocal-twice as real-arithmetic lemmas. Bounded stand-in: float rounding (8 ulp), arrays, lists, Decimal, repeated read-outs.",
         "floats as reals; unit structure enumerated from the tables (not symbolic); numpy arrays only in the bounded stand-in"),
 "C05": ("proof", "Temperature: all 6x6 pairs of K, kK, mK, Cel, degF, degR for all x against the standard affine scales written in the contract. Logarithmic: every level unit (B-family, 11 units) <-> its linear unit with prefixes on both sides, B/Np <-> PR/AR, B<->Np, same-unit identities, level sums/differences incl. p+p, for all x, against k*log10(X/Xref) written from the property; inverses as lemmas over uninterpreted log10/pow10/ln/exp with the inverse axioms.",
         "log10/ln/exp/pow10 uninterpreted with inverse axioms only; constants inside their arguments rounded to 13 digits; floats as reals"),
 "C06": ("proof", "Fraction and Dimensions arithmetic proved exact for all integer numerators/denominators (incl. pair/int/float forms), Magnitude value arithmetic for all reals, and for enumerated unit pairs and ALL magnitudes: base-dimension value of a+b, a-b, a*b, a/b, -a, a**p equals the operation on base values, result units as stated (left units; exponent sums/differences; exponents times p for int, pair, Fraction and float p; cancelling units folded), different dimensions refused.",
         "pow for non-integer exponents uninterpreted; unit pairs enumerated; arrays only in the bounded stand-in"),
 "C07": ("proof", "Frame and freshness obligations on an explicit heap for every operator, comparison, ufunc handler, value()/to()/rebase()/abse()/rele(): every write to a pre-existing object is recorded by the executor and must be in the contract's modifies set (empty for non-mutating operations); operands report the same (value, units, uncertainty) afterwards; result.magnitude (and result.baseunits for products) is freshly allocated. Bounded stand-in adds arrays, lists, Decimal, NumPy functions and in-place mutation of results/operands after the operation.",
         "scalar magnitudes in the proof; array aliasing (views, in-place *=) only in the bounded stand-in"),
 "C08": ("proof", "For all real values and all non-negative operand uncertainties: result uncertainty >= 0 on every path of _add/_sub/_mul/_truediv/__pow__/__neg__/__init__/rele; sums and differences add uncertainties; exact factor scales by |c| (1/|c|); product/quotient of positive uncertain values carries at least the first-order term; exact op exact is exact; conversion to another linear unit scales the uncertainty by the same factor as the value (relative uncertainty unchanged as a lemma).",
         "floats as reals; array uncertainties only in the bounded stand-in"),
 "C09": ("proof", "Global state G = (unit table rows and key order, prefix keys, conversion-type list). For scopes registering 0-3 units of every kind (plain, prefixed, quantity-valued, existing/new conversion type) and for failing registrations (duplicate at each index, prefixed clash, malformed): G at every exit of close()/__exit__() (normal and exceptional body) and at every EXCEPTIONAL exit of the constructor equals G before the scope; nested and repeated scopes. Bounded stand-in: 150+ definition sequences x body failure x nesting and DIP texts with $unit.",
         "registration sequences enumerated (structure), magnitudes symbolic; dict/list semantics of the executor trusted"),
 "C10": ("other", "Element.__init__ for 42 species spellings x natural/most-abundant with symbolic proportion: mass, Z, N, e equal the isotope-table values computed independently (N=A-Z, e=Z+charge, mass=M+charge*m_e, weighted mean / most abundant). Substance.__init__ on ~80 formulas of the documented notation (nesting, multipliers, adjacency, isotope/charge suffixes, nucleons, explicit + and *, blanks): species counts equal the structural expansion, totals equal count-weighted sums. __add__, __mul__ (symbolic multiplier), Composite.add (symbolic proportion). Structure enumerated -> bounded_structure.",
         "regex preprocessing runs in CPython on concrete formulas; np reductions modelled as folds"),
 "C11": ("other", "Material.data_composite for enumerated mixtures with SYMBOLIC proportions: x_i = 100 p_i/sum p, X_i = 100 p_i m_i/sum p m (number mode) and the mass-mode duals, sums = 100, for all positive proportions (z3, nonlinear reals); scaling invariance and number/mass duality as unbounded lemmas; Composite.add keeps the norm in step with the counts. Bounded stand-in: random mixtures, scaled copies, re-specification by mass fractions, incremental construction, a+b.",
         "mixtures enumerated (1-3 substances in quick, 4 in thorough); component masses are the table values"),
 "C12": ("other", "Constructors with a density and volume attached, for ALL positive densities/volumes and three units each: n = rho/M, rho = n*M, mass = rho*V, per-component n_i = p_i n, rho_i = p_i m_i n, sums equal rho and mass; string and dictionary forms (re-normalisation after each component); number-fraction materials. One open finding (F17: mass-fraction materials with a density raise).",
         "unit triples enumerated; densities symbolic"),
 "C20": ("proof", "DataPlotGrid: every obligation of the grid bijection (constructor invariant nrows=ceil(n/ncols), per-yield cell/index relation in both orders, one yield per index, onto-lemmas) generated from the real AST and discharged by z3 for ALL n and ALL column counts (nonlinear integer VCs with explicit quotient witnesses). ParameterTable / RowCollector / DataCombination: contracts against an ordered-map / row-list / Cartesian-product view, discharged for all cell values but for enumerated structure sizes <=3 (reported as bounded_structure, not counted as proved), plus a bounded random op-sequence stand-in on the real classes.",
         "assumed contracts of np.argsort/np.array/itertools.product (listed in evidence); numpy-array storage mode and dict-valued grids only in the bounded stand-in"),
}

def main():
    m = json.load(open(os.path.join(ROOT, "MANIFEST.json")))
    ids = [json.loads(l)["id"] for l in open(os.path.join(ROOT, "properties.jsonl"))]
    checks = []
    for pid in ids:
        if pid not in PROPS or pid not in TEXT:
            continue
        cat, text, note = TEXT[pid]
        checks.append({"property_id": pid, "quick_cmd": f"./check {pid} --tier quick", "thorough_cmd": f"./check {pid} --tier thorough",
                       "evidence_file": f"evidence/{pid}.json", "replay_cmd_template": f"./check {pid} --replay {{path}}", "engine": "pyvc",
                       "level_claimed": {"category": cat, "text": text, "design_ref": f"DESIGN.md section 5/{pid}"},
                       "level_note": "trusted: pyvc executor and its encoding of Python, z3/cvc5; " + note, "technique": TECH})
    m["checks"] = checks
    m["engines"][0]["serves_properties"] = [c["property_id"] for c in checks]
    claimed = {c["property_id"] for c in checks}
    na_reason = json.load(open(os.path.join(ROOT, "tools", "not_applicable.json"))) if os.path.exists(os.path.join(ROOT, "tools", "not_applicable.json")) else {}
    m["not_applicable"] = [{"property_id": i, "reason": na_reason.get(i, "check not built yet (work in progress; see DESIGN.md section 10)")} for i in ids if i not in claimed]
    json.dump(m, open(os.path.join(ROOT, "MANIFEST.json"), "w"), indent=1)
    import jsonschema
    jsonschema.validate(m, json.load(open("/root/.vp/MANIFEST.schema.json")))
    print("manifest ok:", sorted(claimed))

main()
