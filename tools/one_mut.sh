#!/bin/bash
# usage: one_mut.sh <seeded-name|HEAD> <contracts module> <contract> [scenario...] -- development aid: one contract against a scratch
# copy of /repo's HEAD with the seeded patch applied (PYVC_SRC); /repo is not touched
N=$1; shift
D=$(mktemp -d /tmp/scr.XXXXXX)
git -C /repo archive HEAD | tar -x -C $D
if [ "$N" != HEAD ]; then (cd $D && git apply /verif/seeded/$N/patch.diff) || { rm -rf $D; exit 9; }; fi
cd /verif && PYVC_SRC=$D/src .venv/bin/python tools/one.py "$@" 2>&1 | cut -c1-${CUT:-400} | tail -${TAIL:-12}
rm -rf $D
