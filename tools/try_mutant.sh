#!/bin/bash
# usage: try_mutant.sh <seeded-dir-name> [check args]  -- apply a seeded patch to /repo, run its property's check, undo
N=$1; shift
P=$(python3 -c "import json;print(json.load(open('/verif/seeded/$N/meta.json'))['property'])")
git -C /repo apply /verif/seeded/$N/patch.diff || exit 9
cd /verif && ./check ${PROP:-$P} "$@" | tail -${TAIL:-6}; E=${PIPESTATUS[0]}
git -C /repo checkout -- . 
echo "== $N property=$P exit=$E"
