"""development aid: run one contract (optionally some scenarios) in-process with a profile
usage: tools/one.py <contracts module> <contract name> [scenario ...]"""
import sys, time, os
sys.path.insert(0, os.path.dirname(os.path.dirname(os.path.abspath(__file__))))
from pyvc import driver
from pyvc.verify import Verifier
import cProfile, pstats
cs, ls = driver._load([sys.argv[1]])
c = [x for x in cs if x.name == sys.argv[2]][0]
v = Verifier(contracts=cs)
names = sys.argv[3:]
t0 = time.time()
pr = cProfile.Profile()
if os.environ.get("PROFILE"):
    pr.enable()
from pyvc.interp import PyRaise
try:
    res, info = v.run_contract(c, scenario_filter=set(names) if names else None)
except PyRaise as e:
    print("PYRAISE while building the pre-state:", e.exc.tname, e.exc.args, getattr(e.exc, "where", None))
    raise SystemExit(3)
if os.environ.get("PROFILE"):
    pr.disable()
for r in res:
    if r.status != "proved":
        print(r.name, r.status, r.backend, r.detail, r.model)
print(len(res), "results; paths", info["paths"], "unsupported", info["unsupported"], "secs", round(time.time() - t0, 1))
if os.environ.get("PROFILE"):
    pstats.Stats(pr).sort_stats("cumulative").print_stats(40)
