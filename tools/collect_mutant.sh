#!/bin/bash
# usage: collect_mutant.sh <Cxx> [name]  -- take the change left in /tmp/mut/<Cxx>, confirm it independently in a
# fresh scratch worktree (tests pass with it, demo fails with it and passes without it), store under seeded/
set -u
ID=$1; NAME=${2:-$ID-a}; WT=${MUTDIR:-/tmp/mut}/$ID; OUT=/verif/seeded/$NAME
mkdir -p $OUT
git -C $WT diff > $OUT/patch.diff
cp $WT/demo.py $OUT/demo.py; cp $WT/meta.json $OUT/agent_meta.json 2>/dev/null
S=/tmp/seedchk-$NAME; rm -rf $S; git -C /repo worktree add -q --detach $S ${BASE:-HEAD} || exit 2
cd $S
PYTHONPATH=$S/src /venv/bin/python $OUT/demo.py >/tmp/seedchk-$NAME.clean.log 2>&1; CLEAN=$?
git apply $OUT/patch.diff || { echo "patch does not apply"; exit 2; }
T=$(PYTHONPATH=$S/src /venv/bin/python -m pytest -q -p no:cacheprovider 2>&1 | tail -1)
PYTHONPATH=$S/src /venv/bin/python $OUT/demo.py >/tmp/seedchk-$NAME.mut.log 2>&1; MUT=$?
cd /; git -C /repo worktree remove --force $S
echo "$NAME: tests_with_patch='$T' demo_clean_exit=$CLEAN demo_mutant_exit=$MUT"
python3 - "$OUT" "$ID" "$T" "$CLEAN" "$MUT" <<'PY'
import json,sys,os
out,pid,t,c,m=sys.argv[1:]
am={}
try: am=json.load(open(out+'/agent_meta.json'))
except Exception: pass
meta={"property":pid,"summary":am.get("summary"),"needs":am.get("needs"),"files":am.get("files"),
 "confirmed":{"tests_with_patch":t,"demo_exit_unchanged_tree":int(c),"demo_exit_with_patch":int(m),
 "how":"fresh scratch worktree of /repo HEAD under /tmp, patch applied with git apply, full pytest suite, demo.py with PYTHONPATH=<worktree>/src; worktree removed afterwards"},
 "kept": (int(c)==0 and int(m)!=0 and 'passed' in t and 'failed' not in t)}
json.dump(meta,open(out+'/meta.json','w'),indent=1)
if os.path.exists(out+'/agent_meta.json'): os.remove(out+'/agent_meta.json')
print("kept" if meta["kept"] else "NOT KEPT")
PY
