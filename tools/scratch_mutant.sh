#!/bin/bash
# usage: scratch_mutant.sh <seeded-dir-name|HEAD> [check args] -- development aid: run the property's check against a scratch
# copy of /repo's HEAD (under /tmp, removed afterwards) with the seeded patch applied, through PYVC_SRC; /repo is not touched.
N=$1; shift
D=$(mktemp -d /tmp/scr.XXXXXX)
git -C /repo archive HEAD | tar -x -C $D
if [ "$N" != HEAD ]; then
  P=$(python3 -c "import json;print(json.load(open('/verif/seeded/$N/meta.json'))['property'])")
  (cd $D && git apply /verif/seeded/$N/patch.diff) || { rm -rf $D; exit 9; }
fi
cd /verif && PYVC_SRC=$D/src ./check ${PROP:-$P} "$@" | tail -${TAIL:-6}; E=${PIPESTATUS[0]}
rm -rf $D
echo "== $N property=${PROP:-$P} exit=$E (scratch)"
