#!/bin/bash
# usage: all_mutants.sh [names...]  -- apply each seeded change to /repo, run its property's quick check, undo; one line per mutant in
# seeded/RESULTS.tsv: name, property, exit code, #failed proof obligations, #failed bounded obligations, first failed obligations
cd /verif
NAMES=${@:-$(ls seeded | grep -E '^C[0-9]+-[a-z]$')}
OUT=seeded/RESULTS.tsv
[ $# -eq 0 ] && : > $OUT
for N in $NAMES; do
  P=$(python3 -c "import json;print(json.load(open('seeded/$N/meta.json'))['property'])")
  if ! git -C /repo apply --check /verif/seeded/$N/patch.diff 2>/dev/null; then
    printf "%s\t%s\tpatch-does-not-apply\n" $N $P >> $OUT; continue
  fi
  git -C /repo apply /verif/seeded/$N/patch.diff
  LOG=$(mktemp)
  ./check $P > $LOG 2>&1; E=$?
  git -C /repo checkout -- .
  NP=$(grep "failed obligation:" $LOG | grep -vc "/bounded/")
  NB=$(grep "failed obligation:" $LOG | grep -c "/bounded/")
  FIRST=$(grep "failed obligation:" $LOG | grep -v "/bounded/" | head -2 | sed 's/.*failed obligation: //' | tr '\n' ';')
  FIRSTB=$(grep "failed obligation:" $LOG | grep "/bounded/" | head -1 | sed 's/.*failed obligation: //')
  NOINPUT=$(grep -c "no-failing-input-found" $LOG)
  printf "%s\t%s\texit=%s\tproof=%s\tbounded=%s\tnot-replayed=%s\t%s%s\n" $N $P $E $NP $NB $NOINPUT "$FIRST" "$FIRSTB" >> $OUT
  rm -f $LOG
done
git -C /repo status --short | head -3
