"""Fraction and Dimensions: exact rational arithmetic (C03, C06)."""
from pyvc.contract import contract, spec, lemma

FR = "units/fraction.py::Fraction"
DIM = "units/dimensions.py::Dimensions"
BIG = 100000000   # bound on the cross products under which isclose(abs_tol=1e-7, rel_tol=1e-9) on integers is exact equality


@spec
def ratval(f):
    return f.num / f.den


@spec
def small(f, g):
    """the cross products compared by Fraction.__eq__ stay below 1e8 in absolute value"""
    return (-BIG < f.num * g.den and f.num * g.den < BIG and -BIG < g.num * f.den and g.num * f.den < BIG)


def frac(b, p):
    return b.obj(FR, num=b.int(p + "n"), den=b.int(p + "d"))


def _others(c, with_float=False):
    c.scenario("fraction", lambda b: dict(args=[frac(b, "a"), frac(b, "b")], env=dict(on=lambda: None)))
    c.scenario("pair", lambda b: dict(args=[frac(b, "a"), (b.int("bn"), b.int("bd"))]))
    c.scenario("int", lambda b: dict(args=[frac(b, "a"), b.int("k")]))


@spec
def oval(other):
    """rational value of an operand given as Fraction, (num, den) pair or int"""
    return (other[0] / other[1]) if typename(other) == 'tuple' else (other if typename(other) == 'int' else other.num / other.den)


@spec
def oden(other):
    return other[1] if typename(other) == 'tuple' else (1 if typename(other) == 'int' else other.den)


@spec
def onum(other):
    return other[0] if typename(other) == 'tuple' else (other if typename(other) == 'int' else other.num)


for opname, formula in (("__add__", "ratval(self) + oval(other)"), ("__sub__", "ratval(self) - oval(other)")):
    @contract(f"{FR}.{opname}", ["C03", "C06"])
    def _(c, formula=formula):
        _others(c)
        c.requires("self.den != 0 and oden(other) != 0")
        c.ensures(f"result.den != 0 and ratval(result) == {formula}", "rational-value")
        c.fresh("result")
        c.no_raise()
        c.modifies()
        c.use_at_call_sites(result=lambda b: frac(b, "r"))


@contract(f"{FR}.__mul__", ["C03", "C06"])
def _(c):
    _others(c)
    c.requires("self.den != 0 and oden(other) != 0")
    c.ensures("result.den != 0 and ratval(result) == ratval(self) * oval(other)", "rational-value")
    c.fresh("result")
    c.no_raise()
    c.modifies()
    c.use_at_call_sites(result=lambda b: frac(b, "r"))


@contract(f"{FR}.__truediv__", ["C03", "C06"])
def _(c):
    _others(c)
    c.requires("self.den != 0 and oden(other) != 0 and onum(other) != 0")
    c.ensures("result.den != 0 and ratval(result) == ratval(self) / oval(other)", "rational-value")
    c.fresh("result")
    c.no_raise()
    c.modifies()
    c.use_at_call_sites(result=lambda b: frac(b, "r"))


@contract(f"{FR}.__neg__", ["C03", "C06"])
def _(c):
    c.scenario("fraction", lambda b: dict(args=[frac(b, "a")]))
    c.requires("self.den != 0")
    c.ensures("result.den != 0 and ratval(result) == -ratval(self)", "rational-value")
    c.fresh("result")
    c.no_raise()
    c.modifies()


@contract(f"{FR}.__eq__", ["C03", "C06"])
def _(c):
    c.scenario("fraction", lambda b: dict(args=[frac(b, "a"), frac(b, "b")]))
    c.requires("self.den != 0 and other.den != 0 and small(self, other)")
    c.ensures("result == (self.num * other.den == other.num * self.den)", "equal-iff-cross-products-equal")
    c.no_raise()
    c.modifies()
    c.use_at_call_sites(result=lambda b: b.bool("eq"))


@contract(f"{FR}.rebase", ["C03", "C06"])
def _(c):
    c.scenario("fraction", lambda b: dict(args=[frac(b, "a")]))
    c.requires("self.den != 0")
    c.ensures("self.den > 0", "positive-denominator")
    c.ensures("self.num * old(self.den) == old(self.num) * self.den", "value-preserved")
    c.ensures("implies(old(self.num) == 0, self.num == 0 and self.den == 1)", "zero-is-0/1")
    c.no_raise()
    c.modifies("self.num", "self.den")


@contract(f"{FR}.value", ["C03", "C06"])
def _(c):
    c.scenario("tuple", lambda b: dict(args=[frac(b, "a")]))
    c.scenario("float", lambda b: dict(args=[frac(b, "a"), b.const(float)]))
    c.requires("self.den != 0")
    c.ensures("(result == self.num and (self.num == 0 or self.den == 1)) if typename(result) == 'int' else ((result[0] * old(self.den) == old(self.num) * result[1] and result[1] > 0) if typename(result) == 'tuple' else result == old(self.num) / old(self.den))", "value-forms")
    c.no_raise()


@contract(f"{FR}.__init__", ["C03", "C06"])
def _(c):
    c.scenario("ints", lambda b: dict(args=[b.obj(FR), b.int("n"), b.int("d")]))
    c.ensures("self.num == num and self.den == den", "fields")
    c.no_raise()
    c.modifies("self.num", "self.den")


# ---- Dimensions: component-wise Fraction arithmetic -----------------------------------------------------
NAMES = ['m', 'g', 's', 'K', 'C', 'cd', 'mol', 'rad']


def dims(b, p):
    fields = {n: b.obj(FR, num=b.int(f"{p}{n}n"), den=b.int(f"{p}{n}d")) for n in NAMES}
    return b.obj(DIM, nodim=b.bool(p + "nodim"), **fields)


@spec
def dims_ok(d):
    return all([getattr(d, n).den != 0 for n in ['m', 'g', 's', 'K', 'C', 'cd', 'mol', 'rad']])


@spec
def nodim_ok(d):
    """the flag says: all eight exponents are zero"""
    return d.nodim == all([getattr(d, n).num == 0 for n in ['m', 'g', 's', 'K', 'C', 'cd', 'mol', 'rad']])


for opname, sign in (("__add__", "+"), ("__sub__", "-")):
    @contract(f"{DIM}.{opname}", ["C03", "C06"])
    def _(c, sign=sign):
        c.scenario("dimensions", lambda b: dict(args=[dims(b, "a"), dims(b, "b")]))
        c.requires("dims_ok(self) and dims_ok(other)")
        c.ensures(f"all([ratval(getattr(result, n)) == ratval(getattr(self, n)) {sign} ratval(getattr(other, n)) for n in {NAMES}])", "component-wise")
        c.ensures("nodim_ok(result)", "nodim-flag")
        c.fresh("result")
        c.no_raise()
        c.modifies()


@contract(f"{DIM}.__mul__", ["C03", "C06"])
def _(c):
    c.scenario("by-fraction", lambda b: dict(args=[dims(b, "a"), frac(b, "p")]))
    c.scenario("by-int", lambda b: dict(args=[dims(b, "a"), b.int("k")]))
    c.requires("dims_ok(self) and oden(other) != 0")
    c.ensures(f"all([ratval(getattr(result, n)) == ratval(getattr(self, n)) * oval(other) for n in {NAMES}])", "component-wise")
    c.ensures("nodim_ok(result)", "nodim-flag")
    c.no_raise()
    c.modifies()


@contract(f"{DIM}.__neg__", ["C03", "C04"])
def _(c):
    c.scenario("dimensions", lambda b: dict(args=[dims(b, "a")]))
    c.requires("dims_ok(self)")
    c.ensures(f"all([ratval(getattr(result, n)) == -ratval(getattr(self, n)) for n in {NAMES}])", "component-wise")
    c.no_raise()
    c.modifies()


def dims_one(b, p, which):
    """all exponents zero except the named ones, which are arbitrary fractions (possibly unreduced, negative denominator)"""
    fields = {n: (b.obj(FR, num=b.int(f"{p}{n}n"), den=b.int(f"{p}{n}d")) if n in which else b.obj(FR, num=0, den=1)) for n in NAMES}
    return b.obj(DIM, nodim=b.bool(p + "nodim"), **fields)


@contract(f"{DIM}.__eq__", ["C03", "C04"])
def _(c):
    c.chunk = 1
    c.scenario("dimensions", lambda b: dict(args=[dims(b, "a"), dims(b, "b")]))
    # the same statement with one / two free exponents (decided quickly whatever the body does with the others)
    c.scenario("one-free-exponent", lambda b: dict(args=[dims_one(b, "a", ["m"]), dims_one(b, "b", ["m"])]))
    c.scenario("two-free-exponents", lambda b: dict(args=[dims_one(b, "a", ["g", "s"]), dims_one(b, "b", ["g", "s"])]))
    c.requires("dims_ok(self) and dims_ok(other) and all([small(getattr(self, n), getattr(other, n)) for n in %r])" % NAMES)
    c.ensures(f"result == all([getattr(self, n).num * getattr(other, n).den == getattr(other, n).num * getattr(self, n).den for n in {NAMES}])", "equal-iff-all-components-equal")
    c.no_raise()
    c.modifies()


@contract(f"{DIM}.__post_init__", ["C03", "C04", "C06"])
def _(c):
    def pre(b):
        d = dims(b, "a")
        return dict(args=[d])
    c.scenario("dimensions", pre)
    c.requires("self.nodim == True")
    c.ensures("nodim_ok(self)", "nodim-flag")
    c.no_raise()
    c.modifies("self.nodim")
    c.use_at_call_sites(kinds={"self.nodim": "bool"})


lemma("fraction/cross-product-equality", ["C03", "C06"],
      lambda b: dict(env=dict(n1=b.int("n1"), d1=b.int("d1"), n2=b.int("n2"), d2=b.int("d2"))),
      "(n1 / d1 == n2 / d2) == (n1 * d2 == n2 * d1)", assumes=["d1 != 0 and d2 != 0"], ns=globals())
