"""C20: ParameterTable as an insertion-ordered map, RowCollector as a list of rows stored column-wise,
DataCombination as the Cartesian product.

Structure (number of entries / rows / lists) is concrete in these scenarios and enumerated up to the
stated bound; cell values are symbolic, so each obligation holds for all values.  Because the size is
bounded these obligations are reported under `bounded_structure`, not as unbounded proofs.
"""
import itertools
from pyvc.contract import contract, spec

PT = "parameter_table.py::ParameterTable"
PS = "parameter_table.py::ParameterSettings"
RC = "row_collector.py::RowCollector"
DC = "data_combination.py::DataCombination"
FIELDS = ["a", "b"]
BOUND = "number of table entries / rows / item lists <= 3 (values symbolic)"


@spec
def view(t):
    """abstract value of a keyed table: list of (key, record-tuple) in iteration order"""
    return [(k, tuple([getattr(t._data[k], s) for s in t._settings])) for k in t._data.keys()]


@spec
def wf(t):
    """representation invariant: the key list is the dict's key sequence"""
    return list(t._data.keys()) == list(t._keys)


@spec
def put(v, key, rec):
    if key in [k for k, r in v]:
        return [(k, rec if k == key else r) for k, r in v]
    return v + [(key, rec)]


@spec
def drop(v, key):
    return [(k, r) for k, r in v if k != key]


@spec
def lview(t):
    return [tuple([getattr(r, s) for s in t._settings]) for r in t._data]


def keyed(b, n):
    keys = [f"k{i}" for i in range(n)]
    recs = {k: b.obj(PS, _keys=b.list(FIELDS), a=b.int(f"{k}_a"), b=b.real(f"{k}_b")) for k in keys}
    return b.obj(PT, _settings=b.list(FIELDS), _keys=b.list(keys), _keyname="#", _data=b.dict(recs))


def unkeyed(b, n):
    recs = [b.obj(PS, _keys=b.list(FIELDS), a=b.int(f"r{i}_a"), b=b.real(f"r{i}_b")) for i in range(n)]
    return b.obj(PT, _settings=b.list(FIELDS), _data=b.list(recs))


def _keyed_cases(c, fn, with_new=True):
    for n in range(0, 4):
        for key in [f"k{i}" for i in range(n)] + (["new"] if with_new else []):
            c.scenario(f"n{n}-{key}", (lambda n, key: lambda b: fn(b, n, key))(n, key))


@contract(PT + ".append", "C20", name="ParameterTable.append[keyed]")
def _(c):
    c.bound = BOUND
    _keyed_cases(c, lambda b, n, key: dict(args=[keyed(b, n), key, (b.int("va"), b.real("vb"))], env=dict(key=key, rec=None)))
    c.requires("wf(self)")
    c.ensures("view(self) == put(old(view(self)), key, (args[1][0], args[1][1]))", "view-is-put")
    c.ensures("wf(self)", "wf")
    c.no_raise()
    c.modifies("self._keys[]", "self._data{}")


@contract(PT + ".__setitem__", "C20", name="ParameterTable.__setitem__")
def _(c):
    c.bound = BOUND
    _keyed_cases(c, lambda b, n, key: dict(args=[keyed(b, n), key, (b.int("va"), b.real("vb"))]))
    c.requires("wf(self)")
    c.ensures("view(self) == put(old(view(self)), key, (values[0], values[1]))", "view-is-put")
    c.ensures("wf(self)", "wf")
    c.no_raise()
    c.modifies("self._keys[]", "self._data{}")


# a refused append (values that are not a sequence) leaves the table exactly as it was -- no key without a record; a valid retry then behaves
# like a first append
for meth in ("append", "__setitem__"):
    @contract(PT + "." + meth, "C20", name=f"ParameterTable.{meth}[keyed-refused]")
    def _(c, meth=meth):
        c.bound = BOUND + "; the refused values: an integer, none"
        for bad, label in ((5, "int"), (None, "none")):
            _keyed_cases(c, (lambda bad: lambda b, n, key: dict(args=[keyed(b, n), key, bad]))(bad))
            c.scenarios = [((nm + "-" + label) if "-int" not in nm and "-none" not in nm else nm, fn) for nm, fn in c.scenarios]
        c.requires("wf(self)")
        c.raises("True", label="refused")
        c.on_raise("view(self) == old(view(self)) and wf(self)", "unchanged-on-error")
        c.modifies()


@contract(PT + ".append", "C20", name="ParameterTable.append[keyed-retry-after-a-refusal]")
def _(c):
    c.bound = BOUND + "; one refused append of the same key before"

    def mk(b, n, key):
        t = keyed(b, n)
        r, exc = b.call_catching(b.getattr(t, "append"), key, 5)
        return dict(args=[t, key, (b.int("va"), b.real("vb"))], env=dict(key=key, t0=None))
    _keyed_cases(c, mk)
    c.ensures("wf(self) and len(self._keys) == len(set(self._keys)) and [k for k, r in view(self)] == self._keys", "every-key-once-and-with-a-record")
    c.ensures("dict(view(self))[key] == (args[1][0], args[1][1])", "the-retry-is-stored")
    c.no_raise()


@contract(PT + ".__delitem__", "C20", name="ParameterTable.__delitem__[keyed]")
def _(c):
    c.bound = BOUND
    _keyed_cases(c, lambda b, n, key: dict(args=[keyed(b, n), key]))
    c.requires("wf(self)")
    c.ensures("view(self) == drop(old(view(self)), index)", "view-is-drop")
    c.ensures("wf(self)", "wf")
    c.raises("index not in self._keys", label="raises-iff-absent")
    c.on_raise("view(self) == old(view(self)) and wf(self)", "unchanged-on-error")
    c.modifies("self._keys[]", "self._data{}")


@contract(PT + ".__getitem__", "C20", name="ParameterTable.__getitem__[key]")
def _(c):
    c.bound = BOUND
    _keyed_cases(c, lambda b, n, key: dict(args=[keyed(b, n), key]))
    c.requires("wf(self)")
    c.ensures("(key, tuple([getattr(result, s) for s in self._settings])) in view(self)", "record-of-key")
    c.raises("key not in self._keys", label="raises-iff-absent")
    c.modifies()


@contract(PT + ".__getitem__", "C20", name="ParameterTable.__getitem__[position]")
def _(c):
    c.bound = BOUND
    for n in range(0, 4):
        for i in range(-1, n + 1):
            c.scenario(f"n{n}-pos{i}", (lambda n, i: lambda b: dict(args=[keyed(b, n), i]))(n, i))
    c.requires("wf(self)")
    c.ensures("tuple([getattr(result, s) for s in self._settings]) == view(self)[key][1]", "record-at-position")
    c.raises("key >= len(self._keys) or key < -len(self._keys)", label="raises-iff-out-of-range")
    c.modifies()


@contract(PT + ".__getattr__", "C20", name="ParameterTable.__getattr__")
def _(c):
    c.bound = BOUND
    _keyed_cases(c, lambda b, n, key: dict(args=[keyed(b, n), key]))
    c.requires("wf(self)")
    c.ensures("(key, tuple([getattr(result, s) for s in self._settings])) in view(self)", "record-of-key")
    c.raises("key not in self._keys", label="raises-iff-absent")
    c.modifies()


@contract(PT + ".__contains__", "C20", name="ParameterTable.__contains__")
def _(c):
    c.bound = BOUND
    _keyed_cases(c, lambda b, n, key: dict(args=[keyed(b, n), key]))
    c.requires("wf(self)")
    c.ensures("result == (item in [k for k, r in view(self)])", "membership")
    c.no_raise()
    c.modifies()


@contract(PT + ".__len__", "C20", name="ParameterTable.__len__")
def _(c):
    c.bound = BOUND
    for n in range(0, 4):
        c.scenario(f"n{n}", (lambda n: lambda b: dict(args=[keyed(b, n)]))(n))
    c.requires("wf(self)")
    c.ensures("result == len(view(self))", "length")
    c.no_raise()
    c.modifies()


@contract(PT + ".keys", "C20", name="ParameterTable.keys")
def _(c):
    c.bound = BOUND
    for n in range(0, 4):
        c.scenario(f"n{n}", (lambda n: lambda b: dict(args=[keyed(b, n)]))(n))
    c.requires("wf(self)")
    c.ensures("list(result) == [k for k, r in view(self)]", "keys-in-order")
    c.no_raise()
    c.modifies()


@contract(PT + ".items", "C20", name="ParameterTable.items[keyed]")
def _(c):
    c.bound = BOUND
    for n in range(0, 4):
        c.scenario(f"n{n}", (lambda n: lambda b: dict(args=[keyed(b, n)]))(n))
    c.requires("wf(self)")
    c.ensures("[(k, tuple([getattr(r, s) for s in self._settings])) for k, r in result] == view(self)", "items-in-order")
    c.no_raise()
    c.modifies()


@contract(PT + ".data", "C20", name="ParameterTable.data[keyed]")
def _(c):
    c.bound = BOUND
    for n in range(0, 4):
        c.scenario(f"n{n}", (lambda n: lambda b: dict(args=[keyed(b, n)]))(n))
    c.requires("wf(self)")
    c.ensures("[(k, tuple([d[s] for s in self._settings])) for k, d in result.items()] == view(self)", "data-is-view")
    c.ensures("all([list(d.keys()) == list(self._settings) for d in result.values()])", "declared-fields")
    c.no_raise()
    c.modifies()


@contract(PT + ".__init__", "C20", name="ParameterTable.__init__[keyed]")
def _(c):
    c.bound = BOUND
    for n in range(0, 4):
        def pre(b, n=n):
            params = {f"k{i}": (b.int(f"k{i}_a"), b.real(f"k{i}_b")) for i in range(n)}
            return dict(args=[b.obj(PT), b.list(FIELDS), b.dict(params)], kwargs=dict(keys=True))
        c.scenario(f"n{n}", pre)
    c.ensures("view(self) == [(k, (v[0], v[1])) for k, v in parameters.items()]", "view-is-parameters")
    c.ensures("wf(self)", "wf")
    c.no_raise()


@contract(PT + ".append", "C20", name="ParameterTable.append[unkeyed]")
def _(c):
    c.bound = BOUND
    for n in range(0, 4):
        c.scenario(f"n{n}", (lambda n: lambda b: dict(args=[unkeyed(b, n), (b.int("va"), b.real("vb"))]))(n))
    c.ensures("lview(self) == old(lview(self)) + [(args[0][0], args[0][1])]", "row-appended")
    c.no_raise()
    c.modifies("self._data[]")


@contract(PT + ".__delitem__", "C20", name="ParameterTable.__delitem__[unkeyed]")
def _(c):
    c.bound = BOUND
    for n in range(0, 4):
        for i in range(0, n + 1):
            c.scenario(f"n{n}-pos{i}", (lambda n, i: lambda b: dict(args=[unkeyed(b, n), i]))(n, i))
    c.ensures("lview(self) == old(lview(self))[:index] + old(lview(self))[index + 1:]", "row-removed")
    c.raises("index >= len(self._data)", label="raises-iff-out-of-range")
    c.modifies("self._data[]")


@contract(PT + ".items", "C20", name="ParameterTable.items[unkeyed]")
def _(c):
    c.bound = BOUND
    for n in range(0, 4):
        c.scenario(f"n{n}", (lambda n: lambda b: dict(args=[unkeyed(b, n)]))(n))
    c.ensures("[k for k, r in result] == list(range(len(self._data)))", "positions")
    c.ensures("[tuple([getattr(r, s) for s in self._settings]) for k, r in result] == lview(self)", "rows-in-order")
    c.no_raise()
    c.modifies()


# ---- RowCollector -------------------------------------------------------------------------------------
COLS = ["x", "y", "z"]


@spec
def rowsof(rc):
    """abstract value: the list of rows (tuples in column order)"""
    cols = [getattr(rc, name) for name in rc._columns]
    n = len(cols[0]) if cols else 0
    return [tuple([col[i] for col in cols]) for i in range(n)]


@spec
def rect(rc):
    cols = [getattr(rc, name) for name in rc._columns]
    return all([len(col) == len(cols[0]) for col in cols])


def collector(b, n, kinds=("int", "real", "int")):
    """a collector with n rows of symbolic cells, built by the real constructor (so that it has every attribute the class
    gives its instances)"""
    mk = [b.int if k == "int" else b.real for k in kinds]
    rows = [b.list([mk[ci](f"{name}{i}") for ci, name in enumerate(COLS)]) for i in range(n)]
    return b.new(RC, b.list(list(COLS)), b.list(rows))


@contract(RC + ".append", "C20", name="RowCollector.append[list]")
def _(c):
    c.bound = BOUND
    for n in range(0, 4):
        c.scenario(f"n{n}", (lambda n: lambda b: dict(args=[collector(b, n), b.list([b.int("vx"), b.real("vy"), b.int("vz")])]))(n))
    c.requires("rect(self)")
    c.ensures("rowsof(self) == old(rowsof(self)) + [tuple(old(list(values)))]", "row-appended")
    c.ensures("rect(self)", "rectangular")
    c.no_raise()
    c.modifies("self.x[]", "self.y[]", "self.z[]")


@contract(RC + ".append", "C20", name="RowCollector.append[dict]")
def _(c):
    c.bound = BOUND
    for n in range(0, 3):
        for perm in itertools.permutations(COLS):
            def pre(b, n=n, perm=perm):
                vals = dict(x=b.int("vx"), y=b.real("vy"), z=b.int("vz"))
                return dict(args=[collector(b, n), b.dict({k: vals[k] for k in perm})])
            c.scenario(f"n{n}-{''.join(perm)}", pre)
    c.requires("rect(self)")
    c.ensures("rowsof(self) == old(rowsof(self)) + [(old(values['x']), old(values['y']), old(values['z']))]", "row-appended-by-name")
    c.ensures("rect(self)", "rectangular")
    c.no_raise()
    c.modifies("self.x[]", "self.y[]", "self.z[]")


@contract(RC + ".append", "C20", name="RowCollector.append[dict-creates-columns]")
def _(c):
    c.bound = BOUND
    def pre(b):
        rc = b.obj(RC, _columns=b.list([]), _array=False)
        return dict(args=[rc, b.dict(dict(p=b.int("vp"), q=b.real("vq")))])
    c.scenario("empty-collector", pre)
    c.ensures("list(self._columns) == ['p', 'q'] and rowsof(self) == [(old(values['p']), old(values['q']))]", "columns-created")
    c.no_raise()


@contract(RC + ".append", "C20", name="RowCollector.append[dict-unknown-column]")
def _(c):
    c.bound = BOUND
    def pre(b):
        return dict(args=[collector(b, 1), b.dict(dict(x=b.int("vx"), y=b.real("vy"), z=b.int("vz"), w=b.int("vw")))])
    c.scenario("extra-key", pre)
    c.raises("True", label="rejected")
    c.on_raise("rowsof(self) == old(rowsof(self))", "unchanged-on-error")


@spec
def is_perm_of(a, b):
    """multiset equality of two equally long lists of rows, stated through a matching found by search"""
    if len(a) != len(b):
        return False
    return sorted_rows_equal(a, b)


@contract(RC + ".sort", "C20", name="RowCollector.sort")
def _(c):
    c.bound = BOUND
    for n in range(0, 4):
        for rev in (False, True):
            c.scenario(f"n{n}-{'desc' if rev else 'asc'}",
                       (lambda n, rev: lambda b: dict(args=[collector(b, n), "y", rev]))(n, rev))
    # ties in the sort column (concrete keys, the other cells symbolic): every row survives, none is duplicated
    for keys in ([2.0, 1.0, 2.0], [1.0, 1.0, 1.0], [3.0, 2.0, 2.0, 3.0]):
        for rev in (False, True):
            def pre_t(b, keys=keys, rev=rev):
                n = len(keys)
                rc = b.new(RC, b.list(list(COLS)), b.list([b.list([b.int(f"x{i}"), keys[i], b.int(f"z{i}")]) for i in range(n)]))
                return dict(args=[rc, "y", rev])
            c.scenario(f"ties-{'-'.join(str(int(k)) for k in keys)}-{'desc' if rev else 'asc'}", pre_t)
    c.requires("rect(self)")
    c.ensures("all([ (rowsof(self)[i][1] >= rowsof(self)[i+1][1]) if reverse else (rowsof(self)[i][1] <= rowsof(self)[i+1][1]) for i in range(len(rowsof(self)) - 1)])", "sorted-by-column")
    c.ensures("len(rowsof(self)) == len(old(rowsof(self))) and all([count_row(rowsof(self), r) == count_row(old(rowsof(self)), r) for r in old(rowsof(self))])", "multiset-of-rows-preserved")
    c.ensures("rect(self)", "rectangular")
    c.no_raise()


@spec
def count_row(rs, r):
    """number of occurrences of row r in rs (symbolic when values are)"""
    n = 0
    for x in rs:
        n = n + ite(x == r, 1, 0)
    return n


@contract(RC + ".__init__", "C20", name="RowCollector.__init__")
def _(c):
    c.bound = BOUND
    for n in range(0, 3):
        def pre(b, n=n):
            rws = [b.list([b.int(f"x{i}"), b.real(f"y{i}"), b.int(f"z{i}")]) for i in range(n)]
            return dict(args=[b.obj(RC), b.list(COLS), b.list(rws)])
        c.scenario(f"n{n}", pre)
    # rows given as dicts (keys in any order), mixed with lists, and columns taken from the first dict row when none are declared
    def pre_d(b):
        rws = [b.dict({"x": b.int("x0"), "y": b.real("y0"), "z": b.int("z0")}), b.dict({"z": b.int("z1"), "x": b.int("x1"), "y": b.real("y1")}), b.list([b.int("x2"), b.real("y2"), b.int("z2")])]
        return dict(args=[b.obj(RC), b.list(COLS), b.list(rws)], env=dict(want=None))
    c.scenario("dict-rows", pre_d)

    def pre_nc(b):
        rws = [b.dict({"x": b.int("x0"), "y": b.real("y0"), "z": b.int("z0")}), b.dict({"z": b.int("z1"), "x": b.int("x1"), "y": b.real("y1")})]
        return dict(args=[b.obj(RC), b.list([]), b.list(rws)])
    c.scenario("dict-rows-no-columns-declared", pre_nc)
    c.ensures("rowsof(self) == [(tuple([r[k] for k in ['x', 'y', 'z']]) if isinstance(r, dict) else tuple(r)) for r in rows] and list(self._columns) == ['x', 'y', 'z']", "rows-kept")
    c.no_raise()


@contract(RC + ".to_dict", "C20", name="RowCollector.to_dict")
def _(c):
    c.bound = BOUND
    for n in range(0, 3):
        c.scenario(f"n{n}", (lambda n: lambda b: dict(args=[collector(b, n)]))(n))
    c.ensures("list(result.keys()) == list(self._columns) and all([result[k] == getattr(self, k) for k in self._columns])", "columns")
    c.no_raise()
    c.modifies()


@contract(RC + ".size", "C20", name="RowCollector.size")
def _(c):
    c.bound = BOUND
    for n in range(0, 3):
        c.scenario(f"n{n}", (lambda n: lambda b: dict(args=[collector(b, n)]))(n))
    c.requires("rect(self)")
    c.ensures("result == len(rowsof(self))", "size")
    c.no_raise()
    c.modifies()


# ---- DataCombination -----------------------------------------------------------------------------------
@spec
def cart(lists):
    """Cartesian product, first list slowest"""
    out = [()]
    for l in lists:
        out = [p + (x,) for p in out for x in l]
    return out


def combination(b, shape, grown=()):
    """built by the real constructor; `grown`: (list index, how many items are appended to that list afterwards) -- the helper
    keeps the caller's lists, so what it enumerates is their content at the time of the enumeration"""
    items = [b.list([b.int(f"i{j}_{k}") for k in range(n)]) for j, n in enumerate(shape)]
    dc = b.new(DC, b.list(items))
    for j, extra in grown:
        for k in range(extra):
            b.call(b.getattr(items[j], "append"), b.int(f"late{j}_{k}"))
    return dc


GROWN = [((2, 3), ((1, 1),)), ((1, 1), ((0, 2),)), ((0, 0), ((0, 1), (1, 2)))]


def _dc_scenarios(c):
    for sh in SHAPES:
        c.scenario("shape" + "x".join(map(str, sh)), (lambda sh: lambda b: dict(args=[combination(b, sh)]))(sh))
    for sh, gr in GROWN:
        c.scenario("shape" + "x".join(map(str, sh)) + "[lists-extended-after-construction]",
                   (lambda sh, gr: lambda b: dict(args=[combination(b, sh, gr)]))(sh, gr))


SHAPES = [(), (0,), (1,), (3,), (2, 3), (3, 1), (2, 0), (2, 2, 2), (1, 2, 3)]


@contract(DC + ".items", "C20", name="DataCombination.items")
def _(c):
    c.bound = "at most 3 item lists of at most 3 items (values symbolic)"
    _dc_scenarios(c)
    c.ensures("[k for k, v in result] == cart([list(range(len(l))) for l in self._items])", "index-tuples-are-the-product")
    c.ensures("[v for k, v in result] == cart([list(l) for l in self._items])", "values-are-the-product")
    c.ensures("all([v == tuple([self._items[j][k[j]] for j in range(len(self._items))]) for k, v in result])", "indices-match-values")
    c.no_raise()
    c.modifies()


@contract(DC + ".keys", "C20", name="DataCombination.keys")
def _(c):
    c.bound = "at most 3 item lists of at most 3 items (values symbolic)"
    _dc_scenarios(c)
    c.ensures("list(result) == cart([list(range(len(l))) for l in self._items])", "index-tuples-are-the-product")
    c.no_raise()
    c.modifies()


@contract(DC + ".values", "C20", name="DataCombination.values")
def _(c):
    c.bound = "at most 3 item lists of at most 3 items (values symbolic)"
    _dc_scenarios(c)
    c.ensures("list(result) == cart([list(l) for l in self._items])", "values-are-the-product")
    c.no_raise()
    c.modifies()


# ---- collectors are independent: what one collector learned (columns from a dict row, rows) never shows up in another, nor in the
#      list of names the caller passed in -------------------------------------------------------------------------------------------
@contract(RC + ".__init__", "C20", name="RowCollector.__init__[independent-instances]")
def _(c):
    c.bound = "one earlier collector that received a dict row / rows"

    def pre_default(b):
        first = b.new(RC)
        b.call(b.getattr(first, "append"), b.dict(dict(p=b.int("vp"), q=b.real("vq"))))
        return dict(args=[b.obj(RC)], env=dict(first=first, names=None))
    c.scenario("second-collector-without-columns-after-a-dict-row", pre_default)

    def pre_names(b):
        names = b.list(["x", "y"])
        first = b.new(RC, names)
        b.call(b.getattr(first, "append"), b.list([b.int("vx"), b.real("vy")]))
        return dict(args=[b.obj(RC), names], env=dict(first=first, names=names))
    c.scenario("second-collector-from-the-same-name-list", pre_names)
    c.ensures("rowsof(self) == [] and self.shape() == (0 if names is None else 2, 0)", "starts-empty")
    c.ensures("not same_object(self._columns, first._columns)", "own-column-list")
    c.ensures("names is None or list(names) == ['x', 'y']", "caller's-name-list-unchanged")
    c.no_raise()


@contract(RC + ".append", "C20", name="RowCollector.append[dict-creates-columns-on-a-fresh-collector]")
def _(c):
    c.bound = "two collectors created without columns"

    def pre(b):
        first = b.new(RC)
        b.call(b.getattr(first, "append"), b.dict(dict(p=b.int("vp"), q=b.real("vq"))))
        return dict(args=[b.new(RC), b.dict(dict(r=b.int("vr"), s=b.real("vs")))], env=dict(first=first))
    c.scenario("other-keys-than-the-earlier-collector", pre)
    c.ensures("list(self._columns) == ['r', 's'] and rowsof(self) == [(old(values['r']), old(values['s']))]", "columns-created-from-this-row-only")
    c.ensures("list(first._columns) == ['p', 'q'] and len(rowsof(first)) == 1", "earlier-collector-untouched")
    c.no_raise()


# ---- sorting again: every call sorts by what it is asked for, whatever the collector was sorted by before ---------------------------------
@contract(RC + ".sort", "C20", name="RowCollector.sort[after-an-earlier-sort]")
def _(c):
    c.bound = BOUND
    for first_rev, rev in ((False, True), (True, False), (False, False)):
        def pre(b, first_rev=first_rev, rev=rev):
            rc = collector(b, 3)
            b.call(b.getattr(rc, "sort"), "y", first_rev)
            return dict(args=[rc, "y", rev])
        c.scenario(f"{'desc' if first_rev else 'asc'}-then-{'desc' if rev else 'asc'}", pre)

    def pre_other(b):
        rc = collector(b, 3)
        b.call(b.getattr(rc, "sort"), "x", False)
        return dict(args=[rc, "y", False])
    c.scenario("by-x-then-by-y", pre_other)
    c.requires("rect(self)")
    c.ensures("all([ (rowsof(self)[i][1] >= rowsof(self)[i+1][1]) if reverse else (rowsof(self)[i][1] <= rowsof(self)[i+1][1]) for i in range(len(rowsof(self)) - 1)])", "sorted-by-column-in-the-requested-direction")
    c.ensures("len(rowsof(self)) == len(old(rowsof(self))) and all([count_row(rowsof(self), r) == count_row(old(rowsof(self)), r) for r in old(rowsof(self))])", "multiset-of-rows-preserved")
    c.no_raise()


# ---- array-mode collectors with typed columns: fixed-width (also unsigned) integer columns sort like any other -------------------------
@contract(RC + ".sort", "C20", name="RowCollector.sort[typed-array-columns]")
def _(c):
    import numpy as np
    c.bound = "collectors in array mode with 0..3 rows; key column of dtype uint8, uint16, int8 or int64 holding symbolic integers of that range"
    for dt in ("uint8", "uint16", "int8", "int64"):
        for n in range(0, 4):
            for rev in (False, True):
                def pre(b, dt=dt, n=n, rev=rev):
                    info = np.iinfo(dt)
                    rc = b.new(RC, b.dict({"k": b.dict(dict(dtype=b.const(getattr(np, dt)))), "v": b.dict(dict(dtype=b.const(float)))}), array=True)
                    for i in range(n):
                        k = b.int(f"k{i}")
                        b.assume_rel(k, ">=", int(info.min)); b.assume_rel(k, "<=", int(info.max))
                        b.call(b.getattr(rc, "append"), b.list([k, b.real(f"v{i}")]))
                    return dict(args=[rc, "k", rev])
                c.scenario(f"{dt}-n{n}-{'desc' if rev else 'asc'}", pre)
    c.ensures("all([ (list(self.k)[i] >= list(self.k)[i+1]) if reverse else (list(self.k)[i] <= list(self.k)[i+1]) for i in range(len(list(self.k)) - 1)])", "sorted-by-the-typed-column")
    c.ensures("len(list(self.k)) == len(old(list(self.k))) and all([count_row(list(zip(list(self.k), list(self.v))), r) == count_row(old(list(zip(list(self.k), list(self.v)))), r) for r in old(list(zip(list(self.k), list(self.v))))])", "multiset-of-rows-preserved")
    c.no_raise()


# ---- a float appended to an integer-typed column: the rows already stored keep their exact integers (no detour of the column through
#      float64, which holds integers exactly only up to 2**53) ------------------------------------------------------------------------------
@contract(RC + ".append", "C20", name="RowCollector.append[float-into-an-integer-typed-column]")
def _(c):
    import numpy as np
    c.bound = "collectors in array mode with 1..2 stored rows; int64 key column holding symbolic integers of the whole int64 range; the appended key is a float"
    for n in (1, 2):
        for form in ("list", "dict"):
            def pre(b, n=n, form=form):
                info = np.iinfo("int64")
                rc = b.new(RC, b.dict({"k": b.dict(dict(dtype=b.const(np.int64))), "v": b.dict(dict(dtype=b.const(float)))}), array=True)
                for i in range(n):
                    k = b.int(f"k{i}")
                    b.assume_rel(k, ">=", int(info.min)); b.assume_rel(k, "<=", int(info.max))
                    b.call(b.getattr(rc, "append"), b.list([k, b.real(f"v{i}")]))
                kf, vf = b.real("kf"), b.real("vf")
                b.assume_rel(kf, ">=", -2.0 ** 62); b.assume_rel(kf, "<=", 2.0 ** 62)
                row = b.list([kf, vf]) if form == "list" else b.dict({"k": kf, "v": vf})
                return dict(args=[rc, row], env=dict(n=n, vf=vf))
            c.scenario(f"{form}-row-after-{n}", pre)
    c.ensures("list(self.k)[:n] == old(list(self.k)) and list(self.v)[:n] == old(list(self.v))", "rows-stored-before-are-preserved-exactly")
    c.ensures("len(list(self.k)) == n + 1 and len(list(self.v)) == n + 1 and list(self.v)[n] == vf", "one-row-more")
    c.no_raise()
