"""C09: temporary custom units never outlive their scope.

Global state G = (unit table as ordered map, prefix table keys, conversion-type list).  Obligations: after
a successful constructor the new symbols are registered; at every exit of close()/__exit__() -- and at every
*exceptional* exit of the constructor itself (Python runs no __exit__ when __init__ raises) -- G equals the
G from before the scope was opened."""
from pyvc.contract import contract, spec

UE = "units/unit_environment.py::UnitEnvironment"
US = "units/settings.py::UNIT_STANDARD"
UP = "units/settings.py::UNIT_PREFIXES"
UT = "units/settings.py::UNIT_TYPES"


@spec
def gstate(us, up, ut):
    """observable content of the process-wide tables"""
    return ([(k, (r.magnitude, r.dimensions, r.definition, r.name, r.prefixes)) for k, r in us._data.items()],
            list(us._keys), list(up._keys), list(ut))


def _env(b, **extra):
    d = dict(us=b.glob(US), up=b.glob(UP), ut=b.glob(UT))
    d.update(extra)
    return d


def unit(b, sym, **kw):
    d = dict(magnitude=b.real(sym + "_mag"), dimensions=b.list([1, 0, 0, 0, 0, 0, 0, 0]))
    d.update(kw)
    return b.dict(d)


GOOD = {
    "one": lambda b: {"x1": unit(b, "x1")},
    "two": lambda b: {"x1": unit(b, "x1"), "x2": unit(b, "x2", prefixes=b.list(["k", "m"]))},
    "with-name-and-all-prefixes": lambda b: {"x1": unit(b, "x1", name="ex one", prefixes=True)},
    "quantity-valued": lambda b: {"x1": b.new("units/quantity.py::Quantity", b.real("q"), "km")},
    "existing-conversion-type": lambda b: {"x1": unit(b, "x1", definition=b.glob("units/unit_types.py::TemperatureUnitType"))},
    "new-conversion-type": lambda b: {"x1": unit(b, "x1", definition=b.glob("units/unit_types.py::UnitType")), "x2": unit(b, "x2", definition=b.glob("units/unit_types.py::UnitType"))},
    "string-definition": lambda b: {"x1": unit(b, "x1", definition="2*m")},
    # several classes that were not conversion types before (any class object serves: registration only stores it)
    "two-new-conversion-types": lambda b: {"x1": unit(b, "x1", definition=b.glob("units/unit_types.py::UnitType")), "x2": unit(b, "x2", definition=b.glob("units/unit.py::Unit"))},
    "three-new-conversion-types-and-an-existing-one": lambda b: {"x1": unit(b, "x1", definition=b.glob("units/unit_types.py::UnitType")), "x2": unit(b, "x2", definition=b.glob("units/unit.py::Unit")),
                                                                "x3": unit(b, "x3", definition=b.glob("units/unit_types.py::LogarithmicUnitType")), "x4": unit(b, "x4", definition=b.glob("units/constant.py::Constant"))},
    "empty": lambda b: {},
}
BAD = {
    "duplicate-first": lambda b: {"m": unit(b, "m")},
    "duplicate-second": lambda b: {"x1": unit(b, "x1"), "m": unit(b, "m")},
    "duplicate-third-after-type": lambda b: {"x1": unit(b, "x1", definition=b.glob("units/unit_types.py::UnitType")), "x2": unit(b, "x2"), "kg": unit(b, "kg")},
    "duplicate-after-two-new-types": lambda b: {"x1": unit(b, "x1", definition=b.glob("units/unit_types.py::UnitType")), "x2": unit(b, "x2", definition=b.glob("units/unit.py::Unit")), "s": unit(b, "s")},
    "duplicate-given-as-a-quantity": lambda b: {"m": b.new("units/quantity.py::Quantity", b.real("q"), "km")},
    "duplicate-of-a-constant-given-as-a-quantity-after-a-new-unit": lambda b: {"x1": unit(b, "x1"), "[a_0]": b.new("units/quantity.py::Quantity", b.real("q"), "m")},
    "clash-with-prefixed-symbol": lambda b: {"x1": unit(b, "x1"), "km": unit(b, "km")},
    "new-prefixed-symbol-clashes-with-a-unit": lambda b: {"x1": unit(b, "x1"), "ol": unit(b, "ol", prefixes=b.list(["m"]))},
    "malformed-missing-magnitude": lambda b: {"x1": unit(b, "x1"), "x2": b.dict(dict(dimensions=b.list([1, 0, 0, 0, 0, 0, 0, 0])))},
    "malformed-missing-dimensions": lambda b: {"x2": b.dict(dict(magnitude=1.0))},
    # the conversion type is inserted before the malformed entry is read: nothing registered yet, one type to take back
    "malformed-first-unit-carrying-a-new-type": lambda b: {"x1": b.dict(dict(dimensions=b.list([1, 0, 0, 0, 0, 0, 0, 0]), definition=b.glob("units/unit_types.py::UnitType")))},
    "malformed-second-unit-after-a-new-type": lambda b: {"x1": unit(b, "x1", definition=b.glob("units/unit_types.py::UnitType")), "x2": b.dict(dict(dimensions=b.list([1, 0, 0, 0, 0, 0, 0, 0]), definition=b.glob("units/unit_types.py::LogarithmicUnitType")))},
}


@contract(UE + ".__init__", ["C09"], name="UnitEnvironment.__init__[ok]")
def _(c):
    for name, mk in GOOD.items():
        c.scenario(name, (lambda mk: lambda b: dict(args=[b.obj(UE), b.dict(mk(b))], env=_env(b)))(mk))
    c.ensures("list(us._keys) == old(list(us._keys)) + list(units.keys())", "new-symbols-registered-after-the-old-ones")
    c.ensures("gstate(us, up, ut)[0][:len(old(list(us._keys)))] == old(gstate(us, up, ut)[0])", "existing-rows-untouched")
    c.ensures("list(up._keys) == old(list(up._keys))", "prefix-table-untouched")
    c.ensures("list(self.new_units) == list(units.keys())", "remembers-what-it-registered")
    c.ensures("list(ut)[len(self.new_types):] == old(list(ut)) and all([t not in old(list(ut)) and t in list(ut)[:len(self.new_types)] for t in self.new_types]) "
              "and len(set(self.new_types)) == len(self.new_types)", "remembers-only-the-types-it-added")
    c.no_raise()


@contract(UE + ".__init__", ["C09"], name="UnitEnvironment.__init__[failing-registration]")
def _(c):
    for name, mk in BAD.items():
        c.scenario(name, (lambda mk: lambda b: dict(args=[b.obj(UE), b.dict(mk(b))], env=_env(b)))(mk))
    c.raises("True", label="registration-refused")
    c.on_raise("gstate(us, up, ut) == old(gstate(us, up, ut))", "tables-as-before-the-failed-registration")


def _opened(b, mk):
    us, up, ut = b.glob(US), b.glob(UP), b.glob(UT)
    before = None
    return us, up, ut


for meth, args in (("close", []), ("__exit__", [None, None, None]), ("__exit__[exception-in-body]", ["exc", "exc", None])):
    @contract(UE + "." + meth.split("[")[0], ["C09"], name=f"UnitEnvironment.{meth}")
    def _(c, args=args):
        for name, mk in GOOD.items():
            def pre(b, mk=mk):
                env = _env(b)
                g0 = b.call(b.spec_gstate, env["us"], env["up"], env["ut"]) if False else None
                e = b.new(UE, b.dict(mk(b)))
                a = [e] + [(b.const(ValueError) if x == "exc" else x) for x in args]
                return dict(args=a, env=env)
            c.scenario(name, pre)

        def types_only(b):
            # a scope that recorded a conversion type but no unit (what a registration failing on its first entry leaves)
            env = _env(b)
            e = b.new(UE, b.dict({}))
            t = b.glob("units/unit_types.py::UnitType")
            b.call(b.getattr(env["ut"], "insert"), 0, t)
            b.call(b.getattr(b.getattr(e, "new_types"), "append"), t)
            a = [e] + [(b.const(ValueError) if x == "exc" else x) for x in args]
            return dict(args=a, env=env)
        c.scenario("types-without-units", types_only)
        c.ensures("list(us._keys) == [k for k in old(list(us._keys)) if k not in old(list(self.new_units))]", "exactly-its-units-removed")
        c.ensures("list(ut) == old(list(ut))[len(old(list(self.new_types))):]", "exactly-its-types-removed")
        c.ensures("gstate(us, up, ut)[0] == old(gstate(us, up, ut)[0])[:len(gstate(us, up, ut)[0])]", "remaining-rows-untouched")
        c.ensures("list(up._keys) == old(list(up._keys))", "prefix-table-untouched")
        c.no_raise()


# whole scopes: open, (nested open/close), close -> tables identical to the start
@contract(UE + ".close", ["C09"], name="UnitEnvironment.close[scope-restores-tables]")
def _(c):
    for name, mk in GOOD.items():
        def pre(b, mk=mk):
            env = _env(b)
            snap = b.call(_snapshot_fn(b), env["us"], env["up"], env["ut"])
            e = b.new(UE, b.dict(mk(b)))
            env["g0"] = snap
            return dict(args=[e], env=env)
        c.scenario(name, pre)

    def nested(b):
        env = _env(b)
        snap = b.call(_snapshot_fn(b), env["us"], env["up"], env["ut"])
        outer = b.new(UE, b.dict({"x1": unit(b, "x1", definition=b.glob("units/unit_types.py::UnitType"))}))
        inner = b.new(UE, b.dict({"y1": unit(b, "y1", definition=b.glob("units/unit_types.py::UnitType"))}))
        b.call(b.getattr(inner, "close"))
        env["g0"] = snap
        return dict(args=[outer], env=env)
    c.scenario("nested-sharing-a-conversion-type", nested)

    def repeated(b):
        env = _env(b)
        snap = b.call(_snapshot_fn(b), env["us"], env["up"], env["ut"])
        first = b.new(UE, b.dict({"x1": unit(b, "x1")}))
        b.call(b.getattr(first, "close"))
        second = b.new(UE, b.dict({"x1": unit(b, "x1b")}))
        env["g0"] = snap
        return dict(args=[second], env=env)
    c.scenario("repeated-same-symbol", repeated)
    c.ensures("gstate(us, up, ut) == g0", "tables-identical-to-before-the-scope")
    c.no_raise()


def _snapshot_fn(b):
    """gstate evaluated while the pre-state is being built (symbolically: interpreted; natively: called)"""
    if b.native:
        import copy
        return lambda us, up, ut: copy.deepcopy(gstate(us, up, ut))
    return b.specfn(gstate)


# ---- scopes open at the same time: ending one removes exactly what THAT scope registered (as known to the scenario, not as
#      recorded by the object), the other scope's units stay usable ---------------------------------------------------------------
@contract(UE + ".close", ["C09"], name="UnitEnvironment.close[inner-of-two-open-scopes]")
def _(c):
    def mk(order):
        def pre(b):
            env = _env(b)
            outer = b.new(UE, b.dict({"x1": unit(b, "x1", definition=b.glob("units/unit_types.py::UnitType")), "x2": unit(b, "x2")}))
            inner = b.new(UE, b.dict({"y1": unit(b, "y1", definition=b.glob("units/unit_types.py::UnitType")), "y2": unit(b, "y2", prefixes=b.list(["k"]))}))
            env.update(outer=outer, inner=inner, mine=["y1", "y2"] if order == "inner-first" else ["x1", "x2"], theirs=["x1", "x2"] if order == "inner-first" else ["y1", "y2"])
            return dict(args=[inner if order == "inner-first" else outer], env=env)
        return pre
    c.scenario("inner-closed-first", mk("inner-first"))
    c.scenario("outer-closed-first", mk("outer-first"))
    c.ensures("list(us._keys) == [k for k in old(list(us._keys)) if k not in mine]", "exactly-the-units-this-scope-registered-are-removed")
    c.ensures("all([k in us._keys for k in theirs])", "the-other-scope's-units-stay-registered")
    c.ensures("list(up._keys) == old(list(up._keys))", "prefix-table-untouched")
    c.no_raise()


@contract(UE + ".__init__", ["C09"], name="UnitEnvironment.__init__[failing-inside-another-scope]")
def _(c):
    def pre(b):
        env = _env(b)
        outer = b.new(UE, b.dict({"x1": unit(b, "x1"), "x2": unit(b, "x2", definition=b.glob("units/unit_types.py::UnitType"))}))
        env.update(outer=outer)
        return dict(args=[b.obj(UE), b.dict({"y1": unit(b, "y1"), "x1": unit(b, "x1b")})], env=env)
    c.scenario("duplicate-of-the-outer-scope's-symbol", pre)

    def pre_q(b):
        env = _env(b)
        outer = b.new(UE, b.dict({"x1": unit(b, "x1"), "x2": unit(b, "x2", definition=b.glob("units/unit_types.py::UnitType"))}))
        env.update(outer=outer)
        return dict(args=[b.obj(UE), b.dict({"y1": unit(b, "y1"), "x1": b.new("units/quantity.py::Quantity", b.real("q"), "km")})], env=env)
    c.scenario("duplicate-of-the-outer-scope's-symbol-given-as-a-quantity", pre_q)
    c.raises("True", label="registration-refused")
    c.on_raise("gstate(us, up, ut) == old(gstate(us, up, ut))", "tables-as-when-the-inner-scope-was-opened")
    c.on_raise("'x1' in us._keys and 'x2' in us._keys", "outer-scope's-units-stay-registered")


# ---- registration aborted by ANY raised exception -- also the ones that do not derive from Exception (KeyboardInterrupt from Ctrl-C or a
#      notebook interrupt, SystemExit, GeneratorExit) -- at any unit: the tables are as before ------------------------------------------------
ABORTS = ["KeyboardInterrupt", "SystemExit", "GeneratorExit", "MemoryError", "ValueError"]


@contract(UE + ".__init__", ["C09"], name="UnitEnvironment.__init__[aborted-by-any-exception]")
def _(c):
    import builtins
    c.bound = "two or three units, the first, second or third definition raising on the read of one of its entries; five exception classes"
    for exc in ABORTS:
        for pos in (0, 1, 2):
            for key in ("magnitude", "dimensions"):
                def pre(b, exc=exc, pos=pos, key=key):
                    FM = b.model("faults", "FailingMapping")
                    units = {}
                    for i in range(pos + 1):
                        d = dict(magnitude=b.real(f"x{i}_mag"), dimensions=b.list([1, 0, 0, 0, 0, 0, 0, 0]))
                        if i == 0:
                            d["definition"] = b.glob("units/unit_types.py::UnitType")
                        units[f"x{i}"] = b.dict(d) if i < pos else b.call(FM, b.dict(d), key, b.call(b.const(getattr(builtins, exc))))
                    return dict(args=[b.obj(UE), b.dict(units)], env=_env(b))
                c.scenario(f"{exc}-at-unit-{pos}-{key}", pre)
    c.raises("True", label="the-exception-reaches-the-caller")
    c.on_raise("gstate(us, up, ut) == old(gstate(us, up, ut))", "tables-as-before-the-aborted-registration")


# ---- object lifetime: the object of a scope that has ended (or whose registration failed) may be released by CPython at ANY later
#      moment -- also while a later scope that registered the same symbols is open.  `release` (pyvc/models/lifetime.py) runs the
#      class's finaliser, if it has one, at the point the scenario chooses; the later scope keeps its units and still ends cleanly ------
def _released(b, env, first_failed):
    rel = b.model("lifetime", "release")
    snap = b.call(_snapshot_fn(b), env["us"], env["up"], env["ut"])
    if first_failed:
        first = b.obj(UE)
        b.call_catching(b.getattr(first, "__init__"), b.dict({"x1": unit(b, "x1", definition=b.glob("units/unit_types.py::UnitType")), "m": unit(b, "m")}))
    else:
        first = b.new(UE, b.dict({"x1": unit(b, "x1", definition=b.glob("units/unit_types.py::UnitType")), "x2": unit(b, "x2")}))
        b.call(b.getattr(first, "close"))
    second = b.new(UE, b.dict({"x1": unit(b, "x1b", definition=b.glob("units/unit_types.py::UnitType")), "y1": unit(b, "y1")}))
    env["g0"] = snap
    return rel, first, second


@contract(UE + ".close", ["C09"], name="UnitEnvironment.close[after-an-ended-scope-was-released]")
def _(c):
    for ff in (False, True):
        def pre(b, ff=ff):
            env = _env(b)
            rel, first, second = _released(b, env, ff)
            b.call(rel, first)
            return dict(args=[second], env=env)
        c.scenario("first-scope-" + ("failed-part-way" if ff else "closed"), pre)
    c.ensures("old('x1' in us._keys and 'y1' in us._keys and len(list(ut)) == len(g0[3]) + 1)", "the-open-scope's-units-and-type-were-still-registered-after-the-release")
    c.ensures("gstate(us, up, ut) == g0", "tables-identical-to-before-both-scopes")
    c.no_raise()


# ---- a definition that is neither a class nor a text (a list, an instance): whether such a registration is accepted or refused is not
#      fixed by the property, but if it is refused the tables are as before, and if it is accepted the scope takes back what it added ------
ODD = {
    "list-definition-first": lambda b: {"x1": unit(b, "x1", definition=b.list(["8", "m"]))},
    "list-definition-after-a-good-unit": lambda b: {"x1": unit(b, "x1"), "x2": unit(b, "x2", definition=b.list(["8", "m"]))},
    "dict-definition-after-a-new-type": lambda b: {"x1": unit(b, "x1", definition=b.glob("units/unit_types.py::UnitType")), "x2": unit(b, "x2", definition=b.dict({"a": 1}))},
}


@contract(UE + ".__init__", ["C09"], name="UnitEnvironment.__init__[definition-that-is-no-class]")
def _(c):
    for name, mk in ODD.items():
        c.scenario(name, (lambda mk: lambda b: dict(args=[b.obj(UE), b.dict(mk(b))], env=_env(b)))(mk))
    c.on_raise("gstate(us, up, ut) == old(gstate(us, up, ut))", "tables-as-before-the-failed-registration")
    c.ensures("list(us._keys) == old(list(us._keys)) + list(units.keys())", "new-symbols-registered-after-the-old-ones")


@contract(UE + ".close", ["C09"], name="UnitEnvironment.close[definition-that-is-no-class]")
def _(c):
    for name, mk in ODD.items():
        def pre(b, mk=mk):
            us, up, ut = b.glob(US), b.glob(UP), b.glob(UT)
            g0 = b.call(b.specfn(gstate), us, up, ut)
            e, exc = b.call_catching(b.cls(UE), b.dict(mk(b)))
            b.assume(exc is None)
            return dict(args=[e], env=_env(b, g0=g0))
        c.scenario(name, pre)
    c.ensures("gstate(us, up, ut) == g0", "tables-as-before-the-scope")
    c.no_raise()
