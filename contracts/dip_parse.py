"""DIP.parse itself under contract: the main loop of the parser (queue, case blocks, hierarchy, injection, imports,
modification of already defined nodes, final validation) is executed symbolically on whole parameter texts.

Structure is concrete (the text of every scenario is fixed), the *data* are symbolic: the truth values of the case
conditions and the numbers injected into definitions come from nodes of a previously parsed environment whose values
are replaced by symbols.  One scenario therefore decides its text for every combination of truth values and every
injected number; the texts themselves are generated (seeded) from a small grammar and listed in the evidence as the
bound of these obligations.

The expected outcome is not obtained by parsing: the generator builds a tree (definitions, groups, imports, case
blocks) and `walk` reads the effect off that tree with the rule of the property (a line takes effect iff, for every
enclosing block, its clause is the first one whose condition is true, or @else when none is)."""
import os
import random

from pyvc.contract import contract, spec
from pyvc.specfns import NATIVE_HELPERS

ite, typename = NATIVE_HELPERS["ite"], NATIVE_HELPERS["typename"]   # run-time meaning of the helpers used inside the spec functions below

DIPC = "dip/dip.py::DIP"
TIER = os.environ.get("PYVC_TIER", "quick")
NC, NV = 4, 3   # symbolic truth values c0..c3 and symbolic integers v0..v2 available to a text
PRELUDE = "\n".join([f"c{i} bool = true" for i in range(NC)] + [f"v{i} int = {i + 1}" for i in range(NV)] + ["base", "  x int = 7", "  y int = 8"])
BASE = [("x", 7), ("y", 8)]
SKIP = NC + NV + len(BASE)   # nodes of the prelude precede everything a text defines


def prestate(b, text, name="t", symbols=None):
    """a parser loaded with `text` on top of an environment whose c*/v* nodes hold arbitrary truth values / integers"""
    d0 = b.new(DIPC, name="prelude")
    b.call(b.getattr(d0, "add_string"), PRELUDE)
    env = b.call(b.getattr(d0, "parse"))
    nodes = b.getattr(env, "nodes")
    cs, vs = symbols if symbols is not None else ([b.bool(f"c{i}") for i in range(NC)], [b.int(f"v{i}") for i in range(NV)])
    for i, s in enumerate(cs + vs):
        b.setattr(b.getattr(b.call(b.getattr(nodes, "__getitem__"), i), "value"), "value", s)
    d = b.new(DIPC, env, name=name)
    b.call(b.getattr(d, "add_string"), text)
    return d, env, cs, vs


# ---- specification side ------------------------------------------------------------------------------------------------
@spec
def node_of(env, name):
    for n in env.nodes:
        if n.name == name:
            return n
    return None


@spec
def val_of(env, name):
    n = node_of(env, name)
    return None if n is None or n.value is None else n.value.value


@spec
def names_of(env):
    return [n.name for n in env.nodes]


@spec
def lit(l, cs, vs):
    return cs[l[1]] if l[0] == 'b' else (vs[l[1]] > l[2])


@spec
def holds(guard, cs, vs):
    return all([lit(l, cs, vs) == l[3] for l in guard])


@spec
def want_value(v, vs):
    return vs[v[1]] if isinstance(v, tuple) else v


@spec
def first_effective(nm, rows, cs, vs):
    """index of the first definition of nm whose guard holds"""
    r = 100000
    for k in range(len(rows) - 1, -1, -1):
        if rows[k][0] == nm:
            r = ite(holds(rows[k][1], cs, vs), k, r)
    return r


@spec
def in_order_of_first_effect(names, rows, cs, vs):
    return all([(i < j) == (first_effective(names[i], rows, cs, vs) < first_effective(names[j], rows, cs, vs))
                for i in range(len(names)) for j in range(len(names)) if i != j])


# ---- generator: trees of definitions, groups, imports and case blocks ----------------------------------------------
class Gen:
    def __init__(self, rng, maxdepth=2, closers=("def", "group", "import", "mod")):
        self.rng = rng
        self.maxdepth = maxdepth
        self.counter = 100
        self.closers = closers

    def cond(self):
        rng = self.rng
        r = rng.random()
        if r < 0.45:
            i = rng.randrange(NC)
            return (f'("{{?c{i}}}")', ("b", i, None, True))
        if r < 0.7:
            i = rng.randrange(NC)
            return (f'("~{{?c{i}}}")', ("b", i, None, False))
        i, k = rng.randrange(NV), rng.randrange(-2, 6)
        if rng.random() < 0.5:
            return (f'("{{?v{i}}} > {k}")', ("i", i, k, True))
        return (f'("{{?v{i}}} <= {k}")', ("i", i, k, False))

    def leaf(self, kind=None):
        rng = self.rng
        kind = kind or rng.choice(["def", "def", "def", "import", "group"])
        self.counter += 1
        if kind == "import":
            return ("import", rng.choice(["cp", "cq"]))
        if kind == "group":
            return ("group", rng.choice(["g", "h"]), [self.leaf("def") for _ in range(rng.randint(1, 2))])
        if rng.random() < 0.35:
            return ("def", rng.choice("abd"), ("v", rng.randrange(NV)))
        return ("def", rng.choice("abd"), self.counter)

    def block(self, depth):
        rng = self.rng
        clauses = [(self.cond(), self.items(depth + 1, rng.randint(1, 2))) for _ in range(rng.randint(1, 3))]
        if rng.random() < 0.5:
            clauses.append((None, self.items(depth + 1, rng.randint(1, 2))))
        return ("block", clauses, rng.random() < 0.45)   # True: closed by @end, False: closed by indentation

    def items(self, depth, n):
        rng = self.rng
        out = []
        for _ in range(n):
            if depth < self.maxdepth and rng.random() < 0.45:
                blk = self.block(depth)
                if out and out[-1][0] == "block" and not out[-1][2]:
                    out[-1] = (out[-1][0], out[-1][1], True)   # two blocks in a row: the first needs its @end
                out.append(blk)
            else:
                out.append(self.leaf())
        return out


def render(items, indent=0, w=2):
    lines = []
    pad = " " * indent
    for it in items:
        if it[0] == "def":
            v = it[2]
            lines.append(f"{pad}{it[1]} int = " + (f"{{?v{v[1]}}}" if isinstance(v, tuple) else str(v)))
        elif it[0] == "import":
            lines.append(f"{pad}{it[1]} {{?base.*}}")
        elif it[0] == "group":
            lines.append(f"{pad}{it[1]}")
            lines += render(it[2], indent + w, w)
        else:
            nm = (it[3] + ".") if len(it) > 3 else ""   # compact form: the keywords carry a name, which prefixes the nodes inside
            for c, body in it[1]:
                lines.append(f"{pad}{nm}@else" if c is None else f"{pad}{nm}@case {c[0]}")
                lines += render(body, indent + w, w) if body else [" " * (indent + w) + "# nothing here"]
            if it[2]:
                lines.append(f"{pad}{nm}@end")
    return lines


def walk(items, guard, prefix, defs):
    """(name, guard, value) of every definition in text order; guard = conjunction of (kind, index, const, polarity)"""
    for it in items:
        if it[0] == "def":
            defs.append((prefix + it[1], list(guard), it[2]))
        elif it[0] == "import":
            for k, v in BASE:
                defs.append((prefix + it[1] + "." + k, list(guard), v))
        elif it[0] == "group":
            walk(it[2], guard, prefix + it[1] + ".", defs)
        else:
            prev = []
            for c, body in it[1]:
                g = list(guard) + [(l[0], l[1], l[2], not l[3]) for l in prev] + ([c[1]] if c is not None else [])
                walk(body, g, prefix + ((it[3] + ".") if len(it) > 3 else ""), defs)
                if c is not None:
                    prev.append(c[1])
    return defs


def case_text(seed, maxdepth=2):
    rng = random.Random(seed)
    g = Gen(rng, maxdepth)
    items = g.items(0, rng.randint(2, 4))
    if not any(it[0] == "block" for it in items):
        items.insert(rng.randrange(len(items) + 1), g.block(0))
        for k in range(len(items) - 1):
            if items[k][0] == "block" and items[k + 1][0] == "block" and not items[k][2]:
                items[k] = (items[k][0], items[k][1], True)
    text = "\n".join(render(items, 0, rng.choice([1, 2, 3])))
    defs = walk(items, [], "", [])
    return text, table(defs)


def table(defs):
    """per definition: the guards of the later definitions of the same name (the last effective one gives the value);
    per name: all guards (present iff one holds); first-appearance order of the names"""
    rows, order, presence = [], [], {}
    for k, (nm, g, v) in enumerate(defs):
        rows.append((nm, g, v, [h for (n2, h, _) in defs[k + 1:] if n2 == nm]))
        if nm not in presence:
            order.append(nm)
            presence[nm] = []
        presence[nm].append(g)
    return dict(rows=rows, order=order, presence=[(nm, presence[nm]) for nm in order])


N_CASE = 24 if TIER != "thorough" else 80
MAX_CASES, MAX_LINES = (7, 30) if TIER != "thorough" else (8, 36)   # size limit of a generated text (rejection sampling)


def _sized(gen, n, seed0):
    out, s = [], seed0
    while len(out) < n:
        t, tab = gen(s, maxdepth=2 if s % 3 else 3)
        s += 1
        if t.count("@case") <= MAX_CASES and len(t.splitlines()) <= MAX_LINES:
            out.append((t, tab))
    return out


CASE_TEXTS = _sized(case_text, N_CASE, 1000)
# hand-written texts for the closing rules (each kind of line that can end an indentation-closed clause)
HAND = [
    ("import-line-ends-the-block", [("block", [((None, ("b", 0, None, True)), [("def", "a", 1)]), ((None, ("b", 1, None, True)), [("def", "a", 2)])], False),
                                    ("import", "cp"), ("def", "d", 5)]),
    ("group-header-ends-the-block", [("block", [((None, ("b", 0, None, True)), [("def", "a", 1)]), ((None, ("b", 1, None, True)), [("def", "a", 2)])], False),
                                     ("group", "g", [("def", "b", 3)]), ("def", "d", 5)]),
    ("definition-ends-the-block", [("block", [((None, ("b", 0, None, True)), [("def", "a", 1)]), (None, [("def", "a", 2)])], False), ("def", "d", ("v", 0))]),
    ("outer-else-ends-the-inner-block", [("block", [((None, ("b", 0, None, True)), [("def", "a", 1), ("block", [((None, ("b", 1, None, True)), [("def", "b", 2)])], False)]),
                                                    (None, [("def", "a", 10)])], False), ("def", "d", 5)]),
    ("import-ends-inner-block-only", [("block", [((None, ("b", 0, None, True)), [("def", "a", 1), ("block", [((None, ("b", 1, None, True)), [("def", "b", 2)]), (None, [("def", "b", 3)])], False),
                                                                                  ("import", "cp"), ("def", "d", 4)]), (None, [("def", "a", 10)])], False), ("import", "cq")]),
    ("nested-three-deep-with-end", [("block", [((None, ("b", 0, None, True)), [("block", [((None, ("b", 1, None, True)), [("block", [((None, ("b", 2, None, True)), [("def", "a", 1)]), (None, [("def", "a", 2)])], True)]),
                                                                                          (None, [("def", "a", 3)])], True)]), ((None, ("i", 0, 2, True)), [("def", "a", 4)])], True), ("def", "b", ("v", 1))]),
    ("more-than-ten-clause-keywords", [("def", "a", 0)] + [x for k in range(6) for x in (("block", [((None, ("b", k % 4, None, True)), [("def", "bd"[k % 2], 10 + k)]), (None, [("def", "a", 20 + k)])], True),)] + [("def", "d", ("v", 0))]),
    ("adjacent-named-blocks-are-different-blocks", [("def", "d", 0),
                                                    ("block", [((None, ("b", 0, None, True)), [("def", "a", 10)]), ((None, ("b", 1, None, True)), [("def", "a", 11)]), (None, [("def", "a", 12)])], False, "p"),
                                                    ("block", [((None, ("b", 2, None, True)), [("def", "b", 20)]), ((None, ("b", 3, None, True)), [("def", "b", 21)]), (None, [("def", "b", 22)])], False, "q"),
                                                    ("def", "d", 99)]),
    ("adjacent-named-blocks-inside-a-clause", [("block", [((None, ("i", 0, 1, True)), [("block", [((None, ("b", 0, None, True)), [("def", "a", 10)]), (None, [("def", "a", 12)])], False, "p"),
                                                                                        ("block", [((None, ("b", 1, None, True)), [("def", "b", 20)]), (None, [("def", "b", 22)])], False, "q")]),
                                                          (None, [("def", "a", 1)])], True), ("def", "d", 99)]),
    ("empty-clause-bodies-closed-by-indentation", [("def", "a", 0), ("block", [((None, ("b", 0, None, True)), [])], False), ("def", "b", 1),
                                                   ("block", [((None, ("b", 1, None, True)), [("def", "d", 5), ("block", [((None, ("b", 2, None, True)), [])], False), ("def", "d", 6)]), (None, [])], False),
                                                   ("def", "a", 7)]),
    ("same-condition-twice", [("block", [((None, ("b", 0, None, True)), [("def", "a", 1)]), ((None, ("b", 0, None, True)), [("def", "a", 2)]), (None, [("def", "a", 3)])], True)]),
]


def _fix_conds(items):
    """hand-written trees give only the literal; add the condition text"""
    out = []
    for it in items:
        if it[0] == "block":
            cl = []
            for c, body in it[1]:
                if c is not None:
                    l = c[1]
                    txt = (f'("{{?c{l[1]}}}")' if l[3] else f'("~{{?c{l[1]}}}")') if l[0] == "b" else (f'("{{?v{l[1]}}} > {l[2]}")' if l[3] else f'("{{?v{l[1]}}} <= {l[2]}")')
                    c = (txt, l)
                cl.append((c, _fix_conds(body)))
            out.append(("block", cl, it[2]) + tuple(it[3:]))
        elif it[0] == "group":
            out.append(("group", it[1], _fix_conds(it[2])))
        else:
            out.append(it)
    return out


HAND_TEXTS = []
for _name, _items in HAND:
    _items = _fix_conds(_items)
    HAND_TEXTS.append((_name, "\n".join(render(_items)), table(walk(_items, [], "", []))))


@contract(DIPC + ".parse", ["C15"], name="DIP.parse[case-blocks]")
def _(c):
    c.bound = (f"{len(HAND_TEXTS)} hand-written and {N_CASE} generated texts (seeded grammar: definitions, groups, imports, case blocks nested <= 3, "
               "clauses closed by @end / next clause / indentation); truth values of the conditions and injected integers symbolic")
    c.chunk = 1
    import re as _re
    # the same hand-written texts with the conditions written as plain references ('@case {?c0}' instead of '@case ("{?c0}")')
    bare = [(n + "[conditions-as-plain-references]", _re.sub(r'\("\{\?c(\d)\}"\)', r'{?c\1}', t), tab) for n, t, tab in HAND_TEXTS if '("{?c' in t]
    for name, text, tab in HAND_TEXTS + bare + [(f"generated-{k}", t, tab) for k, (t, tab) in enumerate(CASE_TEXTS)]:
        def pre(b, text=text, tab=tab):
            d, env, cs, vs = prestate(b, text)
            return dict(args=[d], env=dict(cs=cs, vs=vs, rows=tab["rows"], presence=tab["presence"], order=tab["order"], text=text))
        c.scenario(name, pre)
    c.ensures("all([(node_of(result, nm) is not None) == any([holds(g, cs, vs) for g in gs]) for nm, gs in presence])",
              "a-line-takes-effect-iff-every-enclosing-clause-is-the-selected-one")
    c.ensures("all([ite(holds(g, cs, vs) and not any([holds(h, cs, vs) for h in later]), val_of(result, nm) == want_value(v, vs), True) for nm, g, v, later in rows])",
              "value-of-the-last-effective-definition")
    c.ensures(f"in_order_of_first_effect(names_of(result)[{SKIP}:], rows, cs, vs) and len(names_of(result)) >= {SKIP}", "nodes-in-order-of-first-effect")
    c.ensures(f"[val_of(result, 'base.' + k) for k, v in {BASE!r}] == [v for k, v in {BASE!r}] and [val_of(result, 'c%d' % i) for i in range({NC})] == cs and [val_of(result, 'v%d' % i) for i in range({NV})] == vs",
              "nodes-outside-the-blocks-unaffected")
    c.no_raise()


# misplaced @else / @end make parsing fail -- also when some enclosing block is still open, and whatever the truth values are
_C = lambda i: f'("{{?c{i}}}")'
MISPLACED = [
    ("else-after-an-inner-block-closed-by-end", f"@case {_C(0)}\n  @case {_C(1)}\n    a int = 1\n  @end\n  @else\n    a int = 2\n@end\nd int = 5"),
    ("else-after-an-inner-block-closed-by-a-line", f"@case {_C(0)}\n  @case {_C(1)}\n    a int = 1\n  b int = 3\n  @else\n    a int = 2\n@end\nd int = 5"),
    ("else-deeper-than-its-clause", f"@case {_C(0)}\n  g\n    a int = 1\n    @else\n    a int = 2\n@end"),
    ("named-else-of-another-block-inside-an-open-clause", f"@case {_C(0)}\n  p.@case {_C(1)}\n    a int = 1\n  q.@else\n    a int = 2\n@end"),
    ("else-without-any-block", "a int = 1\n@else\n  a int = 2\n@end"),
    ("end-without-any-block", "a int = 1\n@end\nb int = 2"),
    ("second-end", f"@case {_C(0)}\n  a int = 1\n@end\n@end"),
    ("else-after-end-at-top-level", f"@case {_C(0)}\n  a int = 1\n@end\n@else\n  a int = 2"),
    ("end-inside-a-group-of-the-clause", f"@case {_C(0)}\n  g\n    a int = 1\n    @end\nb int = 2"),
]


@contract(DIPC + ".parse", ["C15"], name="DIP.parse[misplaced-clause-keywords]")
def _(c):
    c.bound = f"{len(MISPLACED)} texts with an @else / @end that belongs to no open block at its place; truth values of the conditions symbolic"
    c.chunk = 1
    for name, text in MISPLACED:
        def pre(b, text=text):
            d, env, cs, vs = prestate(b, text)
            return dict(args=[d], env=dict(text=text))
        c.scenario(name, pre)
    c.raises("True", label="parsing-fails")


# a parse works on its own copy of the environment it was given: what an earlier parse of the same environment object left open (a clause
# closed only by the end of its text, or abandoned by an error) does not decide any line of a later parse
EARLIER = [("clause-left-open-at-the-end", f"@case {_C(0)}\n  a int = 1"), ("clause-and-else-left-open", f"@case {_C(0)}\n  a int = 1\n@else\n  a int = 2"),
           ("nested-clauses-left-open", f"@case {_C(0)}\n  @case {_C(1)}\n    a int = 1"), ("parse-failed-inside-a-clause", f"@case {_C(0)}\n  a int = 1\n  nope = 3")]
LATER = "g\n  size int = 3\n    !tags [\"x\"]\n  deeper\n    leaf int = 4\nk int = 2\n@case true\n  m int = 5\n@end"


@contract(DIPC + ".parse", ["C15"], name="DIP.parse[after-an-earlier-parse-of-the-same-environment]")
def _(c):
    c.bound = f"{len(EARLIER)} earlier texts parsed from the same environment object (their clauses left open or the parse failing), then one later text; truth values symbolic"
    c.chunk = 1
    for name, first in EARLIER:
        for ind in (0, 4):    # the later text as it is, and written with every line indented (e.g. inside an indented Python string)
            def pre(b, first=first, ind=ind):
                later = "\n".join(" " * ind + l for l in LATER.split("\n"))
                d1, env, cs, vs = prestate(b, first, name="first")
                r, exc = b.call_catching(b.getattr(d1, "parse"))
                d = b.new(DIPC, env, name="second")
                b.call(b.getattr(d, "add_string"), later)
                # the same later text on an equal environment that no earlier parse has seen
                dt, envt, cst, vst = prestate(b, later, name="second", symbols=(cs, vs))
                twin = b.call(b.getattr(dt, "parse"))
                return dict(args=[d], env=dict(twin=twin))
            c.scenario(name + ("[later-text-indented]" if ind else ""), pre)
    c.ensures("[(n, val_of(result, n)) for n in names_of(result)] == [(n, val_of(twin, n)) for n in names_of(twin)]", "same-outcome-as-on-an-environment-no-earlier-parse-has-seen")
    c.ensures("len(names_of(result)) == %d + 4" % SKIP, "every-line-of-the-later-text-takes-effect")
    c.no_raise()


# a condition is evaluated where it stands: the same condition text later in the document sees the values the nodes have THEN
SAME_TEXT = (f"@case {_C(0)}\n  a int = 1\n@else\n  a int = 2\n@end\nc0 = {{?c1}}\n@case {_C(0)}\n  b int = 10\n@else\n  b int = 20\n@end\n"
             f"g\n  @case {_C(0)}\n    d int = 100\n  @case {_C(2)}\n    d int = 200\n  @else\n    d int = 300\n  @end\nc0 = {{?c3}}\n@case {_C(0)}\n  e int = 7\n@end")


@contract(DIPC + ".parse", ["C15"], name="DIP.parse[same-condition-text-after-the-node-changed]")
def _(c):
    c.bound = "one text in which the same condition text occurs four times while the referenced boolean is reassigned in between; truth values symbolic"
    c.chunk = 1

    def pre(b):
        d, env, cs, vs = prestate(b, SAME_TEXT)
        return dict(args=[d], env=dict(cs=cs))
    c.scenario("condition-text-repeated", pre)
    c.ensures("val_of(result, 'a') == ite(cs[0], 1, 2) and val_of(result, 'b') == ite(cs[1], 10, 20)", "each-block-selects-by-the-value-at-its-place")
    c.ensures("val_of(result, 'g.d') == ite(cs[1], 100, ite(cs[2], 200, 300)) and (node_of(result, 'e') is not None) == cs[3]", "nested-and-later-blocks-too")
    c.no_raise()


# a clause that was selected stays selected (and one that was not stays skipped) when the node its condition names is re-assigned inside the block
OWN_TEXT = ('@case ("{?c0}")\n  c0 = false\n  a int = 1\n  p int = 10\n@else\n  a int = 2\n  q int = 20\n@end\nb int = 3\n'
            '@case ("{?c1}")\n  x int = 1\n@else\n  c1 = true\n  x int = 2\n  y int = 5\n@end\n'
            '@case ("{?c2}")\n  c2 = false\n  @case ("{?c3}")\n    z int = 4\n  @end\n  w int = 6\n@end')


@contract(DIPC + ".parse", ["C15"], name="DIP.parse[clause-re-assigns-the-node-its-condition-names]")
def _(c):
    c.bound = "one text with three blocks whose conditions are plain references to booleans that are re-assigned inside the block; truth values symbolic"
    c.chunk = 1

    def pre(b):
        d, env, cs, vs = prestate(b, OWN_TEXT)
        return dict(args=[d], env=dict(cs=cs))
    c.scenario("condition-node-re-assigned-inside-its-block", pre)
    c.ensures("val_of(result, 'a') == ite(cs[0], 1, 2) and (node_of(result, 'p') is not None) == cs[0] and (node_of(result, 'q') is not None) == (not cs[0]) and val_of(result, 'b') == 3",
              "the-clause-chosen-at-the-keyword-stays-chosen")
    c.ensures("val_of(result, 'x') == ite(cs[1], 1, 2) and (node_of(result, 'y') is not None) == (not cs[1])", "else-stays-chosen-after-the-condition-became-true")
    c.ensures("(node_of(result, 'w') is not None) == cs[2] and (node_of(result, 'z') is not None) == (cs[2] and cs[3])", "nested-block-inside-a-chosen-clause")
    c.ensures("val_of(result, 'c0') == False and val_of(result, 'c1') == True and val_of(result, 'c2') == False", "the-re-assignments-took-effect")
    c.no_raise()


# a sourced DIP file is a text of its own: its case blocks are judged by its own conditions, wherever the $source line stands in the parent
_FIX = os.path.join(os.path.dirname(os.path.abspath(__file__)), "fixtures")
SRC_TEXTS = [
    ("source-declared-inside-a-clause", '@case ("{?c0}")\n  $source inc = ' + os.path.join(_FIX, "remote_blocks.dip") + '\n  got {inc?*}\n@else\n  k int = 9\n@end\nz int = 3'),
    ("source-declared-inside-a-nested-else", '@case ("{?c0}")\n  k int = 9\n@else\n  @case ("{?c1}")\n    m int = 1\n  @else\n    $source inc = ' + os.path.join(_FIX, "remote_blocks.dip") + '\n    got {inc?*}\n  @end\n@end\nz int = 3'),
]


@contract(DIPC + ".parse", ["C15"], name="DIP.parse[source-declared-inside-a-clause]")
def _(c):
    c.bound = "two texts declaring a DIP file (which begins with a case block of its own) as a source inside a clause; truth values of the parent's conditions symbolic"
    c.chunk = 1
    for name, text in SRC_TEXTS:
        def pre(b, text=text, name=name):
            d, env, cs, vs = prestate(b, text)
            return dict(args=[d], env=dict(cs=cs, sel=(name == "source-declared-inside-a-clause")))
        c.scenario(name, pre)
    c.ensures("(lambda on: (val_of(result, 'got.a') == 1 and val_of(result, 'got.b') == 4 and val_of(result, 'got.c') == 6) if on else (node_of(result, 'got.a') is None and node_of(result, 'got.b') is None))"
              "(cs[0] if sel else ((not cs[0]) and (not cs[1])))", "blocks-of-the-sourced-file-judged-by-its-own-conditions")
    c.ensures("val_of(result, 'z') == 3", "lines-after-the-block-unaffected")
    c.no_raise()


@contract(DIPC + ".parse", ["C15"], name="DIP.parse[sourced-file-with-a-misplaced-else]")
def _(c):
    c.bound = "a DIP file beginning with a misplaced @else, declared as a source at top level and inside a selected clause"
    for name, text in [("at-top-level", '$source inc = ' + os.path.join(_FIX, "remote_misplaced_else.dip") + '\nz int = 3'),
                       ("inside-a-selected-clause", '@case true\n  $source inc = ' + os.path.join(_FIX, "remote_misplaced_else.dip") + '\n@end\nz int = 3')]:
        def pre(b, text=text):
            d, env, cs, vs = prestate(b, text)
            return dict(args=[d])
        c.scenario(name, pre)
    c.raises("True", label="misplaced-else-is-an-error")


# =====================================================================================================================
# General form: a prelude (parsed first; the values of some of its nodes are then replaced by symbols), a text parsed
# on top of that environment, and what the property says about the outcome, written as small expression trees over the
# symbols:  ('s', name) symbol | number/str/bool constant | (op, a, b) with op in + - * / lt le gt ge eq ne and or |
# ('not', a) | ('in', a, [constants]) | ('near', a, b)
class Prelude:
    def __init__(self, lines, symbols):
        """lines: [(text line, node name or None)]; symbols: {node name: (kind, symbol name)}"""
        self.text = "\n".join(l for l, _ in lines)
        self.names = [n for _, n in lines if n]
        self.symbols = symbols


def fn_w0(data):
    return data['w0'].value


def fn_seven(data):
    return 7.0


def fn_three(data):
    return 3


def fn_same_as_len(data):
    return data['len']            # hands back the value object it was given


def fn_len_in_m(data):
    return data['len'].convert('m')   # converts the value it was given, as the documented examples do


FUNCTIONS = {"fn_w0": fn_w0, "fn_seven": fn_seven, "fn_three": fn_three, "fn_same_as_len": fn_same_as_len, "fn_len_in_m": fn_len_in_m}


def prestate2(b, pre, text, name="t", functions=()):
    d0 = b.new(DIPC, name="prelude")
    b.call(b.getattr(d0, "add_string"), pre.text)
    env = b.call(b.getattr(d0, "parse"))
    nodes = b.getattr(env, "nodes")
    S = {}
    for i, nm in enumerate(pre.names):
        if nm in pre.symbols:
            kind, sym = pre.symbols[nm]
            S[sym] = getattr(b, kind)(sym)
            b.setattr(b.getattr(b.call(b.getattr(nodes, "__getitem__"), i), "value"), "value", S[sym])
    d = b.new(DIPC, env, name=name)
    for fname in functions:
        b.call(b.getattr(d, "add_function"), fname, b.specfn(spec(FUNCTIONS[fname])))
    b.call(b.getattr(d, "add_string"), text)
    return d, env, S


@spec
def ev(t, S):
    if not isinstance(t, tuple):
        return t
    op = t[0]
    if op == 's':
        return S[t[1]]
    if op == 'not':
        return not ev(t[1], S)
    if op == 'abs':
        return absd(ev(t[1], S))
    if op == 'in':
        return any([ev(t[1], S) == x for x in t[2]])
    a = ev(t[1], S)
    b = ev(t[2], S)
    if op == '+':
        return a + b
    if op == '-':
        return a - b
    if op == '*':
        return a * b
    if op == '/':
        return a / b
    if op == 'lt':
        return a < b
    if op == 'le':
        return a <= b
    if op == 'gt':
        return a > b
    if op == 'ge':
        return a >= b
    if op == 'eq':
        return a == b
    if op == 'ne':
        return a != b
    if op == 'and':
        return a and b
    if op == 'or':
        return a or b
    return None


@spec
def agrees(v, t, S):
    """the parsed value v against the expected tree t; ('bounds', lo, hi): true whenever lo holds, false whenever hi fails
    (what a tolerant comparison must satisfy)"""
    if isinstance(t, tuple) and t[0] == 'bounds':
        return ite(ev(t[1], S), v == True, True) and ite(ev(t[2], S), True, v == False)
    if isinstance(t, tuple) and t[0] == 'none':
        return v is None
    if isinstance(t, tuple) and t[0] == 'about':     # a number up to the stated absolute tolerance (table constants of limited precision)
        return v is not None and absd(v - ev(t[1], S)) <= t[2]
    w = ev(t, S)
    if isinstance(w, bool) or typename(w) == 'bool' or isinstance(w, str):
        return v == w
    return v is not None and close(v, w)


@spec
def unit_of(env, name):
    n = node_of(env, name)
    return None if n is None or n.value is None else n.value.unit


@spec
def absd(x):
    return x if x >= 0 else -x


@spec
def close(a, b):
    return absd(a - b) <= 1e-9 * (absd(a) + absd(b)) + 1e-300


def S_(n):
    return ("s", n)


# ---- C16: constraints decide whether an environment is returned -----------------------------------------------------------
PRE16 = Prelude([
    ("w0 float = 1", "w0"), ("w1 float = 1", "w1"), ("v0 int = 1", "v0"), ("f0 bool = true", "f0"),
    ("t_max float = 10 s", "t_max"),
    ("timestep float = 1 s", "timestep"), ('  !condition ("{?} < {?t_max} && {?} > 0")', None),
    ("n int = 2", "n"), ("  !options [1,2,3]", None),
    ("size float = 5 cm", "size"), ('  !condition ("1 cm < {?} && {?} < 1 m")', None),
    ("mode int = 1", "mode"), ("  = 1", None), ("  = 2", None),
    ("flag bool = true", "flag"), ('  !condition ("{?} == true")', None),
], {"w0": ("real", "w0"), "w1": ("real", "w1"), "v0": ("int", "v0"), "f0": ("bool", "f0")})
N16 = len(PRE16.names)
w0, w1, v0, f0 = S_("w0"), S_("w1"), S_("v0"), S_("f0")
# (name, text, accepted-iff, [(node, expected value)] on acceptance)
C16_TEXTS = [
    ("inherited-condition-refers-to-the-modified-node", "t_max = {?w0} s", ("lt", 1, w0), [("t_max", w0), ("timestep", 1)]),
    ("condition-on-the-modified-node", "timestep = {?w0} s", ("and", ("lt", w0, 10), ("gt", w0, 0)), [("timestep", w0)]),
    ("both-modified", "timestep = {?w0} s\nt_max = {?w1} s", ("and", ("lt", w0, w1), ("gt", w0, 0)), [("timestep", w0), ("t_max", w1)]),
    ("options-keyword", "n = {?v0}", ("in", v0, [1, 2, 3]), [("n", v0)]),
    ("options-lines", "mode = {?v0}", ("in", v0, [1, 2]), [("mode", v0)]),
    ("condition-with-units-other-unit-given", "size = {?w0} mm", ("and", ("lt", 10, w0), ("lt", w0, 1000)), [("size", ("/", w0, 10))]),
    ("condition-on-bool", "flag = {?f0}", f0, [("flag", f0)]),
    ("new-node-with-condition", 'k int = {?v0}\n  !condition ("{?} >= 2 && {?} != 5")', ("and", ("ge", v0, 2), ("ne", v0, 5)), [("k", v0)]),
    ("new-node-with-options", "k int = {?v0}\n  !options [4,8]\nj int = 3", ("in", v0, [4, 8]), [("k", v0), ("j", 3)]),
    ("new-node-with-condition-on-another-new-node", 'lo float = {?w0} cm\nhi float = {?w1} cm\n  !condition ("{?} > {?lo}")', ("gt", w1, w0), [("lo", w0), ("hi", w1)]),
    ("declared-without-value", "q float cm", False, []),
    ("declared-then-set", "q float cm\nq = {?w0}", True, [("q", w0)]),
    ("declared-in-a-group-without-value", "g\n  q int", False, []),
    ("constraint-violated-inside-unselected-clause-does-not-matter", '@case ("{?f0}")\n  n = {?v0}\n@end', ("or", ("not", f0), ("in", v0, [1, 2, 3])), []),
    ("unconstrained-modification", "w1 = {?w0}", True, [("w1", w0)]),
    ("integer-options-in-another-unit-and-a-condition", 'x int = 2000 m\n  !options [2,3] km\n  !condition ("{?} >= 2500 m")', False, []),
    ("integer-options-in-another-unit-condition-holds", 'x int = 2000 m\n  !options [2,3] km\n  !condition ("{?} < 2500 m && {?} > 100")', True, [("x", 2000)]),
    ("integer-option-lines-in-another-unit-symbolic", 'x int = {?v0} m\n  = 2 km\n  = 3 km\n  !condition ("{?} < 2500 m")', ("eq", v0, 2000), [("x", v0)]),
    # every option written is an option: the same number on an option line and in an option list with ANOTHER unit are two options
    ("same-number-as-option-line-and-in-a-list-of-another-unit", 'wd float = {?v0} m\n  = 5 cm\n  !options [5,10] m', ("in", v0, [5, 10]), [("wd", v0)]),
    ("same-number-in-two-option-lists-of-different-units", 'sz float = {?v0} m\n  !options [12,13] cm\n  !options [12,14] m', ("in", v0, [12, 14]), [("sz", v0)]),
    ("same-integer-as-option-line-and-in-a-list-of-another-unit", 'dp int = {?v0} m\n  = 2 km\n  !options [2,3] m', ("in", v0, [2, 3, 2000]), [("dp", v0)]),
    ("array-bounds-of-the-definition-hold-for-a-typed-reassignment", "counts int[2] = [1,2]\ncounts int[:] = [1,2,3]", False, []),
    ("array-bounds-of-the-definition-hold-for-an-untyped-reassignment", "counts int[2] = [1,2]\ncounts = [1,2,3]", False, []),
    ("array-reassignment-within-the-bounds", "counts int[1:3] = [1,2]\ncounts int[:] = [4,5,6]\nm float[2,2] = [[1,2],[3,4]]\nm = [[5,6],[7,8]]", True, []),
    ("text-condition-not-equal", 'nm str = abc\n  !condition ("{?} != x")', True, [("nm", "abc")]),
    ("text-condition-not-equal-violated", 'nm str = abc\n  !condition ("{?} != abc")', False, []),
    ("text-condition-and-format", "nm str = abc\n  !condition (\"{?} != x\")\n  !format '[a-z]+'", True, [("nm", "abc")]),
    ("text-condition-holds-format-fails", "nm str = Ab-1\n  !condition (\"{?} != x\")\n  !format '^[a-z]+$'", False, []),
    ("text-format-then-condition-format-fails", "nm str = Ab-1\n  !format '^[a-z]+$'\n  !condition (\"{?} != x\")", False, []),
    ("text-options-condition-format", "nm str = C-3\n  = C-3\n  = ab\n  !condition (\"{?} != x\")\n  !format '^[a-z]+$'", False, []),
    ("boolean-condition-not-equal", 'fl bool = {?f0}\n  !condition ("{?} != false")', f0, [("fl", f0)]),
    # the node's own value used several times in one condition, compared with a node in another unit in between: every use is the same value
    ("own-value-used-twice-around-a-comparison-in-another-unit", 'lim float = 1 m\nsz float = {?w0} cm\n  !condition ("{?} < {?lim} && {?} < 5")', ("and", ("lt", w0, 100), ("lt", w0, 5)), [("sz", w0)]),
    ("own-value-used-twice-around-a-comparison-in-another-unit-2", 'lim float = 1 m\nsz float = {?w0} cm\n  !condition ("{?} < {?lim} && {?} > 5")', ("and", ("lt", w0, 100), ("gt", w0, 5)), [("sz", w0)]),
    ("another-node-used-twice-around-a-comparison-in-another-unit", 'lim float = {?w1} m\nsz float = {?w0} cm\n  !condition ("{?lim} > {?} && {?lim} < 3")', ("and", ("gt", ("*", w1, 100), w0), ("lt", w1, 3)), [("sz", w0)]),
    # options given by reference are the referenced values IN THEIR UNIT (23 cm is not one of 22 m, 23 m)
    ("options-by-reference-in-another-unit-value-outside", "allowed float[2] = [22,23] m\nsz float = 23 cm\n  !options {?allowed}", False, []),
    ("options-by-reference-in-another-unit-value-inside", "allowed float[2] = [22,23] m\nsz float = 2300 cm\n  !options {?allowed}\none float = 22 m\nsy float = 2200 cm\n  = {?one}\n  = 5 cm", True, [("sz", 2300), ("sy", 2200)]),
    ("option-line-by-reference-in-another-unit-value-outside", "one float = 22 m\nsy float = 22 cm\n  = {?one}\n  = 5 cm", False, []),
    # a slice written on the definition applies to the value it was written on, not to later assignments: those are judged as they are
    ("sliced-definition-then-a-modification-within-the-bounds", "bb int[4] = [1,2,3,4]\naa int[2:3] = {?bb}[1:3]\naa = [7,8]", True, []),
    ("sliced-definition-then-a-modification-outside-the-bounds", "bb int[4] = [1,2,3,4]\naa int[2] = {?bb}[0:2]\naa = [5,6,7]", False, []),
    # the empty text is a text like any other: as an option, as a value, as a modification
    ("empty-text-among-the-options-value-outside", 'nm str = abc\n  !options ["","x"]', False, []),
    ("empty-text-among-the-option-lines-value-outside", 'nm str = abc\n  = ""\n  = x', False, []),
    ("empty-text-among-the-options-value-empty", 'nm str = ""\n  !options ["","x"]\nn2 str = x\n  = ""\n  = x\nn2 = ""', True, [("nm", ""), ("n2", "")]),
    # options and operands of integer nodes written in another unit are compared as the numbers they are (1.6 m is not 2 m)
    ("integer-option-in-another-unit-that-is-no-whole-number", "height int = {?v0} m\n  = 1 m\n  = 160 cm", ("eq", v0, 1), [("height", v0)]),
    ("integer-compared-with-an-integer-in-another-unit", 'limit int = 2 m\nisz int = {?v0} cm\n  !condition ("{?} >= {?limit}")', ("ge", v0, 200), [("isz", v0)]),
    ("integer-compared-with-an-integer-in-another-unit-2", 'limit int = 151 cm\nisz int = {?v0} m\n  !condition ("{?} > {?limit}")', ("ge", v0, 2), [("isz", v0)]),
    # an imported copy carries the constraints of the original as its own: options added to the copy do not widen the original, nor vice versa
    ("options-added-to-an-imported-copy-do-not-widen-the-original", "backup\n  {?mode}\n    = 3\nmode = {?v0}", ("in", v0, [1, 2]), [("mode", v0), ("backup.mode", 1)]),
    ("options-added-to-an-imported-copy-hold-for-the-copy", "backup\n  {?mode}\n    = 3\nbackup.mode = {?v0}", ("in", v0, [1, 2, 3]), [("backup.mode", v0), ("mode", 1)]),
    ("options-added-to-one-of-two-imported-copies", "a\n  {?mode}\n    = 3\nb\n  {?mode}\nb.mode = {?v0}", ("in", v0, [1, 2]), [("b.mode", v0), ("a.mode", 1)]),
]


@contract(DIPC + ".parse", ["C16"], name="DIP.parse[constraints]")
def _(c):
    c.bound = f"{len(C16_TEXTS)} texts parsed on top of an environment with constrained nodes; the values that are tested against the constraints are symbolic"
    c.chunk = 1
    for name, text, accept, vals in C16_TEXTS:
        def pre(b, text=text, accept=accept, vals=vals):
            d, env, S = prestate2(b, PRE16, text)
            return dict(args=[d], env=dict(S=S, accept=accept, vals=vals, text=text))
        c.scenario(name, pre)
    c.raises("not ev(accept, S)", label="an-environment-is-returned-iff-every-constraint-holds")
    c.ensures("all([agrees(val_of(result, nm), t, S) for nm, t in vals])", "final-values")


# ---- C18: numerical, logical and template expressions inside a parsed text ------------------------------------------------
PRE18 = Prelude([
    ("a float = 1 m", "a"), ("b float = 1 cm", "b"), ("k float = 4", "k"), ("i int = 3", "i"), ("j int = 3 mm", "j"),
    ("f bool = true", "f"), ("g bool = true", "g"), ("h bool = true", "h"), ("name str = Tina", "name"),
], {"a": ("real", "wa"), "b": ("real", "wb"), "k": ("real", "wk"), "i": ("int", "vi"), "j": ("int", "vj"), "f": ("bool", "bf"), "g": ("bool", "bg"), "h": ("bool", "bh")})
wa, wb, wk, vi, vj, bf, bg, bh = [S_(n) for n in ("wa", "wb", "wk", "vi", "vj", "bf", "bg", "bh")]
# (name, text, refused-iff, [(node, expected value tree)], requires)
C18_TEXTS = [
    ("sum-in-mixed-units", 'x float = ("{?a} + {?b}") cm', False, [("x", ("+", ("*", wa, 100), wb))], None),
    ("product-before-difference", 'x float = ("{?a} - {?b} * {?k}") m', False, [("x", ("-", wa, ("/", ("*", wb, wk), 100)))], None),
    ("parentheses-first", 'x float = ("({?a} + {?b}) * {?k}") cm', False, [("x", ("*", ("+", ("*", wa, 100), wb), wk))], None),
    ("quotient-of-lengths-is-a-number", 'x float = ("{?a} / {?b}")', False, [("x", ("/", ("*", wa, 100), wb))], ("ne", wb, 0)),
    ("product-of-lengths", 'x float = ("{?a} * {?b}") m2', False, [("x", ("/", ("*", wa, wb), 100))], None),
    ("literals-with-units", 'x float = ("2 m + 50 cm - {?a}") cm', False, [("x", ("-", 250, ("*", wa, 100)))], None),
    ("left-to-right-division", 'x float = ("{?a} / 2 / {?k}") m', False, [("x", ("/", ("/", wa, 2), wk))], ("ne", wk, 0)),
    ("left-to-right-subtraction", 'x float = ("{?a} - {?b} - {?b}") cm', False, [("x", ("-", ("-", ("*", wa, 100), wb), wb))], None),
    ("division-then-product", 'x float = ("{?a} / {?k} * 2") m', False, [("x", ("*", ("/", wa, wk), 2))], ("ne", wk, 0)),
    ("signs-of-numbers", 'x float = ("-2 m * -3 + {?a} * -1") cm', False, [("x", ("-", 600, ("*", wa, 100)))], None),
    ("zero-result", 'x float = ("{?a} - {?a}") cm\ny int = ("{?i} * 0")', False, [("x", 0), ("y", 0)], None),
    ("untyped-modification-by-expression-in-another-unit", 'x float = 1 m\nx = ("50 cm + {?b}") cm\ny float = 2 km\ny float = ("{?a} * 3") m', False, [("x", ("/", ("+", 50, wb), 100)), ("y", ("/", ("*", wa, 3), 1000))], None),
    ("untyped-modification-by-expression", 'x float = 1 cm\nx = ("{?a} + {?b}")\nz bool = true\nz = ("{?f} && {?g}")', False, [("x", ("+", ("*", wa, 100), wb)), ("z", ("and", bf, bg))], None),
    ("result-requested-in-a-custom-unit", '$unit len = 2 m\nc float = ("{?a} + 1 m") [len]\nd float = ("3 [len] + {?b}") cm', False, [("c", ("/", ("+", wa, 1), 2)), ("d", ("+", 600, wb))], None),
    ("dimensionless-left-operand", 'x float = ("0.5 + 25 %")\ny float = ("1 - 10 %") %\nz float = ("{?k} + 50 %")', False, [("x", 0.75), ("y", 90), ("z", ("+", wk, 0.5))], None),
    ("number-plus-length-refused", 'x float = ("{?k} + {?a}") m', True, [], None),
    ("number-minus-length-refused", 'x float = ("2 - 3 m") m', True, [], None),
    ("different-dimension-refused", 'x float = ("{?a} + {?k}") m', True, [], None),
    ("different-dimension-refused-2", 'x float = ("{?a} * {?b} - {?a}") m2', True, [], None),
    ("integer-nodes", 'x float = ("{?i} * {?j} + 1 cm") mm', False, [("x", ("+", ("*", vi, vj), 10))], None),
    ("comparison-twice-on-the-same-node", 'y bool = ("{?a} > {?b} && {?a} < 50")', False, [("y", ("and", ("gt", ("*", wa, 100), wb), ("lt", wa, 50)))], None),
    ("tolerant-greater-or-equal", 'y bool = ("{?a} >= {?b}")', False, [("y", ("bounds", ("ge", ("*", wa, 100), wb), ("ge", ("*", wa, 100), ("-", wb, ("+", ("*", 1e-5, ("abs", wb)), 1e-7)))))], None),
    ("tolerant-equality", 'y bool = ("{?a} == {?b}")', False, [("y", ("bounds", ("eq", ("*", wa, 100), wb), ("le", ("abs", ("-", ("*", wa, 100), wb)), ("+", ("*", 1e-5, ("abs", wb)), 1e-7))))], None),
    ("comparison-then-bare-number", 'y bool = ("{?b} < {?a} && {?b} > 20")', False, [("y", ("and", ("lt", wb, ("*", wa, 100)), ("gt", wb, 20)))], None),
    ("or-of-ands", 'y bool = ("{?f} || {?g} && {?h}")', False, [("y", ("or", bf, ("and", bg, bh)))], None),
    ("negation-binds-tighter-than-and", 'y bool = ("~{?f} && {?g} || {?h}")', False, [("y", ("or", ("and", ("not", bf), bg), bh))], None),
    ("parenthesised-or", 'y bool = ("({?f} || {?g}) && ~{?h}")', False, [("y", ("and", ("or", bf, bg), ("not", bh)))], None),
    ("comparison-binds-tighter-than-negation", 'y bool = ("~{?i} == 3 || {?f}")', False, [("y", ("or", ("not", ("eq", vi, 3)), bf))], None),
    ("integer-comparisons", 'y bool = ("{?i} <= 4 && {?i} != 2 && {?j} > 1 mm")', False, [("y", ("and", ("and", ("le", vi, 4), ("ne", vi, 2)), ("gt", vj, 1)))], None),
    ("definedness", 'y bool = ("!{?a} && {?f}")\nz bool = ("!{?nope} || {?g}")', False, [("y", bf), ("z", bg)], None),
    ("string-comparison", 'y bool = ("{?name} == Tina && {?f}")\nz bool = ("{?name} == Tom || {?g}")', False, [("y", bf), ("z", bg)], None),
    ("case-condition-with-units", '@case ("{?a} > {?b}")\n  x int = 1\n@else\n  x int = 2\n@end', False, [("x", ("+", 2, ("*", -1, ("gt", ("*", wa, 100), wb))))], None),
    # a node without unit defined by an expression whose result is a pure number carried by a unit of its own size (%, a custom count)
    ("pure-numbers-in-units-with-a-size", '$unit dozen = 12\np1 float = ("2 [dozen] * 3")\np2 float = ("50 % * 2")\np3 int = ("2 [dozen] + 1")\np4 float = ("{?k} * 1 [dozen] / 4")\np5 float = ("10 m / 5 cm")', False,
     [("p1", 72), ("p2", 1), ("p3", 25), ("p4", ("*", wk, 3)), ("p5", 200)], ("gt", wk, 0.001)),
    # template references with several slice parts: an index 0 is an index like any other
    ("template-slices-starting-with-index-zero", 'widths float[2,2] = [[1,2],[3,4]]\ncube int[2,2,2] = [[[1,2],[3,4]],[[5,6],[7,8]]]\nt str = ("{{?widths}[0,1]:.2e}")\nu str = ("{{?cube}[0,0]}")\n'
     'v str = ("{{?cube}[1,0]}")\nw str = ("{{?widths}[0]}")\nx str = ("{{?cube}[0,1,1]}")', False,
     [("t", "2.00e+00"), ("u", "[1, 2]"), ("v", "[5, 6]"), ("w", "[1.0, 2.0]"), ("x", "4")], None),
    # trigonometric functions take the ANGLE their argument denotes: degrees, turns and custom angular units are converted to radians
    ("trigonometry-of-angles-in-other-units", '$unit turn = 360 deg\nang float = 30 deg\ns1 float = ("sin(30 deg)")\nc1 float = ("cos(60 deg)")\nt1 float = ("tan(45 deg)")\ns2 float = ("sin({?ang})")\n'
     's3 float = ("sin(0.25 [turn])")\ns4 float = ("sin(1.5707963267948966 rad) + cos(0)")\ns5 float = ("2 m * sin(90 deg)") m', False,
     [("s1", ("about", 0.5, 1e-6)), ("c1", ("about", 0.5, 1e-6)), ("t1", ("about", 1.0, 1e-6)), ("s2", ("about", 0.5, 1e-6)), ("s3", ("about", 1.0, 1e-6)), ("s4", ("about", 2.0, 1e-6)), ("s5", ("about", 2.0, 1e-6))], None),
]


C18_TEXTS += [
    # a dimensionless table unit (%) stays attached while the dimensional units of the other operands cancel: its factor counts once
    ("dimensionless-unit-kept-while-dimensions-cancel", 'eta float = 50 %\nr float = ("50 % * {?a} / 5 cm")\nrp float = ("50 % * {?a} / 5 cm") %\nrb float = ("{?a} / 5 cm * 50 %")\n'
     'gain float = ("{?eta} * {?a} / 1 cm")\nlen float = ("1 m + 3 m * (50 % * {?a} / 5 cm) - 50 cm") m', False,
     [("r", ("*", wa, 10)), ("rp", ("*", wa, 1000)), ("rb", ("*", wa, 10)), ("gain", ("*", wa, 50)), ("len", ("+", ("*", wa, 30), 0.5))], None),
]


C18_TEXTS += [
    # comparisons convert the VALUE, not a ratio of units: kelvin against degrees Celsius / Fahrenheit, watts against dBm
    ("comparisons-across-units-with-an-offset", 'T float = 300 K\nroom float = 20 Cel\nwarm bool = ("{?T} > 20 Cel")\nmild bool = ("{?T} >= 20 Cel && {?T} <= 30 Cel")\ncold bool = ("{?T} < 0 Cel")\n'
     'same bool = ("{?room} == 68 degF")\nnotsame bool = ("{?room} == 20 K")\nfr bool = ("{?room} > 273 K && {?room} < 294 K")', False,
     [("warm", True), ("mild", True), ("cold", False), ("same", True), ("notsame", False), ("fr", True)], None),
]


@contract(DIPC + ".parse", ["C18"], name="DIP.parse[expressions]")
def _(c):
    c.bound = f"{len(C18_TEXTS)} texts with numerical / logical expressions over referenced nodes; the values of the referenced nodes are symbolic"
    c.chunk = 1
    for name, text, refused, vals, req in C18_TEXTS:
        def pre(b, text=text, refused=refused, vals=vals, req=req):
            d, env, S = prestate2(b, PRE18, text)
            return dict(args=[d], env=dict(S=S, refused=refused, vals=vals, req=True if req is None else req, text=text))
        c.scenario(name, pre)
    c.requires("ev(req, S)")
    c.raises("refused", label="refused-iff-operands-of-different-dimension-are-added")
    c.ensures("all([agrees(val_of(result, nm), t, S) for nm, t in vals])", "value-of-the-expression")


# ---- C17: value injections and imports ---------------------------------------------------------------------------------------
PRE17 = Prelude([
    ("a float = 1 m", "a"), ("b float = 1 cm", "b"), ("i int = 3", "i"), ("f bool = true", "f"), ("name str = Tina", "name"),
    ("grp", None), ("  p float = 2 s", "grp.p"), ("  q", None), ("    r int = 5", "grp.q.r"), ("  flag bool = false", "grp.flag"),
    ("sizes float[4] = [10,20,30,40] cm", "sizes"), ("names str[3] = [\"a\",\"b\",\"c\"]", "names"),
    ("opt int = 2", "opt"), ("  !options [1,2,3]", None),
    ("pi float = 3.14159265358979 rad", "pi"), ("big float = 1234567.125", "big"), ("tiny float = 6.02214076e-23", "tiny"),
], {"a": ("real", "wa"), "b": ("real", "wb"), "i": ("int", "vi"), "f": ("bool", "bf"), "grp.p": ("real", "wp"), "grp.q.r": ("int", "vr"), "grp.flag": ("bool", "bflag")})
wp, vr, bflag = S_("wp"), S_("vr"), S_("bflag")
# (name, text, refused, [(node, value tree)], [(node, unit)], names added in order or None)
C17_TEXTS = [
    ("adopts-the-unit-when-it-states-none", "x float = {?a}", False, [("x", wa)], [("x", "m")], ["x"]),
    ("keeps-the-unit-it-states", "x float = {?a} cm", False, [("x", wa)], [("x", "cm")], ["x"]),
    ("modification-converted-into-the-definition-unit", "x float = 2 cm\nx = {?a}", False, [("x", ("*", wa, 100))], [("x", "cm")], ["x"]),
    ("modification-stating-a-unit", "x float = 2 cm\nx = {?a} mm", False, [("x", ("/", wa, 10))], [("x", "cm")], ["x"]),
    ("current-value-after-earlier-modifications", "a = {?b}\nx float = {?a}\na = 7 m\ny float = {?a}", False, [("a", 7), ("x", ("/", wb, 100)), ("y", 7)], [("x", "m"), ("y", "m")], ["x", "y"]),
    ("integer-boolean-and-text", "x int = {?i}\ny bool = {?f}\nz str = {?name}", False, [("x", vi), ("y", bf), ("z", "Tina")], [], ["x", "y", "z"]),
    ("injection-from-a-group", "x float = {?grp.p}\ny int = {?grp.q.r}", False, [("x", wp), ("y", vr)], [("x", "s")], ["x", "y"]),
    ("import-of-all-descendants", "box\n  {?grp.*}", False, [("box.p", wp), ("box.q.r", vr), ("box.flag", bflag)], [("box.p", "s")], ["box.p", "box.q.r", "box.flag"]),
    ("import-of-a-single-node", "box\n  {?grp.p}\n  {?a}", False, [("box.p", wp), ("box.a", wa)], [("box.p", "s"), ("box.a", "m")], ["box.p", "box.a"]),
    ("import-of-a-subgroup", "box\n  {?grp.q.*}", False, [("box.r", vr)], [], ["box.r"]),
    ("import-at-root-level", "{?grp.q.*}", False, [("r", vr)], [], ["r"]),
    ("named-import", "cp {?grp.*}\ncq {?a}", False, [("cp.p", wp), ("cp.q.r", vr), ("cp.flag", bflag), ("cq.a", wa)], [("cp.p", "s"), ("cq.a", "m")], ["cp.p", "cp.q.r", "cp.flag", "cq.a"]),
    ("import-keeps-constraints", "box\n  {?opt}\nbox.opt = {?i}", ("not", ("in", vi, [1, 2, 3])), [("box.opt", vi)], [], ["box.opt"]),
    ("comparison-in-a-condition-does-not-alter-the-compared-nodes", '@case ("{?a} > {?b}")\n  x int = 1\n@end\ncopy float = {?a}\nthin float = {?a} mm\nbox\n  {?a}', False,
     [("copy", wa), ("thin", wa), ("a", wa), ("b", wb), ("box.a", wa)], [("copy", "m"), ("thin", "mm"), ("a", "m"), ("b", "cm"), ("box.a", "m")], None),
    ("option-added-below-an-imported-copy-stays-there", "box\n  {?opt}\n    = 7\nopt = {?i}", ("not", ("in", vi, [1, 2, 3])), [("opt", vi)], [], None),
    ("every-digit-of-a-float-is-delivered", "angle float = {?pi}\nb2 float = {?big} m\nt2 float = {?tiny}\nbig = {?pi}", False,
     [("angle", 3.14159265358979), ("b2", 1234567.125), ("t2", 6.02214076e-23), ("big", 3.14159265358979)], [("angle", "rad"), ("b2", "m")], ["angle", "b2", "t2"]),
    ("injection-selecting-no-node", "x float = {?nope}", True, [], [], None),
    ("injection-selecting-several-nodes", "x float = {?grp.*}", True, [], [], None),
    ("sliced-array-injection-then-import", "part float[:] = {?sizes}[1:3]\nbox\n  {?part}", False, [], [("part", "cm"), ("box.part", "cm")], ["part", "box.part"]),
    ("sliced-array-injection-then-modification", "part float[:] = {?sizes}[1:]\npart = [7,8,9]\ncopy float[:] = {?part}", False, [], [("part", "cm"), ("copy", "cm")], ["part", "copy"]),
    ("single-element", "pick float = {?sizes}[1] mm\nother float = {?pick}", False, [("pick", 20), ("other", 20)], [("pick", "mm"), ("other", "mm")], ["pick", "other"]),
    ("text-slice", "last str[:] = {?names}[1:]\ng\n  {?last}", False, [], [], ["last", "g.last"]),
]
REMOTE = os.path.join(os.path.dirname(os.path.abspath(__file__)), "fixtures", "remote.dip")
C17_TEXTS += [
    ("remote-source-imports-and-injections", f"$source rem = {REMOTE}\nbag {{rem?*}}\nbowl\n  {{rem?fruits}}\n  {{rem?vegies.potato}}\nplate {{rem?vegies.*}}\nv float = {{rem?speed}} m/s\nw float = {{rem?speed}}\nmix float = {{?a}}", False,
     [("bag.fruits", 3), ("bag.vegies.potato", 2.5), ("bag.vegies.carrot", 7), ("bag.speed", 30.0), ("bowl.fruits", 3), ("bowl.potato", 2.5), ("plate.potato", 2.5), ("plate.carrot", 7), ("v", 30.0), ("w", 30.0), ("mix", wa)],
     [("bag.vegies.potato", "kg"), ("bag.speed", "km/s"), ("bowl.potato", "kg"), ("v", "m/s"), ("w", "km/s"), ("mix", "m")],
     ["bag.fruits", "bag.vegies.potato", "bag.vegies.carrot", "bag.speed", "bowl.fruits", "bowl.potato", "plate.potato", "plate.carrot", "v", "w", "mix"]),
    ("text-defining-a-unit-on-top-of-a-parsed-environment", "$unit ell = 5 m\nx float = 2 [ell]\ny float = {?a} [ell]\nx = 3 m", False, [("x", 0.6), ("y", wa)], [("x", "[ell]"), ("y", "[ell]")], ["x", "y"]),
    ("remote-request-selecting-no-node", f"$source rem = {REMOTE}\nq float = {{rem?nope}}", True, [], [], None),
    ("remote-request-selecting-several-nodes", f"$source rem = {REMOTE}\nq float = {{rem?vegies.*}}", True, [], [], None),
]
REMOTE_C = os.path.join(os.path.dirname(os.path.abspath(__file__)), "fixtures", "remote_constrained.dip")
C17_TEXTS += [
    # constraints attached to a node of a REMOTE source stay in force on the imported copy: a later assignment is judged against them
    ("remote-import-keeps-options", f"$source src = {REMOTE_C}\nbox\n  {{src?size}}\nbox.size = {{?i}} cm", ("not", ("in", vi, [1, 2, 3])), [("box.size", vi)], [("box.size", "cm")], ["box.size"]),
    ("remote-import-of-all-keeps-options", f"$source src = {REMOTE_C}\nbox {{src?*}}\nbox.size = {{?i}}", ("not", ("in", vi, [1, 2, 3])), [("box.size", vi), ("box.width", 25)], [("box.size", "cm")], ["box.size", "box.width", "box.label"]),
    ("remote-import-keeps-the-condition", f"$source src = {REMOTE_C}\nbox\n  {{src?width}}\nbox.width = 5 cm", True, [], [], None),
    ("remote-import-keeps-the-format", f"$source src = {REMOTE_C}\nbox {{src?*}}\nbox.label = 'X-1'", True, [], [], None),
    ("remote-import-modified-within-its-constraints", f"$source src = {REMOTE_C}\nbox {{src?*}}\nbox.width = 45\nbox.label = 'xyz'\nbox.size = 3", False, [("box.size", 3), ("box.width", 45)], [("box.width", "cm")], ["box.size", "box.width", "box.label"]),
]
_TOL17 = ("+", ("*", 1e-4, ("abs", wb)), 1e-5)
_GE17 = ("bounds", ("ge", ("*", wa, 100), wb), ("ge", ("*", wa, 100), ("-", wb, _TOL17)))
_LE17 = ("bounds", ("le", ("*", wa, 100), wb), ("le", ("*", wa, 100), ("+", wb, _TOL17)))
C17_TEXTS += [
    # booleans that are the outcome of an expression (whatever number type the comparison worked with) are injected as the words true / false
    ("boolean-defined-by-a-comparison-literal-numbers", 'wide bool = ("5 >= 3")\nnarrow bool = ("2 >= 3 || 1 <= 0")\nc1 bool = {?wide}\nc2 bool = {?narrow}\nt str = {?wide}\nf = {?narrow}', False,
     [("wide", True), ("narrow", False), ("c1", True), ("c2", False), ("t", "true"), ("f", False)], [], ["wide", "narrow", "c1", "c2", "t"]),
    ("boolean-defined-by-a-comparison", 'wide bool = ("{?a} >= {?b}")\ncw bool = {?wide}\nt str = {?wide}\nf = {?wide}', False,
     [("wide", _GE17), ("cw", _GE17), ("f", _GE17)], [], ["wide", "cw", "t"]),
    ("boolean-modified-by-a-comparison-then-imported", 'grp.flag = ("{?a} <= {?b} && true")\nbox\n  {?grp.flag}\nq bool = {?box.flag}', False,
     [("grp.flag", _LE17), ("box.flag", _LE17), ("q", _LE17)], [], ["box.flag", "q"]),
]
C17_TEXTS += [
    # units with an offset: every value is converted, zero included
    ("temperature-injected-into-a-host-in-kelvin", "tc float = {?i} Cel\nhost float = 300 K\nhost = {?tc}\ntf float = 0 degF\nh2 float = 1 K\nh2 = {?tf}\nz0 float = 0 Cel\nh3 float = 1 K\nh3 = {?z0}", False,
     [("tc", vi), ("host", ("+", vi, 273.15)), ("h2", 255.3722222222222), ("h3", 273.15)], [("host", "K"), ("h2", "K"), ("h3", "K"), ("tc", "Cel")], ["tc", "host", "tf", "h2", "z0", "h3"]),
    ("none-and-arrays-referenced-from-a-node-in-another-unit", "nn float = 2 cm\nnn = none\nx float = 5 m\nx = {?nn}\ndst float[4] = [0,0,0,0] m\ndst = {?sizes}", False,
     [("x", ("none",)), ("nn", ("none",))], [("x", "m"), ("dst", "m")], ["nn", "x", "dst"]),
]
ARRAYS17 = {"none-and-arrays-referenced-from-a-node-in-another-unit": [("dst", [0.1, 0.2, 0.3, 0.4])], "sliced-array-injection-then-import": [("part", [20.0, 30.0]), ("box.part", [20.0, 30.0])],
            "sliced-array-injection-then-modification": [("part", [7.0, 8.0, 9.0]), ("copy", [7.0, 8.0, 9.0])],
            "text-slice": [("last", ["b", "c"]), ("g.last", ["b", "c"])]}
N17 = len(PRE17.names)


@spec
def array_of(env, name):
    n = node_of(env, name)
    return None if n is None or n.value is None else [x for x in n.value.value]


@spec
def observed_units(env):
    return [(k, v['magnitude'], v['value'], v['units']) for k, v in env.units.items()]


@spec
def observed(env, k):
    """name, keyword, unit and scalar value of the first k nodes (array values as lists)"""
    return [(n.name, n.keyword, None if n.value is None else (n.value.unit if n.keyword in ('float', 'int') else None),
             None if n.value is None else ([x for x in n.value.value] if n.dimension else n.value.value)) for n in [env.nodes[i] for i in range(k)]]


@contract(DIPC + ".parse", ["C17"], name="DIP.parse[injections-and-imports]")
def _(c):
    c.bound = f"{len(C17_TEXTS)} texts parsed on top of an environment with a group, arrays and constrained nodes; scalar values of the referenced nodes symbolic, arrays concrete"
    c.chunk = 1
    for name, text, refused, vals, units, added in C17_TEXTS:
        def pre(b, name=name, text=text, refused=refused, vals=vals, units=units, added=added):
            d, env, S = prestate2(b, PRE17, text)
            return dict(args=[d], env=dict(S=S, refused=refused, vals=vals, units=units, added=added, arrays=ARRAYS17.get(name, []), base=env, text=text))
        c.scenario(name, pre)
    c.raises("ev(refused, S)", label="rejected-iff-the-request-selects-none-or-several-or-a-constraint-fails")
    c.ensures("all([agrees(val_of(result, nm), t, S) for nm, t in vals])", "host-gets-the-current-value-of-the-referenced-node")
    c.ensures("all([unit_of(result, nm) == u for nm, u in units])", "host-keeps-its-own-unit-or-adopts-the-referenced-one")
    c.ensures("all([array_of(result, nm) == xs for nm, xs in arrays])", "slice-applied-once")
    c.ensures(f"added is None or names_of(result)[{N17}:] == added", "exactly-the-selected-nodes-re-created-below-the-importing-node")
    c.ensures(f"observed(base, {N17}) == old(observed(base, {N17})) and observed_units(base) == old(observed_units(base))", "previously-parsed-environment-unchanged")
    c.on_raise(f"observed(base, {N17}) == old(observed(base, {N17})) and observed_units(base) == old(observed_units(base))", "previously-parsed-environment-unchanged-when-refused")


# ---- C19: the Fortran module declares string arrays with a length no item exceeds -------------------------------------------------
EXF = "dip/config/export_fortran.py::ExportConfigFortran"
C19_STRING_ARRAYS = [
    ('names str[3] = ["x","alpha","with-dash"]', [("NAMES", 9)]),
    ('m str[2,2] = [["a","bcd"],["zz","y"]]\nk int[2] = [1,2]', [("M", 3)]),
    ('grp\n  tags str[2] = ["zebra","configuration"]\n  one str[1] = ["q"]', [("GRP_TAGS", 13), ("GRP_ONE", 1)]),
]


@spec
def line_with(text, name):
    for l in text.split('\n'):
        if (':: ' + name + ' =') in l:
            return l
    return ''


@contract(EXF + ".parse", ["C19"], name="ExportConfigFortran.parse[string-arrays]")
def _(c):
    c.bound = "three texts with 1-D / 2-D string arrays whose longest item is not the lexicographically largest one"
    for text, want in C19_STRING_ARRAYS:
        def pre(b, text=text, want=want):
            d0 = b.new(DIPC, name="t")
            b.call(b.getattr(d0, "add_string"), text)
            env = b.call(b.getattr(d0, "parse"))
            return dict(args=[b.new(EXF, env)], env=dict(want=want))
        c.scenario(text.splitlines()[0], pre)
    c.ensures("all([line_with(result, nm).count('character(len=%d)' % n) == 2 for nm, n in want])", "declared-length-is-the-longest-item")
    c.no_raise()


# ---- C14: repeated assignment -----------------------------------------------------------------------------------------------
PRE14 = Prelude([
    ("w0 float = 1", "w0"), ("w1 float = 1", "w1"), ("v0 int = 1", "v0"), ("f0 bool = true", "f0"),
    ("len float = 3 cm", "len"), ("cnt int = 4", "cnt"), ("flag bool = true", "flag"), ("txt str = abc", "txt"), ("mass float32 = 1 kg", "mass"),
    ("fixed float = 5 m", "fixed"), ("  !constant", None), ("big uint64 = 7", "big"),
], {"w0": ("real", "w0"), "w1": ("real", "w1"), "v0": ("int", "v0"), "f0": ("bool", "f0")})
N14 = len(PRE14.names)
# (name, text, refused, [(node, value tree)], [(node, unit)])
C14_TEXTS = [
    ("no-unit-means-the-definition-unit", "len = {?w0}", False, [("len", w0)], [("len", "cm")]),
    ("other-unit-is-converted", "len = {?w0} m", False, [("len", ("*", w0, 100))], [("len", "cm")]),
    ("last-assignment-wins", "len = {?w0} mm\nlen = {?w1} km", False, [("len", ("*", w1, 100000))], [("len", "cm")]),
    ("typed-reassignment-keeps-the-first-unit", "len float = {?w0} m", False, [("len", ("*", w0, 100))], [("len", "cm")]),
    ("three-assignments-mixed", "len = 7\nlen float = {?w0} mm\nlen = {?w1}", False, [("len", w1)], [("len", "cm")]),
    ("mass-in-grams", "mass = {?w0} g", False, [("mass", ("/", w0, 1000))], [("mass", "kg")]),
    ("integer-any-value", "cnt = {?v0}", False, [("cnt", v0)], []),
    ("boolean-any-value", "flag = {?f0}", False, [("flag", f0)], []),
    ("zero-negative-false", "len = 0\ncnt = -0\nflag = false\nmass = -2.5", False, [("len", 0), ("cnt", 0), ("flag", False), ("mass", -2.5)], [("len", "cm"), ("mass", "kg")]),
    ("zero-after-nonzero", "len = {?w0}\nlen = 0 m", False, [("len", 0)], [("len", "cm")]),
    ("back-to-the-value-first-written", "len = {?w0}\nlen = 3\ncnt = 9\ncnt = 4\ntxt = q\ntxt = abc\nflag = false\nflag = true", False, [("len", 3), ("cnt", 4), ("txt", "abc"), ("flag", True)], [("len", "cm")]),
    ("same-number-other-unit", "len = 3 m\nmass = 1 g", False, [("len", 300), ("mass", 0.001)], [("len", "cm"), ("mass", "kg")]),
    ("none-keeps-type-and-unit", "len = none\ncnt = none", False, [], [("len", "cm")]),
    ("text", "txt = xyz", False, [("txt", "xyz")], []),
    ("different-data-type-refused", "len int = 3", True, [], []),
    ("different-data-type-refused-2", "cnt float = {?w0}", True, [], []),
    ("other-dimension-refused", "len = {?w0} s", True, [], []),
    ("other-dimension-refused-2", "mass = 3 m", True, [], []),
    ("constant-refused", "fixed = {?w0} m", True, [], []),
    ("constant-refused-typed", "fixed float = 1 m", True, [], []),
    # !constant belongs to the node it is written under, also when that node is defined inside a case clause or a group inside one
    ("constant-defined-inside-a-case-clause-refused", "@case true\n  wdt float = 1 m\n    !constant\n@end\nwdt = {?w0} m", True, [], []),
    ("constant-defined-inside-an-else-clause-of-a-group-refused", "box\n  @case false\n    q int = 1\n  @else\n    depth float = 2 m\n      !constant\n  @end\nbox.depth = 3 m", True, [], []),
    ("constant-defined-inside-a-case-clause-refused-typed", "@case true\n  cn int = 3\n    !constant\n@end\ncn int = {?v0}", True, [], []),
    ("constant-after-a-modification-of-an-earlier-node", "ca float = 1 m\ncb float = 2 m\n  !constant\nca = {?w0} m", False, [("ca", w0), ("cb", 2)], [("ca", "m")]),
    ("declared-without-value-refused", "d float cm", True, [], []),
    ("declared-then-assigned", "d float cm\nd = {?w0} mm", False, [("d", ("/", w0, 10))], [("d", "cm")]),
    ("integer-with-options-in-another-unit-keeps-its-unit", "lenm int = 2 m\n  = 2 m\n  = 300 cm\nlenm = 300 cm\nwid int = 2 km\n  !options [2,3] km\nwid = 3000 m", False, [("lenm", 3), ("wid", 3)], [("lenm", "m"), ("wid", "km")]),
    ("declared-boolean-without-value-refused", "fl bool", True, [], []),
    ("declared-integer-without-value-refused", "k int", True, [], []),
    ("declared-text-without-value-refused", "g\n  s str", True, [], []),
    ("declared-boolean-then-assigned", "fl bool\nfl = {?f0}", False, [("fl", f0)], []),
    ("new-node-assigned-twice", "n float = {?w0} km\nn = {?w1} m", False, [("n", ("/", w1, 1000))], [("n", "km")]),
    ("function-after-expression-definition", 'n float = ("1 m + 1 m") m\nn = (fn_seven)', False, [("n", 7)], [("n", "m")]),
    ("expression-after-function-definition", 'n float = (fn_w0) m\nn = ("{?w1} * 2 m")', False, [("n", ("*", w1, 2))], [("n", "m")]),
    ("function-modification", "len = (fn_w0)\ncnt = (fn_three)", False, [("len", w0), ("cnt", 3)], [("len", "cm")]),
    ("function-modification-stating-a-unit", "len = (fn_w0) m", False, [("len", ("*", w0, 100))], [("len", "cm")]),
    ("expression-then-function-then-literal", 'len = ("{?w0} * 2 mm") mm\nlen = (fn_seven)\nlen = {?w1} m', False, [("len", ("*", w1, 100))], [("len", "cm")]),
    # a function works on values of its own: returning or converting what it was given changes no other node
    ("function-returning-the-value-it-was-given", "len = {?w0}\nn float = 1 m\nn = (fn_same_as_len)\nk float = (fn_len_in_m) km", False,
     [("len", w0), ("n", ("/", w0, 100)), ("k", ("/", w0, 100000))], [("len", "cm"), ("n", "m"), ("k", "km")]),
    ("modifying-an-undefined-node-refused", "nope = 3", True, [], []),
    # assignment by reference takes the CURRENT value of the referenced node, none included
    ("reference-to-a-node-that-was-set-to-none", "n2 float = 2 m\nn2 = none\nlen = {?n2}\nk2 int = 4\nk2 = none\ncnt = {?k2}", False, [("len", ("none",)), ("cnt", ("none",)), ("n2", ("none",))], [("len", "cm")]),
    ("reference-to-a-declared-node-set-to-none", "d float m\nd = none\nlen = 7\nlen = {?d}", False, [("len", ("none",))], [("len", "cm")]),
    ("reference-to-a-node-that-was-none-and-got-a-value", "n2 float = none m\nn2 = {?w0}\nlen = {?n2}", False, [("len", ("*", w0, 100))], [("len", "cm")]),
    ("temperature-assigned-in-celsius", "tk float = 300 K\ntk = {?v0} Cel\ntz float = 300 K\ntz = 0 Cel\nlv float = 1 W\nlv = 0 dBm", False, [("tk", ("+", v0, 273.15)), ("tz", 273.15), ("lv", 0.001)], [("tk", "K"), ("tz", "K"), ("lv", "W")]),
    ("narrow-and-unsigned-integers-keep-their-type-when-assigned-again", "big = 9\ncnt = 5\nu16 uint16 = 5 km\nu16 = 7\ni16 int16 = 1\ni16 int16 = {?v0}\nmass = 2", False,
     [("big", 9), ("cnt", 5), ("u16", 7), ("i16", v0), ("mass", 2)], [("u16", "km"), ("mass", "kg")]),
    ("none-stating-another-unit", "len = none m\nmass = none g\ncnt = none", False, [("len", ("none",)), ("mass", ("none",)), ("cnt", ("none",))], [("len", "cm"), ("mass", "kg")]),
    ("none-stating-a-unit-of-another-dimension-refused", "len = none s", True, [], []),
    # arrays are values too: converted element by element; integer nodes keep integers
    ("array-in-another-unit", "arr float[2] = [1,2] cm\narr = [3,4] m\nia int[2] = [1,2] m\nia = [3,4] km\nsrc float[2] = [1,2] m\ndst float[2] = [0,0] cm\ndst = {?src}", False, [], [("arr", "cm"), ("ia", "m"), ("dst", "cm")]),
    ("array-in-a-unit-of-another-dimension-refused", "arr float[2] = [1,2] cm\narr = [3,4] s", True, [], []),
    ("integer-in-another-unit-stays-an-integer", "k2 int = 1 m\nk2 = 3 km\nk int = 1 m\nk = {?v0} km", False, [("k2", 3000), ("k", ("*", v0, 1000))], [("k2", "m"), ("k", "m")]),
    # an assignment right after nested case blocks that its indentation closes (no @end) takes effect, whatever the conditions were
    ("after-nested-clauses-closed-by-indentation", '@case ("{?f0}")\n  @case true\n    cnt = 1\nlen = {?w0} m\n@case ("{?f0}")\n  @case false\n    @case true\n      cnt = 2\nmass = 2 g', False,
     [("len", ("*", w0, 100)), ("mass", 0.002)], [("len", "cm"), ("mass", "kg")]),
    ("after-nested-clauses-closed-by-indentation-other-type-refused", '@case ("{?f0}")\n  @case true\n    cnt = 1\nlen int = 3', True, [], []),
    # assignments inside case blocks address the same node, however many blocks came before (the internal block number grows past one digit)
    ("inside-the-thirteenth-clause", "@case false\n  cnt = 1\n@else\n  cnt = 2\n@end\n" * 4 + "@case true\n  len = {?w0} m\n  mass float = 5 g\n@end", False,
     [("len", ("*", w0, 100)), ("cnt", 2), ("mass", 0.005)], [("len", "cm"), ("mass", "kg")]),
    ("inside-the-thirteenth-clause-other-dimension-refused", "@case false\n  cnt = 1\n@else\n  cnt = 2\n@end\n" * 4 + "@case true\n  len float = 5 kg\n@end", True, [], []),
]
KEYWORDS14 = [("len", "float"), ("cnt", "int"), ("flag", "bool"), ("txt", "str"), ("mass", "float"), ("fixed", "float"), ("big", "int")]


@spec
def type_of(env, name):
    n = node_of(env, name)
    return None if n is None else (n.keyword, int(n.precision) if n.keyword in ('int', 'float') else None, n.unsigned if n.keyword == 'int' else None)


ARRAYS14 = {"array-in-another-unit": [("arr", [300.0, 400.0]), ("ia", [3000, 4000]), ("dst", [100.0, 200.0])]}
INTS14 = {"integer-in-another-unit-stays-an-integer": ["k2", "k"], "array-in-another-unit": ["ia"]}


@spec
def value_type_ok(n):
    """the typed value of an integer / float node states the same width (and sign) as the node"""
    if n.keyword not in ('int', 'float') or n.value is None:
        return True
    return int(n.value.precision) == int(n.precision) and (n.keyword != 'int' or n.value.unsigned == n.unsigned)


@spec
def is_integral(v):
    return all([typename(x) == 'int' for x in v]) if isinstance(v, list) else typename(v) == 'int'


@contract(DIPC + ".parse", ["C14"], name="DIP.parse[assignments]")
def _(c):
    c.bound = f"{len(C14_TEXTS)} texts assigning already defined nodes again; the assigned numbers are symbolic"
    c.chunk = 1
    for name, text, refused, vals, units in C14_TEXTS:
        def pre(b, text=text, refused=refused, vals=vals, units=units):
            d, env, S = prestate2(b, PRE14, text, functions=[f for f in FUNCTIONS if f in text])
            return dict(args=[d], env=dict(S=S, refused=refused, vals=vals, units=units, text=text, arrays=ARRAYS14.get(name, []), ints=INTS14.get(name, [])))
        c.scenario(name, pre)
    c.raises("ev(refused, S)", label="refused-iff-type-dimension-constant-or-missing-value")
    c.ensures("all([value_type_ok(n) for n in result.nodes])", "the-value-carries-the-declared-width-and-sign")
    c.ensures("all([array_of(result, nm) == xs for nm, xs in arrays])", "arrays-converted-element-by-element")
    c.ensures("all([is_integral(val_of(result, nm)) for nm in ints])", "integer-nodes-hold-integers")
    c.ensures("all([agrees(val_of(result, nm), t, S) for nm, t in vals])", "last-assigned-value-in-the-definition-unit")
    c.ensures("all([unit_of(result, nm) == u for nm, u in units])", "unit-of-the-first-occurrence")
    c.ensures(f"[type_of(result, nm) for nm, kw in {KEYWORDS14!r}] == [('float', 64, None), ('int', 32, False), ('bool', None, None), ('str', None, None), ('float', 32, None), ('float', 64, None), ('int', 64, True)]",
              "data-type-of-the-first-occurrence")
    c.ensures(f"len([n for n in names_of(result) if n in ('len', 'cnt', 'flag', 'txt', 'mass', 'fixed', 'big', 'd', 'n')]) == len(set([n for n in names_of(result) if n in ('len', 'cnt', 'flag', 'txt', 'mass', 'fixed', 'big', 'd', 'n')]))",
              "a-single-parameter-per-node")
    c.ensures("all([val_of(result, nm) is None and node_of(result, nm) is not None for nm in (['len', 'cnt'] if text.startswith('len = none') else [])])", "none-is-kept-as-none")


# ---- C19: the DIP text export declares every parameter with its own data type (width and sign included) -----------------------------
EX = "dip/config/export.py::ExportConfig"
C19_TYPED = ('a int16 = 5 cm\nb uint64 = 7\nc uint = 1\nd float32 = 1.5 K\ng\n  e int64 = -3\nf float128 = 2\nh int = 4\nk uint16 = 2\nu uint32 = 9\ns str = hello\nt bool = true\nq float = 0.5',
             [("a", "int16"), ("b", "uint64"), ("c", "uint"), ("d", "float32"), ("g.e", "int64"), ("f", "float128"), ("h", "int"), ("k", "uint16"), ("u", "uint"), ("s", "str"), ("t", "bool"), ("q", "float")])


@spec
def decl_line(text, name):
    for l in text.split('\n'):
        if l.startswith(name + ' '):
            return l
    return ''


@contract(EX + ".parse", ["C19"], name="ExportConfig.parse[declared-types]")
def _(c):
    c.bound = "one text with every integer / float width and sign, a string and a boolean"

    def pre(b):
        d0 = b.new(DIPC, name="t")
        b.call(b.getattr(d0, "add_string"), C19_TYPED[0])
        env = b.call(b.getattr(d0, "parse"))
        return dict(args=[b.new(EX, env)], env=dict(want=C19_TYPED[1]))
    c.scenario("all-widths-and-signs", pre)
    c.ensures("all([decl_line(result, nm).startswith(nm + ' ' + t + ' = ') for nm, t in want])", "declared-type-width-and-sign-of-the-node")
    c.ensures("len(result.split('\\n')) == len(want)", "one-line-per-parameter")
    c.no_raise()


# ---- C13: whole texts whose data are the literals themselves (concrete; executed by the same interpreter, decided by ground evaluation) ----
C13_TEXTS = [
    # a node written a second time (re-opened group, dotted spelling) with the literal none has no value afterwards, whatever its type
    ("rewritten-as-none", 'box\n  name str = cube\n  open bool = true\n  sides str[2] = ["left","right"]\n  n int = 3 m\n  x float = 1.5\nbox.name str = none\nbox\n  open bool = none\n'
     '  sides str[2] = none\nbox.n int = none\nbox.x float = none\ngain uint16 = 12\nf32 float32 = 1.5 V\nwide int64[2] = [1,2]\ngain uint16 = none\nf32 float32 = none\nwide int64[2] = none',
     [("box.name", "str", None, None), ("box.open", "bool", None, None), ("box.sides", "str", None, None), ("box.n", "int", None, "m"), ("box.x", "float", None, None),
      ("gain", "int", None, None), ("f32", "float", None, "V"), ("wide", "int", None, None)]),
    # the declared width is part of the type, the numbers are the ones written (0.1 is 0.1, not its single-precision neighbour)
    ("narrow-float-arrays-keep-the-numbers-written", 'w float32[3] = [0.1,0.2,2.5] V\nx float32 = 0.1\nblk float32[2] = """\n[0.7,1e-3]\n""" m\nq float128[2] = [0.1,0.25]',
     [("w", "float", [0.1, 0.2, 2.5], "V"), ("x", "float", 0.1, None), ("blk", "float", [0.7, 1e-3], "m"), ("q", "float", [0.1, 0.25], None)]),
    # only the line feed ends a line: form feed, vertical tab, NEL, the Unicode line/paragraph separators, the FS/GS/RS controls and a lone
    # carriage return are ordinary characters of a comment or a quoted string
    ("other-separator-characters-are-content", 'box   # old\x0cnotes\n  size int = 3   # a\x85b \u2029 c\n  title str = "page one\x0cpage two"\n'
     '  sep str = "a\u2028b\x1cc\x1dd\x1ee"   # x\x0by\n  # whole\x0bline\n  cr str = "a\rb"\n  n int = 4\n',
     [("box.size", "int", 3, None), ("box.title", "str", "page one\x0cpage two", None), ("box.sep", "str", "a\u2028b\x1cc\x1dd\x1ee", None), ("box.cr", "str", "a\rb", None), ("box.n", "int", 4, None)]),
    ("comments-blank-lines-mixed-widths", '''
# leading comment
box            # group
    # comment inside a group
    width float = 1.5e2 cm

    size
      x int = 3
        # deeper comment
      y uint16 = 4 m
  # dedented comment
    label str = "a b"
flags
 on bool = true
 names str[2] = ["p","q"]
''', [("box.width", "float", 150.0, "cm"), ("box.size.x", "int", 3, None), ("box.size.y", "int", 4, "m"), ("box.label", "str", "a b", None), ("flags.on", "bool", True, None), ("flags.names", "str", ["p", "q"], None)]),
    ("block-text-with-lines-that-look-like-comments", '''
job
  script str = """
#!/bin/bash
  # set up
run --fast

# done
"""
  n int = 2
''', [("job.script", "str", "#!/bin/bash\n  # set up\nrun --fast\n\n# done", None), ("job.n", "int", 2, None)]),
    ("block-text-ending-with-empty-lines", '''
letter
  body str = """
Dear reader,

this is a note.


"""
  blank str = """

"""
  n int = 1
''', [("letter.body", "str", "Dear reader,\n\nthis is a note.\n\n", None), ("letter.blank", "str", "", None), ("letter.n", "int", 1, None)]),
    ("block-and-table-ending-with-a-quote", '''
note str = """
he said "stop"
"""
people table = """
id int
name str

1 "Jo Doe"
2 "Ann Lee"
"""
k int = 2
''', [("note", "str", 'he said "stop"', None), ("people.id", "int", [1, 2], None), ("people.name", "str", ["Jo Doe", "Ann Lee"], None), ("k", "int", 2, None)]),
    ("block-array-and-hash-inside-quotes", '''
m int[2,2] = """
[[1,2],
 [3,4]]
""" km/s   # unit after the block
t str = "a # b"      # comment
u str = 'x'
''', [("m", "int", [[1, 2], [3, 4]], "km/s"), ("t", "str", "a # b", None), ("u", "str", "x", None)]),
    ("dotted-names-and-dedent-by-several-levels", '''
a
   b.c
      d int = 1
         e int = 2
   f int = 3
g.h int = 4
''', [("a.b.c.d", "int", 1, None), ("a.b.c.d.e", "int", 2, None), ("a.f", "int", 3, None), ("g.h", "int", 4, None)]),
    ("numbers-in-any-notation-none-and-signs", '''
i1 int = -42
i2 int64 = 9007199254740993
f1 float = 1E+2
f2 float = .5 K
f3 float32 = -2.5e-3
f4 float = 10.
n1 int = none
n2 str = none
b1 bool = false
s1 str = bare-word_1
''', [("i1", "int", -42, None), ("i2", "int", 9007199254740993, None), ("f1", "float", 100.0, None), ("f2", "float", 0.5, "K"), ("f3", "float", -0.0025, None), ("f4", "float", 10.0, None),
      ("n1", "int", None, None), ("n2", "str", None, None), ("b1", "bool", False, None), ("s1", "str", "bare-word_1", None)]),
    ("table-cells-in-every-notation", '''
grp
  out table = """
a float
b int m
c bool
d str

.5 +7 true x
5. 007 false "y z"
+2.5e1 -3 true w
-0 0 false v
"""
after int = 1
''', [("grp.out.a", "float", [0.5, 5.0, 25.0, -0.0], None), ("grp.out.b", "int", [7, 7, -3, 0], "m"), ("grp.out.c", "bool", [True, False, True, False], None), ("grp.out.d", "str", ["x", "y z", "w", "v"], None), ("after", "int", 1, None)]),
    ("table", '''
out table = """
snapshot int
time float s
label str

0 1.5 a
1 2.5 b
"""
after int = 1
''', [("out.snapshot", "int", [0, 1], None), ("out.time", "float", [1.5, 2.5], "s"), ("out.label", "str", ["a", "b"], None), ("after", "int", 1, None)]),
]


@spec
def literal_view(env):
    return [(n.name, n.keyword, None if n.value.value is None else ([([y for y in x] if typename(x) in ('list', 'ndarray') else x) for x in n.value.value] if n.dimension else n.value.value),
             n.value.unit if n.keyword in ('int', 'float') else None) for n in env.nodes]


C13_TEXTS += [
    # tab characters INSIDE a string value are part of the value (a Makefile recipe, a tab-separated header)
    ("tabs-inside-string-values", 'build\n  sep str = "a\tb"\n  make\n    header str = \'name\tsize\'\n    rule str = """\nall: main.o\n\tcc -o all main.o\n"""\n  n uint16 = 3\n',
     [("build.sep", "str", "a\tb", None), ("build.make.header", "str", "name\tsize", None), ("build.make.rule", "str", "all: main.o\n\tcc -o all main.o", None), ("build.n", "int", 3, None)]),
]


C13_TEXTS += [
    # indentation is what is written: a first line deeper than later lines does not shift the others
    ("first-line-indented-deepest", '    a int = 1\n  b int = 2\n   c int = 3\n d int = 4\n  e int = 5\n',
     [("a", "int", 1, None), ("b", "int", 2, None), ("b.c", "int", 3, None), ("d", "int", 4, None), ("d.e", "int", 5, None)]),
]
# the same text handed over in several pieces (add_string called repeatedly): a later piece that starts indented continues the group opened before
C13_PIECES = [
    ("group-continued-in-a-second-piece", ['box\n  width float = 2 cm\n', '  height float = 3 cm\n  lid\n    open bool = true\n', '    label str = "top"\nn int = 1'],
     [("box.width", "float", 2.0, "cm"), ("box.height", "float", 3.0, "cm"), ("box.lid.open", "bool", True, None), ("box.lid.label", "str", "top", None), ("n", "int", 1, None)]),
    ("pieces-with-blank-lines-and-a-comment", ['g\n\n  # first\n  a int = 1\n', '\n   # second piece, indented comment\n  b int = 2 m\n    !tags ["x"]\n', 'h\n  c float = 1.5'],
     [("g.a", "int", 1, None), ("g.b", "int", 2, "m"), ("h.c", "float", 1.5, None)]),
]


@contract(DIPC + ".parse", ["C13"], name="DIP.parse[text-in-several-pieces]")
def _(c):
    c.bound = f"{len(C13_PIECES)} concrete texts handed over by two or three add_string calls"
    for name, pieces, want in C13_PIECES:
        def pre(b, pieces=pieces, want=want):
            d = b.new(DIPC, name="t")
            for piece in pieces:
                b.call(b.getattr(d, "add_string"), piece)
            dw = b.new(DIPC, name="whole")
            b.call(b.getattr(dw, "add_string"), "".join(pieces))
            whole = b.call(b.getattr(dw, "parse"))
            return dict(args=[d], env=dict(want=want, whole=whole))
        c.scenario(name, pre)
    c.ensures("literal_view(result) == want", "one-parameter-per-node-with-path-type-value-and-unit-as-written")
    c.ensures("literal_view(result) == literal_view(whole)", "same-as-the-text-handed-over-at-once")
    c.no_raise()


@contract(DIPC + ".parse", ["C13"], name="DIP.parse[literal-texts]")
def _(c):
    c.bound = f"{len(C13_TEXTS)} concrete texts (comments, blank lines, mixed indentation widths, dotted names, blocks, a table, numbers in every notation, none)"
    for name, text, want in C13_TEXTS:
        def pre(b, text=text, want=want):
            d = b.new(DIPC, name="t")
            b.call(b.getattr(d, "add_string"), text)
            return dict(args=[d], env=dict(want=want))
        c.scenario(name, pre)
    c.ensures("literal_view(result) == want", "one-parameter-per-node-with-path-type-value-and-unit-as-written")
    c.ensures("all([value_type_ok(n) for n in result.nodes])", "the-value-carries-the-declared-width-and-sign")
    c.no_raise()


# ---- C19: the Bash export defines every element of a multi-dimensional array under the exported (renamed) symbol -------------------------
EXB = "dip/config/export_bash.py::ExportConfigBash"


@spec
def bash_elements(text, sym):
    """{index text: value text} of the lines  SYM[i,j]=v"""
    out = {}
    for l in text.split('\n'):
        if l.startswith(sym + '[') and ']=' in l:
            out[l[len(sym) + 1:l.index(']=')]] = l[l.index(']=') + 2:]
    return out


@contract(EXB + ".parse", ["C19"], name="ExportConfigBash.parse[multi-dimensional-arrays]")
def _(c):
    c.bound = "one text with a 2-D and a 3-D integer array in groups (names that are renamed), a 1-D array and scalars"

    def pre(b):
        d0 = b.new(DIPC, name="t")
        b.call(b.getattr(d0, "add_string"), 'box\n  grid int[2,3] = [[1,2,3],[4,5,6]]\n  v int[2] = [7,8]\n  cube.c int[2,1,2] = [[[1,2]],[[3,4]]]\nn int = 4')
        env = b.call(b.getattr(d0, "parse"))
        return dict(args=[b.new(EXB, env)])
    c.scenario("arrays-in-groups", pre)
    c.ensures("bash_elements(result, 'BOX_GRID') == {'0,0': '1', '0,1': '2', '0,2': '3', '1,0': '4', '1,1': '5', '1,2': '6'}", "2-d-elements-under-the-exported-symbol-in-row-major-index-order")
    c.ensures("bash_elements(result, 'BOX_CUBE_C') == {'0,0,0': '1', '0,0,1': '2', '1,0,0': '3', '1,0,1': '4'}", "3-d-elements-under-the-exported-symbol")
    c.ensures("'declare -A BOX_GRID' in result.split('\\n') and 'export BOX_GRID' in result.split('\\n') and 'export N=4' in result.split('\\n')", "declared-and-exported-under-the-same-symbol")
    c.ensures("all(['.' not in l.split('=')[0] for l in result.split('\\n')])", "no-line-assigns-to-an-unrenamed-dotted-name")
    c.no_raise()


# ---- C09: parsing a text that defines units leaves the process-wide unit tables as they were, however parsing ends ------------------------
from contracts.units_environment import gstate, US, UP, UT

C09_TEXTS = [
    ("units-defined-and-used", '$unit len = 2 cm\n$unit mass = 3 g\nx float = 3 [len]\ny float = ("2 [len] + 1 cm") cm\nz bool = ("{?x} > 1 cm")\nw float = {?x} mm', False),
    ("unit-defined-by-another-custom-unit", '$unit len = 2 cm\n$unit dlen = 2 [len]\nx float = 1 [dlen]\nx = 4 cm', False),
    ("parsing-fails-after-the-units-were-used", '$unit len = 2 cm\nx float = 3 [len]\nx = 1 s', True),
    ("parsing-fails-in-an-expression-with-custom-units", '$unit len = 2 cm\ny float = ("2 [len] + 1 s") cm', True),
    ("condition-with-custom-units-fails", '$unit len = 2 cm\nx float = {?w0} [len]\n  !condition ("{?} > 1 [len]")', ("le", w0, 1)),
    ("unknown-unit", 'x float = 3 [nolen]', True),
    ("no-custom-units", 'x float = 3 cm\ny float = ("{?x} * 2") mm', False),
]


@contract(DIPC + ".parse", ["C09"], name="DIP.parse[unit-tables-restored]")
def _(c):
    c.bound = f"{len(C09_TEXTS)} texts defining and using custom units, some failing after the units were registered"
    c.chunk = 2
    for name, text, refused in C09_TEXTS:
        def pre(b, text=text, refused=refused):
            d, env, S = prestate2(b, PRE16, text)
            return dict(args=[d], env=dict(S=S, refused=refused, us=b.glob(US), up=b.glob(UP), ut=b.glob(UT)))
        c.scenario(name, pre)
    c.raises("ev(refused, S)", label="fails-exactly-when-stated")
    c.ensures("gstate(us, up, ut) == old(gstate(us, up, ut))", "process-wide-tables-as-before")
    c.on_raise("gstate(us, up, ut) == old(gstate(us, up, ut))", "process-wide-tables-as-before-when-parsing-fails")


# ---- C19: the Rust export declares a multi-dimensional array with the innermost dimension innermost --------------------------------
EXRS = "dip/config/export_rust.py::ExportConfigRust"


@spec
def rust_type(text, sym):
    """declared type of  pub const SYM: <type> = ..."""
    for l in text.split('\n'):
        if l.startswith('pub const ' + sym + ': '):
            return l[len('pub const ' + sym + ': '):l.index(' = ')]
    return ''


@contract(EXRS + ".parse", ["C19"], name="ExportConfigRust.parse[array-types]")
def _(c):
    c.bound = "one text with 2x3, 1x2, 2x3x1 and 1-D arrays of different element types"

    def pre(b):
        d0 = b.new(DIPC, name="t")
        b.call(b.getattr(d0, "add_string"), 'grid.cells int16[2,3] = [[1,2,3],[4,5,6]]\nflags bool[1,2] = [[true,false]]\ncube uint64[2,3,1] = [[[1],[2],[3]],[[4],[5],[6]]]\nv float32[2] = [1.5,2.5]\nn int = 4')
        env = b.call(b.getattr(d0, "parse"))
        return dict(args=[b.new(EXRS, env)])
    c.scenario("non-square-arrays", pre)
    c.ensures("[rust_type(result, s) for s in ['GRID_CELLS', 'FLAGS', 'CUBE', 'V', 'N']] == ['[[i16; 3]; 2]', '[[bool; 2]; 1]', '[[[u64; 1]; 3]; 2]', '[f32; 2]', 'i32']",
              "element-type-width-and-shape-with-the-last-index-innermost")
    c.ensures("'= [[1, 2, 3], [4, 5, 6]];' in result and '= [[[1], [2], [3]], [[4], [5], [6]]];' in result", "elements-in-row-major-nesting")
    c.no_raise()


# ---- C19: #define exports carry zero, false and empty-text values like any other value ------------------------------------------------
EXCC = "dip/config/export_c.py::ExportConfigC"
EXCPP = "dip/config/export_cpp.py::ExportConfigCPP"

for _cls, _nm in ((EXCC, "C"), (EXCPP, "CPP")):
    @contract(_cls + ".parse", ["C19"], name=f"ExportConfig{_nm}.parse[defines]")
    def _(c, _cls=_cls):
        c.bound = "one text with zero / false / empty / none and non-zero parameters exported as #define"

        def pre(b, _cls=_cls):
            d0 = b.new(DIPC, name="t")
            b.call(b.getattr(d0, "add_string"), 'solver.offset int = 0\nratio float = 0.0\nflag bool = false\nname str = ""\nn int = 3\non bool = true\nmissing int = none')
            env = b.call(b.getattr(d0, "parse"))
            return dict(args=[b.new(_cls, env)], kwargs=dict(define=b.list(["solver.offset", "ratio", "flag", "name", "n", "on", "missing"])))
        c.scenario("falsy-values", pre)
        c.ensures("[l for l in result.split('\\n') if l.startswith('#define ') and not l.startswith('#define CONFIG')] == "
                  "['#define SOLVER_OFFSET 0', '#define RATIO 0.0', '#define FLAG 0', '#define NAME \"\"', '#define N 3', '#define ON 1', '#define MISSING ']",
                  "every-parameter-defined-with-its-value-only-none-without")
        c.no_raise()


# ---- C18 across parses: a custom unit means what the CURRENT text defines, whatever an earlier text in the same process called so ------
@contract(DIPC + ".parse", ["C18", "C09", "C14"], name="DIP.parse[custom-unit-redefined-by-a-later-text]")
def _(c):
    c.bound = "an earlier parse defined and used a unit of the same name with another size; referenced values symbolic"

    def pre(b):
        d1 = b.new(DIPC, name="first")
        b.call(b.getattr(d1, "add_string"), '$unit len = 2 m\np float = 3 [len]\np = 8 m\np = 50 cm\nq float = ("{?p} + 1 [len]") m')
        b.call(b.getattr(d1, "parse"))
        d, env, S = prestate2(b, PRE18, '$unit len = 5 m\nx float = ("{?a} + 1 [len]") m\ny float = 2 [len]\ny = {?b}\nz bool = ("1 [len] > 4 m")')
        return dict(args=[d], env=dict(S=S))
    c.scenario("len-2m-then-len-5m", pre)
    c.ensures("agrees(val_of(result, 'x'), ('+', ('s', 'wa'), 5), S) and agrees(val_of(result, 'y'), ('/', ('s', 'wb'), 500), S) and val_of(result, 'z') == True", "expressions-use-the-size-defined-by-this-text")
    c.no_raise()


# ---- C18/C09 after a REFUSED expression: an earlier parse (or an earlier expression) over custom units that was refused -- unknown reference,
#      operands of different dimension -- leaves the process as it was: the same units can be defined and used again ---------------------------
REFUSED18 = [("logical-with-an-unknown-reference", 'z bool = ("{?nope} == 1 [len]")'), ("logical-of-different-dimensions", 'z bool = ("{?a} == 1 J")'),
             ("numerical-of-different-dimensions", 'z float = ("{?a} + 1 s") m'), ("condition-of-different-dimensions", '@case ("{?a} > 1 J")\n  z int = 1\n@end')]


@contract(DIPC + ".parse", ["C18", "C09"], name="DIP.parse[after-a-refused-expression-over-custom-units]")
def _(c):
    c.bound = f"{len(REFUSED18)} refused texts that define a custom unit, each followed by a valid text defining a unit of the same name; referenced values symbolic"
    from contracts.units_environment import gstate, US, UP, UT
    for name, bad in REFUSED18:
        def pre(b, bad=bad):
            us, up, ut = b.glob(US), b.glob(UP), b.glob(UT)
            g0 = b.call(b.specfn(gstate), us, up, ut)
            d1, env1, S1 = prestate2(b, PRE18, '$unit len = 2 m\np float = 3 [len]\n' + bad, name="first")
            r, exc = b.call_catching(b.getattr(d1, "parse"))
            b.assume(exc is not None)
            S = dict(S1)
            d0 = b.new(DIPC, name="prelude2")
            b.call(b.getattr(d0, "add_string"), PRE18.text)
            env = b.call(b.getattr(d0, "parse"))
            nodes = b.getattr(env, "nodes")
            for i, nm in enumerate(PRE18.names):
                if nm in PRE18.symbols:
                    b.setattr(b.getattr(b.call(b.getattr(nodes, "__getitem__"), i), "value"), "value", S[PRE18.symbols[nm][1]])
            d = b.new(DIPC, env, name="second")
            b.call(b.getattr(d, "add_string"), '$unit len = 5 m\nx float = ("{?a} + 1 [len]") m\nz bool = ("{?a} < 1 [len]")')
            return dict(args=[d], env=dict(S=S, us=us, up=up, ut=ut, g0=g0))
        c.scenario(name, pre)
    c.ensures("agrees(val_of(result, 'x'), ('+', ('s', 'wa'), 5), S) and agrees(val_of(result, 'z'), ('lt', ('s', 'wa'), 5), S)", "expressions-use-the-size-defined-by-this-text")
    c.ensures("gstate(us, up, ut) == g0", "unit-tables-as-before-both-parses")
    c.no_raise()


# ---- C19: booleans are written as bash's 0 (true) / -1 (false) -- scalars, array elements and cells of multi-dimensional arrays alike --------
@contract(EXB + ".parse", ["C19"], name="ExportConfigBash.parse[boolean-arrays]")
def _(c):
    c.bound = "one text with boolean scalars, a 1-D and a 2-D boolean array (in a group) next to an integer array"

    def pre(b):
        d0 = b.new(DIPC, name="t")
        b.call(b.getattr(d0, "add_string"), 'run.mask bool[3] = [true,false,true]\nrun.grid bool[2,2] = [[true,false],[false,false]]\non bool = true\noff bool = false\nn int[2] = [1,2]')
        env = b.call(b.getattr(d0, "parse"))
        return dict(args=[b.new(EXB, env)])
    c.scenario("boolean-scalars-and-arrays", pre)
    c.ensures("result.split('\\n') == ['export RUN_MASK=(\"0\" \"-1\" \"0\")', 'declare -A RUN_GRID', 'RUN_GRID[0,0]=0', 'RUN_GRID[0,1]=-1', 'RUN_GRID[1,0]=-1', 'RUN_GRID[1,1]=-1', "
              "'export RUN_GRID', 'export ON=0', 'export OFF=-1', 'export N=(\"1\" \"2\")']", "true-is-0-and-false-is-minus-1-everywhere")
    c.no_raise()


# ---- C19: the units option of the JSON / YAML / TOML exports is honoured on every call: an exporter used before (with the other option, or
#      after selecting something else and the same again) writes what a fresh exporter writes; the selected data are not rewritten -----------
EXPORTS_UNITS = {
    "dip/config/export_json.py::ExportConfigJSON": ('{"box.w": {"value": 12.0, "unit": "cm"}, "n": 3}', '{"box.w": 12.0, "n": 3}'),
    "dip/config/export_yaml.py::ExportConfigYAML": ('box.w:\n  unit: cm\n  value: 12.0\nn: 3', 'box.w: 12.0\nn: 3'),
    "dip/config/export_toml.py::ExportConfigTOML": ('n = 3\n\n["box.w"]\nvalue = 12.0\nunit = "cm"', '"box.w" = 12.0\nn = 3'),
}


for _cls, (_with, _without) in EXPORTS_UNITS.items():
    @contract(_cls + ".parse", ["C19"], name=_cls.split("::")[1] + ".parse[exporter-used-before]")
    def _(c, cls=_cls, w=_with, wo=_without):
        c.bound = "one environment (a float with a unit in a group, an integer); the exporter was used with the other units option, with or without a re-selection in between"
        for units in (True, False):
            for reselect in (False, True):
                def pre(b, units=units, reselect=reselect):
                    d0 = b.new(DIPC, name="t")
                    b.call(b.getattr(d0, "add_string"), "box.w float = 12 cm\nn int = 3")
                    e = b.new(cls, b.call(b.getattr(d0, "parse")))
                    b.call(b.getattr(e, "parse"), units=not units)
                    if reselect:
                        b.call(b.getattr(e, "select"), "box.*")
                        b.call(b.getattr(e, "parse"), units=not units)
                        b.call(b.getattr(e, "select"))
                    return dict(args=[e], kwargs=dict(units=units), env=dict(want=w if units else wo))
                c.scenario(("units-on" if units else "units-off") + ("-after-selecting-something-else-and-all-again" if reselect else "-after-the-other-option"), pre)
        c.ensures("result == want", "same-text-as-a-fresh-exporter-with-this-option")
        c.no_raise()
        c.modifies("self.text")


# ---- C19: an export reads the environment: the typed values of its nodes (value, unit, declared width and sign) are the same afterwards, so a
#      second export through another back-end sees what the first one saw ---------------------------------------------------------------------
@spec
def typed_view(env):
    return [(n.name, n.keyword, None if n.value is None else (n.value.value, getattr(n.value, 'unit', None), getattr(n.value, 'precision', None), getattr(n.value, 'unsigned', None)))
            for n in env.nodes]


BACKENDS = ["dip/config/export_rust.py::ExportConfigRust", "dip/config/export_c.py::ExportConfigC", "dip/config/export_cpp.py::ExportConfigCPP", "dip/config/export_fortran.py::ExportConfigFortran",
            "dip/config/export_bash.py::ExportConfigBash", "dip/config/export_json.py::ExportConfigJSON", "dip/config/export.py::ExportConfig"]


for _cls in BACKENDS:
    @contract(_cls + ".parse", ["C19"], name=_cls.split("::")[1] + ".parse[environment-unchanged]")
    def _(c, cls=_cls):
        c.bound = "one environment with every float and integer width, signed and unsigned, scalars and arrays, a text and a boolean"

        def pre(b):
            d0 = b.new(DIPC, name="t")
            b.call(b.getattr(d0, "add_string"), 'density float128 = 1.5 g/cm3\nwide float128[2] = [0.5,0.25]\nf32 float32 = 2.5\nf64 float = 3.5 m\nu16 uint16 = 200\ni16 int16 = -3\nu64 uint64[2] = [1,2]\n'
                   'name str = "abc"\nflag bool = true')
            env = b.call(b.getattr(d0, "parse"))
            return dict(args=[b.new(cls, env)], env=dict(env=env))
        c.scenario("all-widths", pre)
        c.ensures("typed_view(env) == old(typed_view(env))", "typed-values-of-the-environment-as-before")
        c.no_raise()


# ---- C19: the declared type of an exported integer is the node's (width and sign) also when the node was given its value in a second step ----
ASSIGNED_TWICE = {
    "dip/config/export.py::ExportConfig": 'counter uint16 = 65535\ndecl uint16 = 40000\nbig uint64 = 4000000000\ns16 int16 = -5',
    "dip/config/export_rust.py::ExportConfigRust": 'pub const COUNTER: u16 = 65535;\npub const DECL: u16 = 40000;\npub const BIG: u64 = 4000000000;\npub const S16: i16 = -5;',
    "dip/config/export_c.py::ExportConfigC": '#ifndef CONFIG_H\n#define CONFIG_H\n\nconst unsigned short int COUNTER = 65535;\nconst unsigned short int DECL = 40000;\nconst unsigned long long int BIG = 4000000000;\nconst short int S16 = -5;\n\n#endif /* CONFIG_H */',
}


for _cls, _want in ASSIGNED_TWICE.items():
    @contract(_cls + ".parse", ["C19"], name=_cls.split("::")[1] + ".parse[integers-assigned-in-a-second-step]")
    def _(c, cls=_cls, want=_want):
        c.bound = "unsigned and narrow integers that are defined and modified, or declared and then defined"

        def pre(b):
            d0 = b.new(DIPC, name="t")
            b.call(b.getattr(d0, "add_string"), 'counter uint16 = 3\ncounter = 65535\ndecl uint16\ndecl = 40000\nbig uint64 = 1\nbig = 4000000000\ns16 int16 = 1\ns16 = -5')
            return dict(args=[b.new(cls, b.call(b.getattr(d0, "parse")))], env=dict(want=want))
        c.scenario("defined-then-modified-and-declared-then-defined", pre)
        c.ensures("result == want", "declared-with-the-width-and-sign-of-the-node")
        c.no_raise()


# ---- C19: JSON / YAML / TOML read back by their own readers give the environment's numbers also for integer nodes assigned in another unit ----
for _cls, _reader in (("dip/config/export_json.py::ExportConfigJSON", "json"), ("dip/config/export_yaml.py::ExportConfigYAML", "yaml"), ("dip/config/export_toml.py::ExportConfigTOML", "toml")):
    @contract(_cls + ".parse", ["C19"], name=_cls.split("::")[1] + ".parse[integers-assigned-in-another-unit]")
    def _(c, cls=_cls, reader=_reader):
        c.bound = "one text: integer scalars and an integer array defined in one unit and assigned again in another (the conversion works with floats); single elements cut out of arrays by a slice"

        def pre(b):
            d0 = b.new(DIPC, name="t")
            b.call(b.getattr(d0, "add_string"), 'box\n  length int = 2 m\n  n int = 4\n  sizes int[2] = [1,2] m\nbox.length = 300 cm\nbox.sizes = [300,400] cm\nw float = 2.5 m\nw = 50 cm\nsrc int[3] = [1,2,3]\npick int = {?src}[1]\nfs float[2] = [1.5,2.5]\nfp float = {?fs}[0]')
            return dict(args=[b.new(cls, b.call(b.getattr(d0, "parse")))], kwargs=dict(units=False), env=dict(reader=reader))
        c.scenario("scalar-and-array-assigned-in-centimetres", pre)
        c.ensures("read_back(reader, result) == {'box.length': 3, 'box.n': 4, 'box.sizes': [3, 4], 'w': 0.5, 'src': [1, 2, 3], 'pick': 2, 'fs': [1.5, 2.5], 'fp': 1.5}", "read-back-values-are-the-environments")
        c.ensures("[typename(v) for v in [read_back(reader, result)['box.length'], read_back(reader, result)['box.n']]] == ['int', 'int']", "integers-are-read-back-as-integers")
        c.no_raise()


@spec
def read_back(reader, text):
    import json, yaml, toml
    return {'json': json.loads, 'yaml': yaml.safe_load, 'toml': toml.loads}[reader](text)


# ---- C19: save() leaves exactly the exported text in the file, whatever was at that path before ------------------------------------------------
# the file system is the model pyvc/models/vfs.py (paths below /vfs/): an earlier file of ANY content -- in particular one of the same
# length, as an earlier export of other values has -- is replaced; mode 'a' appends to it
EXJ = "dip/config/export.py::ExportConfig"
VFS = "<model>.vfs::FILES"


@contract(EXJ + ".save", ["C19"], name="ExportConfig.save")
def _(c):
    c.bound = "the exported text and the earlier content of the file are arbitrary strings; modes 'w' (default) and 'a'; file present or not"

    def mk(existing, mode):
        def pre(b):
            d0 = b.new(DIPC, name="t")
            b.call(b.getattr(d0, "add_string"), "n int = 4")
            ex = b.new(EXJ, b.call(b.getattr(d0, "parse")))
            text, old = b.str("text"), b.str("old")
            b.setattr(ex, "text", text)
            files = b.vfs()
            if existing:
                b.setitem(files, "/vfs/out.h", old)
            b.setitem(files, "/vfs/other.h", "untouched")
            return dict(args=[ex, "/vfs/out.h"] + ([mode] if mode else []), env=dict(files=files, text=text, old=old, existing=existing, mode=mode or "w"))
        return pre
    for existing in (True, False):
        for mode in (None, "w", "a"):
            c.scenario(("file-exists" if existing else "no-file") + "-mode-" + (mode or "default"), mk(existing, mode))
    c.ensures("files['/vfs/out.h'] == ((old + text) if (existing and mode == 'a') else text)", "the-file-holds-the-exported-text")
    c.ensures("files['/vfs/other.h'] == 'untouched' and sorted(files.keys()) == ['/vfs/other.h', '/vfs/out.h']", "no-other-file-touched")
    c.ensures("self.text == text", "the-export-keeps-its-text")
    c.no_raise()
