"""DIP.parse itself under contract: the main loop of the parser (queue, case blocks, hierarchy, injection, imports,
modification of already defined nodes, final validation) is executed symbolically on whole parameter texts.

Structure is concrete (the text of every scenario is fixed), the *data* are symbolic: the truth values of the case
conditions and the numbers injected into definitions come from nodes of a previously parsed environment whose values
are replaced by symbols.  One scenario therefore decides its text for every combination of truth values and every
injected number; the texts themselves are generated (seeded) from a small grammar and listed in the evidence as the
bound of these obligations.

The expected outcome is not obtained by parsing: the generator builds a tree (definitions, groups, imports, case
blocks) and `walk` reads the effect off that tree with the rule of the property (a line takes effect iff, for every
enclosing block, its clause is the first one whose condition is true, or @else when none is)."""
import os
import random

from pyvc.contract import contract, spec
from pyvc.specfns import NATIVE_HELPERS

ite = NATIVE_HELPERS["ite"]   # run-time meaning of the helpers used inside the spec functions below

DIPC = "dip/dip.py::DIP"
TIER = os.environ.get("PYVC_TIER", "quick")
NC, NV = 4, 3   # symbolic truth values c0..c3 and symbolic integers v0..v2 available to a text
PRELUDE = "\n".join([f"c{i} bool = true" for i in range(NC)] + [f"v{i} int = {i + 1}" for i in range(NV)] + ["base", "  x int = 7", "  y int = 8"])
BASE = [("x", 7), ("y", 8)]
SKIP = NC + NV + len(BASE)   # nodes of the prelude precede everything a text defines


def prestate(b, text, name="t"):
    """a parser loaded with `text` on top of an environment whose c*/v* nodes hold arbitrary truth values / integers"""
    d0 = b.new(DIPC, name="prelude")
    b.call(b.getattr(d0, "add_string"), PRELUDE)
    env = b.call(b.getattr(d0, "parse"))
    nodes = b.getattr(env, "nodes")
    cs = [b.bool(f"c{i}") for i in range(NC)]
    vs = [b.int(f"v{i}") for i in range(NV)]
    for i, s in enumerate(cs + vs):
        b.setattr(b.getattr(b.call(b.getattr(nodes, "__getitem__"), i), "value"), "value", s)
    d = b.new(DIPC, env, name=name)
    b.call(b.getattr(d, "add_string"), text)
    return d, env, cs, vs


# ---- specification side ------------------------------------------------------------------------------------------------
@spec
def node_of(env, name):
    for n in env.nodes:
        if n.name == name:
            return n
    return None


@spec
def val_of(env, name):
    n = node_of(env, name)
    return None if n is None or n.value is None else n.value.value


@spec
def names_of(env):
    return [n.name for n in env.nodes]


@spec
def lit(l, cs, vs):
    return cs[l[1]] if l[0] == 'b' else (vs[l[1]] > l[2])


@spec
def holds(guard, cs, vs):
    return all([lit(l, cs, vs) == l[3] for l in guard])


@spec
def want_value(v, vs):
    return vs[v[1]] if isinstance(v, tuple) else v


@spec
def first_effective(nm, rows, cs, vs):
    """index of the first definition of nm whose guard holds"""
    r = 100000
    for k in range(len(rows) - 1, -1, -1):
        if rows[k][0] == nm:
            r = ite(holds(rows[k][1], cs, vs), k, r)
    return r


@spec
def in_order_of_first_effect(names, rows, cs, vs):
    return all([(i < j) == (first_effective(names[i], rows, cs, vs) < first_effective(names[j], rows, cs, vs))
                for i in range(len(names)) for j in range(len(names)) if i != j])


# ---- generator: trees of definitions, groups, imports and case blocks ----------------------------------------------
class Gen:
    def __init__(self, rng, maxdepth=2, closers=("def", "group", "import", "mod")):
        self.rng = rng
        self.maxdepth = maxdepth
        self.counter = 100
        self.closers = closers

    def cond(self):
        rng = self.rng
        r = rng.random()
        if r < 0.45:
            i = rng.randrange(NC)
            return (f'("{{?c{i}}}")', ("b", i, None, True))
        if r < 0.7:
            i = rng.randrange(NC)
            return (f'("~{{?c{i}}}")', ("b", i, None, False))
        i, k = rng.randrange(NV), rng.randrange(-2, 6)
        if rng.random() < 0.5:
            return (f'("{{?v{i}}} > {k}")', ("i", i, k, True))
        return (f'("{{?v{i}}} <= {k}")', ("i", i, k, False))

    def leaf(self, kind=None):
        rng = self.rng
        kind = kind or rng.choice(["def", "def", "def", "import", "group"])
        self.counter += 1
        if kind == "import":
            return ("import", rng.choice(["cp", "cq"]))
        if kind == "group":
            return ("group", rng.choice(["g", "h"]), [self.leaf("def") for _ in range(rng.randint(1, 2))])
        if rng.random() < 0.35:
            return ("def", rng.choice("abd"), ("v", rng.randrange(NV)))
        return ("def", rng.choice("abd"), self.counter)

    def block(self, depth):
        rng = self.rng
        clauses = [(self.cond(), self.items(depth + 1, rng.randint(1, 2))) for _ in range(rng.randint(1, 3))]
        if rng.random() < 0.5:
            clauses.append((None, self.items(depth + 1, rng.randint(1, 2))))
        return ("block", clauses, rng.random() < 0.45)   # True: closed by @end, False: closed by indentation

    def items(self, depth, n):
        rng = self.rng
        out = []
        for _ in range(n):
            if depth < self.maxdepth and rng.random() < 0.45:
                blk = self.block(depth)
                if out and out[-1][0] == "block" and not out[-1][2]:
                    out[-1] = (out[-1][0], out[-1][1], True)   # two blocks in a row: the first needs its @end
                out.append(blk)
            else:
                out.append(self.leaf())
        return out


def render(items, indent=0, w=2):
    lines = []
    pad = " " * indent
    for it in items:
        if it[0] == "def":
            v = it[2]
            lines.append(f"{pad}{it[1]} int = " + (f"{{?v{v[1]}}}" if isinstance(v, tuple) else str(v)))
        elif it[0] == "import":
            lines.append(f"{pad}{it[1]} {{?base.*}}")
        elif it[0] == "group":
            lines.append(f"{pad}{it[1]}")
            lines += render(it[2], indent + w, w)
        else:
            for c, body in it[1]:
                lines.append(f"{pad}@else" if c is None else f"{pad}@case {c[0]}")
                lines += render(body, indent + w, w)
            if it[2]:
                lines.append(f"{pad}@end")
    return lines


def walk(items, guard, prefix, defs):
    """(name, guard, value) of every definition in text order; guard = conjunction of (kind, index, const, polarity)"""
    for it in items:
        if it[0] == "def":
            defs.append((prefix + it[1], list(guard), it[2]))
        elif it[0] == "import":
            for k, v in BASE:
                defs.append((prefix + it[1] + "." + k, list(guard), v))
        elif it[0] == "group":
            walk(it[2], guard, prefix + it[1] + ".", defs)
        else:
            prev = []
            for c, body in it[1]:
                g = list(guard) + [(l[0], l[1], l[2], not l[3]) for l in prev] + ([c[1]] if c is not None else [])
                walk(body, g, prefix, defs)
                if c is not None:
                    prev.append(c[1])
    return defs


def case_text(seed, maxdepth=2):
    rng = random.Random(seed)
    g = Gen(rng, maxdepth)
    items = g.items(0, rng.randint(2, 4))
    if not any(it[0] == "block" for it in items):
        items.insert(rng.randrange(len(items) + 1), g.block(0))
        for k in range(len(items) - 1):
            if items[k][0] == "block" and items[k + 1][0] == "block" and not items[k][2]:
                items[k] = (items[k][0], items[k][1], True)
    text = "\n".join(render(items, 0, rng.choice([1, 2, 3])))
    defs = walk(items, [], "", [])
    return text, table(defs)


def table(defs):
    """per definition: the guards of the later definitions of the same name (the last effective one gives the value);
    per name: all guards (present iff one holds); first-appearance order of the names"""
    rows, order, presence = [], [], {}
    for k, (nm, g, v) in enumerate(defs):
        rows.append((nm, g, v, [h for (n2, h, _) in defs[k + 1:] if n2 == nm]))
        if nm not in presence:
            order.append(nm)
            presence[nm] = []
        presence[nm].append(g)
    return dict(rows=rows, order=order, presence=[(nm, presence[nm]) for nm in order])


N_CASE = 24 if TIER != "thorough" else 160
MAX_CASES, MAX_LINES = (7, 30) if TIER != "thorough" else (12, 50)   # size limit of a generated text (rejection sampling)


def _sized(gen, n, seed0):
    out, s = [], seed0
    while len(out) < n:
        t, tab = gen(s, maxdepth=2 if s % 3 else 3)
        s += 1
        if t.count("@case") <= MAX_CASES and len(t.splitlines()) <= MAX_LINES:
            out.append((t, tab))
    return out


CASE_TEXTS = _sized(case_text, N_CASE, 1000)
# hand-written texts for the closing rules (each kind of line that can end an indentation-closed clause)
HAND = [
    ("import-line-ends-the-block", [("block", [((None, ("b", 0, None, True)), [("def", "a", 1)]), ((None, ("b", 1, None, True)), [("def", "a", 2)])], False),
                                    ("import", "cp"), ("def", "d", 5)]),
    ("group-header-ends-the-block", [("block", [((None, ("b", 0, None, True)), [("def", "a", 1)]), ((None, ("b", 1, None, True)), [("def", "a", 2)])], False),
                                     ("group", "g", [("def", "b", 3)]), ("def", "d", 5)]),
    ("definition-ends-the-block", [("block", [((None, ("b", 0, None, True)), [("def", "a", 1)]), (None, [("def", "a", 2)])], False), ("def", "d", ("v", 0))]),
    ("outer-else-ends-the-inner-block", [("block", [((None, ("b", 0, None, True)), [("def", "a", 1), ("block", [((None, ("b", 1, None, True)), [("def", "b", 2)])], False)]),
                                                    (None, [("def", "a", 10)])], False), ("def", "d", 5)]),
    ("import-ends-inner-block-only", [("block", [((None, ("b", 0, None, True)), [("def", "a", 1), ("block", [((None, ("b", 1, None, True)), [("def", "b", 2)]), (None, [("def", "b", 3)])], False),
                                                                                  ("import", "cp"), ("def", "d", 4)]), (None, [("def", "a", 10)])], False), ("import", "cq")]),
    ("nested-three-deep-with-end", [("block", [((None, ("b", 0, None, True)), [("block", [((None, ("b", 1, None, True)), [("block", [((None, ("b", 2, None, True)), [("def", "a", 1)]), (None, [("def", "a", 2)])], True)]),
                                                                                          (None, [("def", "a", 3)])], True)]), ((None, ("i", 0, 2, True)), [("def", "a", 4)])], True), ("def", "b", ("v", 1))]),
    ("same-condition-twice", [("block", [((None, ("b", 0, None, True)), [("def", "a", 1)]), ((None, ("b", 0, None, True)), [("def", "a", 2)]), (None, [("def", "a", 3)])], True)]),
]


def _fix_conds(items):
    """hand-written trees give only the literal; add the condition text"""
    out = []
    for it in items:
        if it[0] == "block":
            cl = []
            for c, body in it[1]:
                if c is not None:
                    l = c[1]
                    txt = (f'("{{?c{l[1]}}}")' if l[3] else f'("~{{?c{l[1]}}}")') if l[0] == "b" else (f'("{{?v{l[1]}}} > {l[2]}")' if l[3] else f'("{{?v{l[1]}}} <= {l[2]}")')
                    c = (txt, l)
                cl.append((c, _fix_conds(body)))
            out.append(("block", cl, it[2]))
        elif it[0] == "group":
            out.append(("group", it[1], _fix_conds(it[2])))
        else:
            out.append(it)
    return out


HAND_TEXTS = []
for _name, _items in HAND:
    _items = _fix_conds(_items)
    HAND_TEXTS.append((_name, "\n".join(render(_items)), table(walk(_items, [], "", []))))


@contract(DIPC + ".parse", ["C15"], name="DIP.parse[case-blocks]")
def _(c):
    c.bound = (f"{len(HAND_TEXTS)} hand-written and {N_CASE} generated texts (seeded grammar: definitions, groups, imports, case blocks nested <= 3, "
               "clauses closed by @end / next clause / indentation); truth values of the conditions and injected integers symbolic")
    c.chunk = 1
    for name, text, tab in HAND_TEXTS + [(f"generated-{k}", t, tab) for k, (t, tab) in enumerate(CASE_TEXTS)]:
        def pre(b, text=text, tab=tab):
            d, env, cs, vs = prestate(b, text)
            return dict(args=[d], env=dict(cs=cs, vs=vs, rows=tab["rows"], presence=tab["presence"], order=tab["order"], text=text))
        c.scenario(name, pre)
    c.ensures("all([(node_of(result, nm) is not None) == any([holds(g, cs, vs) for g in gs]) for nm, gs in presence])",
              "a-line-takes-effect-iff-every-enclosing-clause-is-the-selected-one")
    c.ensures("all([ite(holds(g, cs, vs) and not any([holds(h, cs, vs) for h in later]), val_of(result, nm) == want_value(v, vs), True) for nm, g, v, later in rows])",
              "value-of-the-last-effective-definition")
    c.ensures(f"in_order_of_first_effect(names_of(result)[{SKIP}:], rows, cs, vs) and len(names_of(result)) >= {SKIP}", "nodes-in-order-of-first-effect")
    c.ensures(f"[val_of(result, 'base.' + k) for k, v in {BASE!r}] == [v for k, v in {BASE!r}] and [val_of(result, 'c%d' % i) for i in range({NC})] == cs and [val_of(result, 'v%d' % i) for i in range({NV})] == vs",
              "nodes-outside-the-blocks-unaffected")
    c.no_raise()
