"""C03: a unit expression means the product of its table entries.

Expressions are enumerated from the grammar the property names (prefix x symbol x exponent shape, products,
quotients, numeric factors, parentheses) over the published tables; the expected factor and dimension vector
come from contracts/unitdata.py (table rows combined multiplicatively), not from the library.  The strings
are concrete, so these obligations are discharged by ground evaluation of the real parser in the executor
(complete finite evaluation over the enumerated set; the set is bounded in expression size and is reported
as bounded_structure).  Atom product/quotient and the Fraction/Dimensions algebra underneath are proved for
all exponents and magnitudes (contracts.units_fraction)."""
import itertools
import os
import random
from fractions import Fraction as PF

from pyvc.contract import contract, spec, lemma
from contracts import unitdata as U
from contracts.units_common import absv, near

BU = "units/base_units.py::BaseUnits"
Q = "units/quantity.py::Quantity"
ATOM = "units/unit_solver.py::Atom"
FR = "units/fraction.py::Fraction"
TIER = os.environ.get("PYVC_TIER", "quick")
BOUND = "unit expressions of at most 4 terms from the enumerated grammar (all table symbols, admitted prefixes, exponent shapes 1, 2, -1, -2, 1:2, -3:2)"

EXPS = [(1, 1), (2, 1), (-1, 1), (-2, 1), (1, 2), (-3, 2)]


def atoms():
    rng = random.Random(7)
    out = []
    for s in U.UNITS:
        if s in U.TEMPERATURE or s in U.LOGARITHMIC:
            pref = [""]
        else:
            adm = [p for p in U.PREFIX if U.admits(s, p)]
            pref = [""] + (adm if TIER == "thorough" else rng.sample(adm, min(2, len(adm))))
            if "da" in adm and "da" not in pref:
                pref.append("da")
        for p in pref:
            for (n, d) in (EXPS if TIER == "thorough" else [(1, 1), rng.choice(EXPS[1:])]):
                out.append([(p, s, n, d)])
    return out


def compounds():
    T = lambda *ts: list(ts)
    return [
        ("kg*m/s2", T(("k", "g", 1, 1), ("", "m", 1, 1), ("", "s", -2, 1)), 1.0),
        ("kg*m2*s-2", T(("k", "g", 1, 1), ("", "m", 2, 1), ("", "s", -2, 1)), 1.0),
        ("m/s/s", T(("", "m", 1, 1), ("", "s", -2, 1)), 1.0),
        ("m/(s*s)", T(("", "m", 1, 1), ("", "s", -2, 1)), 1.0),
        ("(kg*m)/(s2*mol)", T(("k", "g", 1, 1), ("", "m", 1, 1), ("", "s", -2, 1), ("", "mol", -1, 1)), 1.0),
        ("J/(mol*K)", T(("", "J", 1, 1), ("", "mol", -1, 1), ("", "K", -1, 1)), 1.0),
        ("2*m", T(("", "m", 1, 1)), 2.0),
        ("m/4", T(("", "m", 1, 1)), 0.25),
        ("1e3*g/cm3", T(("", "g", 1, 1), ("c", "m", -3, 1)), 1e3),
        ("12/4*km", T(("k", "m", 1, 1)), 3.0),
        ("2.5e-2*kN*m-2", T(("k", "N", 1, 1), ("", "m", -2, 1)), 2.5e-2),
        ("g1:2*cm1:2/s", T(("", "g", 1, 2), ("c", "m", 1, 2), ("", "s", -1, 1)), 1.0),
        ("m*m", T(("", "m", 2, 1)), 1.0),
        ("m/m", [], 1.0),
        ("km/m", T(("k", "m", 1, 1), ("", "m", -1, 1)), 1.0),
        ("((m))", T(("", "m", 1, 1)), 1.0),
        ("[c]*yr_j", T(("", "[c]", 1, 1), ("", "yr_j", 1, 1)), 1.0),
        ("eV/[k_B]", T(("", "eV", 1, 1), ("", "[k_B]", -1, 1)), 1.0),
        ("W*m-2*K-4", T(("", "W", 1, 1), ("", "m", -2, 1), ("", "K", -4, 1)), 1.0),
        ("dam2/das", T(("da", "m", 2, 1), ("da", "s", -1, 1)), 1.0),
    ]


REJECT = ["xyz", "kxyz", "qm", "xykm", "mdB", "kCel", "mAU", "kmin", "m^2", "m**2", "m s", "k", "", "*m", "m*", "m//s", "(m", "m)", "m2:", "kkm",
          "mkg", "1e", "--m", "m-", "daa", "µm", "m,s", "K m"]


def _chunks(seq, n):
    k = (len(seq) + n - 1) // n
    return [seq[i * k:(i + 1) * k] for i in range(n)]


ATOMS = atoms()
for ci, chunk in enumerate(_chunks(ATOMS, 8)):
    @contract(f"{BU}.__init__", ["C03"], name=f"BaseUnits.__init__[atoms-{ci}]")
    def _(c, chunk=chunk):
        c.bound = BOUND
        for terms in chunk:
            expr = U.render(terms)

            def pre(b, expr=expr, terms=terms):
                return dict(args=[b.obj(BU), expr], env=dict(f=U.factor(terms), dv=[(x.numerator, x.denominator) for x in U.dims(terms)], expr=expr))
            c.scenario(expr, pre)
        c.ensures("near(self.magnitude, f)", "factor-is-prefix-times-unit-to-the-exponent")
        c.ensures("[(getattr(self.dimensions, n).num * d[1] == d[0] * getattr(self.dimensions, n).den) for n, d in zip(['m','g','s','K','C','cd','mol','rad'], dv)] == [True] * 8", "dimension-vector")
        c.ensures("self.expression == expr", "renders-back-to-the-same-text")
        c.no_raise()


@contract(f"{Q}.__init__", ["C03"], name="Quantity.__init__[compound-expressions]")
def _(c):
    c.bound = BOUND
    for expr, terms, num in compounds():
        def pre(b, expr=expr, terms=terms, num=num):
            return dict(args=[b.obj(Q), b.real("x"), expr], env=dict(x=None, f=U.factor(terms) * num, dv=[(d.numerator, d.denominator) for d in U.dims(terms)]))
        c.scenario(expr, pre)
    c.ensures("near(self.magnitude.value * self.baseunits.magnitude, magnitude * f)", "factor-is-the-product-of-the-terms")
    c.ensures("[(getattr(self.baseunits.dimensions, n).num * d[1] == d[0] * getattr(self.baseunits.dimensions, n).den) for n, d in zip(['m','g','s','K','C','cd','mol','rad'], dv)] == [True] * 8", "dimension-vector")
    c.no_raise()


@contract(f"{BU}.__init__", ["C03"], name="BaseUnits.__init__[render-parse-round-trip]")
def _(c):
    c.bound = BOUND
    for expr, terms, num in compounds():
        if num != 1.0 or not terms:
            continue

        def pre(b, expr=expr):
            first = b.new(BU, expr)
            return dict(args=[b.obj(BU), b.getattr(first, "expression")], env=dict(first=first))
        c.scenario(expr, pre)
    c.ensures("self.expression == first.expression and self == first and near(self.magnitude, first.magnitude)", "parse-of-rendered-text-gives-the-same-units")
    c.no_raise()


@contract(f"{BU}.__init__", ["C03"], name="BaseUnits.__init__[rejected]")
def _(c):
    c.bound = "the listed ill-formed strings"
    for expr in REJECT:
        c.scenario(repr(expr), (lambda expr: lambda b: dict(args=[b.obj(BU), expr]))(expr))
    c.raises("True", label="rejected-with-an-error")


# ---- Atom product / quotient: for all magnitudes and exponents -------------------------------------------
def atom(b, p, keys):
    exps = {k: b.obj(FR, num=b.int(f"{p}_{k.replace(':', '_')}_n"), den=b.int(f"{p}_{k.replace(':', '_')}_d")) for k in keys}
    return b.obj(ATOM, magnitude=b.real(p + "_mag"), baseunits=b.dict(exps))


@spec
def expo(a, k):
    """exponent of unit k in atom a as (num, den), 0/1 when absent"""
    return (a.baseunits[k].num, a.baseunits[k].den) if k in a.baseunits else (0, 1)


for opname, sign in (("__mul__", "+"), ("__truediv__", "-")):
    @contract(f"{ATOM}.{opname}", ["C03"], name=f"Atom.{opname}")
    def _(c, sign=sign):
        for ka, kb in [(["k:m"], ["s"]), (["k:m", "s"], ["s", "g"]), (["m"], ["m"]), ([], ["m"]), (["m"], []), (["k:g", "m", "s"], ["s", "m", "K"])]:
            c.scenario(f"{'.'.join(ka) or '1'} {sign} {'.'.join(kb) or '1'}", (lambda ka, kb: lambda b: dict(args=[atom(b, "a", ka), atom(b, "b", kb)], env=dict(keys=sorted(set(ka) | set(kb)))))(ka, kb))
        c.requires("all([f.den != 0 for f in self.baseunits.values()]) and all([f.den != 0 for f in other.baseunits.values()]) and other.magnitude != 0")
        c.ensures(f"result.magnitude == self.magnitude {'*' if sign == '+' else '/'} other.magnitude", "magnitudes-multiply" if sign == "+" else "magnitudes-divide")
        c.ensures(f"all([expo(result, k)[1] != 0 and expo(result, k)[0] / expo(result, k)[1] == expo(self, k)[0] / expo(self, k)[1] {sign} expo(other, k)[0] / expo(other, k)[1] for k in keys])", "exponents-add" if sign == "+" else "exponents-subtract")
        c.ensures("sorted(result.baseunits.keys()) == keys", "exactly-the-units-of-both-operands")
        c.fresh("result.baseunits", "result-dict-is-fresh")
        c.no_raise()
        c.modifies()


@contract("units/unit_environment.py::check_unique_symbols", ["C03"], name="tables/prefixed-symbols-unique")
def _(c):
    c.scenario("published-tables", lambda b: dict(args=[]))
    c.ensures("result == True", "no-two-admissible-prefix+symbol-spellings-coincide")
    c.no_raise()
    c.modifies()


# ---- numbers inside unit expressions: every float notation the grammar admits denotes that float ------------------------------------
NUMBERS = ["1", "60", "2.5", ".5", "10.", "1e3", "1e+3", "2.5e-3", "6.02214076e+23", "1.602176634e-19", "-3", "-1e+2", "-2.5e-1", "1e05", "0", "0.0"]


@contract("units/unit_solver.py::AtomParser", ["C03"], name="AtomParser[numbers]")
def _(c):
    c.bound = "the listed numerals (integer, decimal, exponent with and without sign, negative)"
    for s in NUMBERS:
        c.scenario(s, (lambda s: lambda b: dict(args=[s], env=dict(want=float(s))))(s))
    c.ensures("result.magnitude == want and len(result.baseunits) == 0", "a-plain-number-with-that-value")
    c.no_raise()


@contract(f"{Q}.__init__", ["C03"], name="Quantity.__init__[numeric-factors]")
def _(c):
    c.bound = "unit expressions with numeric factors in every float notation"
    for expr, terms, num in [("1e+3*m", [("", "m", 1, 1)], 1e3), ("m/1e-3", [("", "m", 1, 1)], 1e3), ("2.5e+2*cm", [("c", "m", 1, 1)], 250.0), ("kg*1e+0", [("k", "g", 1, 1)], 1.0),
                             ("1e3*m", [("", "m", 1, 1)], 1e3), ("60*s", [("", "s", 1, 1)], 60.0), ("-2*m", [("", "m", 1, 1)], -2.0)]:
        def pre(b, expr=expr, terms=terms, num=num):
            return dict(args=[b.obj(Q), b.real("x"), expr], env=dict(f=U.factor(terms) * num))
        c.scenario(expr, pre)
    c.ensures("near(self.magnitude.value * self.baseunits.magnitude, magnitude * f)", "factor-is-the-product-of-the-terms")
    c.no_raise()



@contract(f"{Q}.__init__", ["C03", "C04", "C06"], name="Quantity.__init__[cancelling-units-next-to-a-dimensionless-one]")
def _(c):
    c.bound = "expressions of zero total dimension that contain a dimensionless table unit"
    for expr, kept, f in [("%*m/km", "%", 1e-3), ("ppth*J/erg", "ppth", 1e7), ("[pi]*km2/m2", "[pi]", 1e6), ("m/km*%", "%", 1e-3), ("%", "%", 1.0), ("m/km", None, 1e-3)]:
        def pre(b, expr=expr, kept=kept, f=f):
            return dict(args=[b.obj(Q), b.real("x"), expr], env=dict(kept=kept, f=f))
        c.scenario(expr, pre)
    c.ensures("near(self.magnitude.value, magnitude * f)", "only-the-factors-of-the-dropped-units-are-folded-in")
    c.ensures("self.baseunits.expression == kept", "the-dimensionless-unit-stays")
    c.ensures("near(self.value('%'), 100 * magnitude * f * (0.01 if kept == '%' else (0.001 if kept == 'ppth' else (3.141592653589793 if kept == '[pi]' else 1.0))))", "converts-to-percent-by-all-factors-once")
    c.no_raise()


# ---- algebra of unit lists: a power multiplies EVERY exponent (dimensionless table units and cancelling pairs included), products add
#      and quotients subtract them -- for every integer power / pair of exponents --------------------------------------------------------
UNIT_LISTS = [{"m": 1}, {"%": 1}, {"m": 1, "k:m": -1}, {"[pi]": 2}, {"rad": 1, "s": -1}, {"%": 1, "ppth": -1}, {"k:g": (1, 2), "c:m": (-3, 2)}, {}]


@spec
def exps_of(bu):
    return {k: (f.num, f.den) for k, f in bu.baseunits.items()}


def _units(b, d):
    return b.new(BU, b.dict({k: (b.new("units/fraction.py::Fraction", *v) if isinstance(v, tuple) else v) for k, v in d.items()}))


for opname in ("__mul__", "__truediv__"):
    @contract(f"{BU}.{opname}", ["C06"], name=f"BaseUnits.{opname}")
    def _(c, opname=opname):
        c.bound = "the listed unit lists (plain, dimensionless table units, cancelling pairs, fractional exponents); the power is any non-zero integer"
        for d in UNIT_LISTS:
            def pre(b, d=d):
                u = _units(b, d)
                return dict(args=[u, b.int("p")], env=dict(u=u, keys=list(d.keys())))
            c.scenario("*".join(f"{k}^{v}" for k, v in d.items()) or "1", pre)
        c.requires("other != 0" if opname == "__mul__" else "div != 0")
        if opname == "__mul__":
            c.ensures("list(result.baseunits.keys()) == keys and all([result.baseunits[k].den != 0 and result.baseunits[k].num * self.baseunits[k].den == other * self.baseunits[k].num * result.baseunits[k].den for k in keys])", "every-exponent-times-the-power")
        else:
            c.ensures("list(result.baseunits.keys()) == keys and all([result.baseunits[k].den != 0 and div * result.baseunits[k].num * self.baseunits[k].den == self.baseunits[k].num * result.baseunits[k].den for k in keys])", "every-exponent-over-the-divisor")
        c.ensures("exps_of(u) == old(exps_of(u))", "operand-keeps-its-exponents")
        c.fresh("result.baseunits", "result-dict-is-fresh")
        c.no_raise()


# ---- a rejected unit string leaves nothing behind: the next string is read on its own (no token of the rejected one takes part) --------------
AFTER_REJECTED = [("kg*m2/qq", "s"), ("N*mCel", "km"), ("2*km/?s", "kg*m/s2"), ("kg/(m*xs2)", "J/(mol*K)"), ("(m", "m/s/s"), ("m*", "(kg*m)/(s2*mol)")]


@contract(f"{BU}.__init__", ["C03"], name="BaseUnits.__init__[after-a-rejected-string]")
def _(c):
    c.bound = "the listed pairs (a string rejected part-way, then a valid one), in one process"
    comp = {e: (t, n) for e, t, n in compounds()}
    comp.update({"s": ([("", "s", 1, 1)], 1.0), "km": ([("k", "m", 1, 1)], 1.0)})
    for bad, good in AFTER_REJECTED:
        def pre(b, bad=bad, good=good):
            r, exc = b.call_catching(b.cls(BU), bad)
            b.assume(exc is not None)
            r2, exc2 = b.call_catching(b.cls(Q), 1.0, bad)
            terms, num = comp[good]
            return dict(args=[b.obj(BU), good], env=dict(f=U.factor(terms) * num, dv=[(x.numerator, x.denominator) for x in U.dims(terms)]))
        c.scenario(f"{bad} then {good}", pre)
    c.ensures("[(getattr(self.dimensions, n).num * d[1] == d[0] * getattr(self.dimensions, n).den) for n, d in zip(['m','g','s','K','C','cd','mol','rad'], dv)] == [True] * 8", "dimension-vector-of-the-valid-string-alone")
    c.ensures("near(self.magnitude, f)", "factor-of-the-valid-string-alone")
    c.no_raise()


# ---- exponents are rational numbers of any size: denominators beyond 1000, written directly or arising as a sum, are kept exactly ------------
BIG_EXPS = [("m*s/m", [("", "s", 1, 1)]), ("kg*m2/(kg*s)", [("", "m", 2, 1), ("", "s", -1, 1)]), ("km*Pa/km", [("", "Pa", 1, 1)]), ("cm1:2*J*cm-1:2", [("", "J", 1, 1)]),
            ("m*s*K/(m*s)", [("", "K", 1, 1)]),   # a unit that cancels exactly is gone, whatever follows it stays
            ("m1:1001", [("", "m", 1, 1001)]), ("kg-3:1024", [("k", "g", -3, 1024)]), ("N5:2003/s", [("", "N", 5, 2003), ("", "s", -1, 1)]),
            ("m1:7*m1:11*m1:13", [("", "m", 311, 1001)]), ("cm1:999", [("c", "m", 1, 999)]), ("statV7:1500", [("", "statV", 7, 1500)])]


@contract(f"{BU}.__init__", ["C03"], name="BaseUnits.__init__[large-denominators]")
def _(c):
    c.bound = "the listed expressions: exponent denominators around and beyond 1000; units that cancel exactly in front of other units"
    for expr, terms in BIG_EXPS:
        def pre(b, expr=expr, terms=terms):
            return dict(args=[b.obj(BU), expr], env=dict(f=U.factor(terms), dv=[(x.numerator, x.denominator) for x in U.dims(terms)]))
        c.scenario(expr, pre)
    c.ensures("[(getattr(self.dimensions, n).num * d[1] == d[0] * getattr(self.dimensions, n).den) for n, d in zip(['m','g','s','K','C','cd','mol','rad'], dv)] == [True] * 8", "dimension-vector")
    c.ensures("near(self.magnitude, f)", "factor-is-prefix-times-unit-to-the-exponent")
    c.no_raise()


# ---- a refused registration of a custom unit whose symbol is a published one (exactly, or as prefix + symbol) leaves the published tables
#      as they were: the same expressions mean the same afterwards ---------------------------------------------------------------------------
UEC = "units/unit_environment.py::UnitEnvironment"
REFUSED_SYMBOLS = [("min", "m/min", [("", "m", 1, 1), ("", "min", -1, 1)]), ("Pa", "kPa*min2", [("k", "Pa", 1, 1), ("", "min", 2, 1)]), ("ms", "ms", [("m", "s", 1, 1)]), ("Mm", "Mm/s", [("M", "m", 1, 1), ("", "s", -1, 1)])]


@contract(f"{BU}.__init__", ["C03", "C04"], name="BaseUnits.__init__[after-a-refused-registration-of-a-published-symbol]")
def _(c):
    c.bound = "custom units named like a published unit or like prefix + unit (alone, or as the second unit of a registration); then an expression using that symbol"
    for sym, expr, terms in REFUSED_SYMBOLS:
        for second in (False, True):
            def pre(b, sym=sym, expr=expr, terms=terms, second=second):
                units = {}
                if second:
                    units["xq7"] = b.dict(dict(magnitude=2.0, dimensions=b.list([1, 0, 0, 0, 0, 0, 0, 0])))
                units[sym] = b.dict(dict(magnitude=b.real("mag"), dimensions=b.list([0, 0, 1, 0, 0, 0, 0, 0])))
                e, exc = b.call_catching(b.cls(UEC), b.dict(units))
                b.assume(exc is not None)
                return dict(args=[b.obj(BU), expr], env=dict(f=U.factor(terms), dv=[(x.numerator, x.denominator) for x in U.dims(terms)]))
            c.scenario(f"{sym} refused{' as second unit' if second else ''} then {expr}", pre)
    c.ensures("[(getattr(self.dimensions, n).num * d[1] == d[0] * getattr(self.dimensions, n).den) for n, d in zip(['m','g','s','K','C','cd','mol','rad'], dv)] == [True] * 8", "dimension-vector-from-the-published-tables")
    c.ensures("near(self.magnitude, f)", "factor-from-the-published-tables")
    c.no_raise()
