"""C01 (documented step-table evaluation) and C02 (no state carried between solves) for the expression solver.

Layers:
 1. every operator method refines one configuration step of the documented machine (`sign_step`, `binary`,
    `not`, function application), for every shape of the tokens next to the operator, atom values symbolic;
 2. Tokens.operate applies that step left to right until the pending queue is empty (all token-kind
    sequences up to a bound, values symbolic);
 3. ExpressionSolver.solve on every token sequence of the stratified grammar (contracts/solver_ref.py) with
    atoms standing for arbitrary reals: the returned value equals the value of the reference AST, for all
    values; ill-formed strings raise; at EVERY exit the token buffers are empty (C02);
 4. the operator and step tables in ExpressionSolver.__init__ equal the documented ones; the symbol table is
    prefix-safe in dictionary order.
"""
import itertools
import math
import os
import random

from pyvc.contract import contract, spec, lemma
from contracts import solver_ref as R

TIER = os.environ.get("PYVC_TIER", "quick")
OPS = "solver/operators.py::"
ATOM = "solver/atom.py::AtomBase"
TOK = "solver/tokens.py::Tokens"
ES = "solver/solver.py::ExpressionSolver"
E = math.e
BOUND_SHAPES = "token configurations enumerated by the kind of the tokens adjacent to the operator (atom / + / - / other operator / none), atom values symbolic"
BOUND_SEQ = "token sequences of the stratified grammar: all single operators x sign patterns, all ordered operator pairs, functions, parentheses, plus seeded chains of 3-5 operands; atom values symbolic"


# ---- abstract view of the token machine -----------------------------------------------------------------
@spec
def kd(t):
    return ('N',) if t is None else (('A', t.value) if typename(t) == 'AtomBase' else ('O', typename(t)))


@spec
def cfg(tokens):
    """clean configuration: kinds of the processed tokens (top last) and of the pending tokens (head first);
    the None the code pushes when it pops an empty buffer is not observable"""
    return ([kd(t) for t in tokens.left if t is not None], [kd(t) for t in tokens.right if t is not None])


@spec
def sign_step(s, L, R):
    """one UNARY step of a sign token s ('OperatorAdd' / 'OperatorSub') taken from the head of the queue:
    a sign preceded by an operand is binary and is left alone; otherwise it applies to the following operand,
    and two such signs combine multiplicatively"""
    if len(L) > 0 and L[-1][0] == 'A':
        return (L + [('O', s)], R)
    if len(R) > 0 and R[0][0] == 'A':
        return (L, [('A', R[0][1] if s == 'OperatorAdd' else -R[0][1])] + R[1:])
    if len(R) > 0 and (R[0] == ('O', 'OperatorAdd') or R[0] == ('O', 'OperatorSub')):
        return (L, [('O', 'OperatorAdd' if R[0][1] == s else 'OperatorSub')] + R[1:])
    return (L + [('O', s)], R)


@spec
def settle(LR):
    """tokens that are not signs are simply moved to the processed side by the scan; a configuration is
    compared after this has been done (whether the code moves an operand at once or on the next turn of the
    loop is not observable)"""
    L = LR[0]
    R = LR[1]
    while len(R) > 0 and not (R[0] == ('O', 'OperatorAdd') or R[0] == ('O', 'OperatorSub')):
        L = L + [R[0]]
        R = R[1:]
    return (L, R)


@spec
def both_atoms(L, R):
    return len(L) > 0 and L[-1][0] == 'A' and len(R) > 0 and R[0][0] == 'A'


def mk_token(b, k, name):
    if k == "A":
        return b.obj(ATOM, value=b.real(name))
    if k == "N":
        return None
    return b.obj(OPS + k)


def mk_tokens(b, L, R):
    left = [mk_token(b, k, f"l{i}") for i, k in enumerate(L)]
    right = [mk_token(b, k, f"r{i}") for i, k in enumerate(R)]
    return b.obj(TOK, atom=b.cls(ATOM), left=b.list(left), right=b.list(right))


LEFTS = [[], ["A"], ["A", "A"], ["OperatorMul"], ["A", "OperatorMul"], ["OperatorAdd"], ["A", "OperatorSub"], ["OperatorPar"], ["A", "OperatorLt"]]
RIGHTS = [[], ["A"], ["A", "OperatorMul", "A"], ["OperatorAdd", "A"], ["OperatorSub", "A"], ["OperatorMul", "A"], ["OperatorAdd"], ["OperatorSub"],
          ["OperatorSub", "OperatorSub", "A"], ["OperatorNot", "A"]]

for cls in ("OperatorAdd", "OperatorSub"):
    @contract(f"{OPS}{cls}.operate_unary", ["C01"], name=f"{cls}.operate_unary")
    def _(c, cls=cls):
        c.bound = BOUND_SHAPES
        for L, R in itertools.product(LEFTS, RIGHTS):
            c.scenario(f"{'.'.join(L) or '-'}|{'.'.join(R) or '-'}",
                       (lambda L, R: lambda b: dict(args=[b.obj(OPS + cls), mk_tokens(b, L, R)], env=dict(s=cls)))(L, R))
        c.ensures("settle(cfg(tokens)) == settle(sign_step(s, old(cfg(tokens))[0], old(cfg(tokens))[1]))", "refines-the-documented-unary-sign-step")
        c.no_raise()
        c.modifies("tokens.left[]", "tokens.right[]")


BINARY = {"OperatorAdd": "a + b", "OperatorSub": "a - b", "OperatorMul": "a * b", "OperatorTruediv": "a / b", "OperatorPow": "a ** b",
          "OperatorEq": "a == b", "OperatorNe": "a != b", "OperatorLe": "a <= b", "OperatorGe": "a >= b", "OperatorLt": "a < b", "OperatorGt": "a > b",
          "OperatorAnd": "a and b", "OperatorOr": "a or b"}
BL = [[], ["A"], ["A", "A"], ["OperatorMul"], ["A", "OperatorAdd", "A"]]
BR = [[], ["A"], ["A", "OperatorAdd", "A"], ["OperatorSub", "A"], ["OperatorPar"]]

for cls, formula in BINARY.items():
    @contract(f"{OPS}{cls}.operate_binary", ["C01"], name=f"{cls}.operate_binary")
    def _(c, cls=cls, formula=formula):
        c.bound = BOUND_SHAPES
        c.assume_nonzero_divisors = True
        for L, R in itertools.product(BL, BR):
            c.scenario(f"{'.'.join(L) or '-'}|{'.'.join(R) or '-'}",
                       (lambda L, R: lambda b: dict(args=[b.obj(OPS + cls), mk_tokens(b, L, R)]))(L, R))
        if cls == "OperatorPow":
            c.requires("len(tokens.left) == 0 or typename(tokens.left[-1]) != 'AtomBase' or tokens.left[-1].value > 0")
        c.ensures(f"cfg(tokens) == (old(cfg(tokens))[0][:-1] + [('A', (lambda a, b: {formula})(old(cfg(tokens))[0][-1][1], old(cfg(tokens))[1][0][1]))], old(cfg(tokens))[1][1:])",
                  "operands-replaced-by-the-result")
        c.raises("not both_atoms(cfg(tokens)[0], cfg(tokens)[1])", label="missing-operand-is-an-error")
        c.modifies("tokens.left[]", "tokens.right[]")


@contract(f"{OPS}OperatorNot.operate_unary", ["C01"], name="OperatorNot.operate_unary")
def _(c):
    c.bound = BOUND_SHAPES
    for L, R in itertools.product(BL, BR):
        c.scenario(f"{'.'.join(L) or '-'}|{'.'.join(R) or '-'}", (lambda L, R: lambda b: dict(args=[b.obj(OPS + "OperatorNot"), mk_tokens(b, L, R)]))(L, R))
    c.ensures("cfg(tokens) == (old(cfg(tokens))[0], [('A', not bool(old(cfg(tokens))[1][0][1]))] + old(cfg(tokens))[1][1:])", "negates-the-following-operand")
    c.raises("not (len(cfg(tokens)[1]) > 0 and cfg(tokens)[1][0][0] == 'A')", label="missing-operand-is-an-error")
    c.modifies("tokens.left[]", "tokens.right[]")


FUNC_CLASSES = {"OperatorPar": "x", "OperatorExp": "E ** x", "OperatorLog": "ln(x)", "OperatorLog10": "log10(x)", "OperatorSqrt": "sqrt(x)",
                "OperatorSin": "sin(x)", "OperatorCos": "cos(x)", "OperatorTan": "tan(x)", "OperatorLogb": "ln(x) / ln(y)", "OperatorPowb": "x ** y"}

for cls, formula in FUNC_CLASSES.items():
    @contract(f"{OPS}{cls}.operate_args", ["C01"], name=f"{cls}.operate_args")
    def _(c, cls=cls, formula=formula):
        c.bound = BOUND_SHAPES
        c.assume_nonzero_divisors = True
        two = cls in ("OperatorLogb", "OperatorPowb")
        for L, R in itertools.product([[], ["A"], ["A", "OperatorMul"]], [[], ["A"], ["OperatorAdd", "A"]]):
            def pre(b, L=L, R=R):
                args = [b.obj(ATOM, value=b.real("x"))] + ([b.obj(ATOM, value=b.real("y"))] if two else [])
                op = b.obj(OPS + cls, args=b.list(args))
                return dict(args=[op, mk_tokens(b, L, R)], env=dict(x=args[0].id and b.getattr(args[0], "value"), y=(b.getattr(args[1], "value") if two else None)))
            c.scenario(f"{'.'.join(L) or '-'}|{'.'.join(R) or '-'}", pre)
        if cls == "OperatorPowb":
            c.requires("x > 0")
        c.ensures(f"cfg(tokens) == (old(cfg(tokens))[0] + [('A', {formula})], old(cfg(tokens))[1])", "replaced-by-the-function-of-its-arguments")
        c.no_raise()
        c.modifies("tokens.left[]")


# ---- Tokens.operate: the step applied left to right ---------------------------------------------------------
@spec
def run_binary(G, formula, L, R):
    """fold of the BINARY step over the pending queue; 'error' when an operand is missing"""
    while len(R) > 0:
        t = R[0]
        R = R[1:]
        if t[0] == 'O' and t[1] in G:
            if not both_atoms(L, R):
                return 'error'
            L = L[:-1] + [('A', formula(t[1], L[-1][1], R[0][1]))]
            R = R[1:]
        else:
            L = L + [t]
    return L


@spec
def run_signs(L, R):
    while len(R) > 0:
        t = R[0]
        R = R[1:]
        if t == ('O', 'OperatorAdd') or t == ('O', 'OperatorSub'):
            LR = sign_step(t[1], L, R)
            L = LR[0]
            R = LR[1]
        else:
            L = L + [t]
    return L


@spec
def arith(name, a, b):
    return a + b if name == 'OperatorAdd' else (a - b if name == 'OperatorSub' else (a * b if name == 'OperatorMul' else a / b))


def _kind_seqs(alphabet, maxlen):
    out = []
    for n in range(0, maxlen + 1):
        out += [list(x) for x in itertools.product(alphabet, repeat=n)]
    return out


@contract(f"{TOK}.operate", ["C01"], name="Tokens.operate[unary-signs]")
def _(c):
    c.bound = "all sequences of at most 4 tokens over {atom, +, -, *}; atom values symbolic"
    for seq in _kind_seqs(["A", "OperatorAdd", "OperatorSub", "OperatorMul"], 4 if TIER != "thorough" else 5):
        def pre(b, seq=seq):
            t = mk_tokens(b, [], seq)
            return dict(args=[t, (b.cls(OPS + "OperatorAdd"), b.cls(OPS + "OperatorSub")), b.getattr(b.cls(OPS + "Otype"), "UNARY")])
        c.scenario(".".join(x.replace("Operator", "") for x in seq) or "empty", pre)
    c.ensures("cfg(self) == ([], run_signs([], old(cfg(self))[1]))", "signs-resolved-left-to-right")
    c.ensures("len(self.left) == 0", "processed-buffer-handed-over")
    c.no_raise()
    c.modifies("self.left", "self.right", "self.left[]", "self.right[]")


for group, names in (("additive", ("OperatorAdd", "OperatorSub")), ("multiplicative", ("OperatorMul", "OperatorTruediv"))):
    @contract(f"{TOK}.operate", ["C01"], name=f"Tokens.operate[binary-{group}]")
    def _(c, names=names):
        c.bound = "all sequences of at most 5 tokens over {atom, two operators of the step, one other operator}; atom values symbolic"
        c.assume_nonzero_divisors = True
        other = "OperatorLt"
        for seq in _kind_seqs(["A", names[0], names[1], other], 4 if TIER != "thorough" else 5):
            def pre(b, seq=seq):
                t = mk_tokens(b, [], seq)
                return dict(args=[t, (b.cls(OPS + names[0]), b.cls(OPS + names[1])), b.getattr(b.cls(OPS + "Otype"), "BINARY")], env=dict(G=list(names)))
            c.scenario(".".join(x.replace("Operator", "") for x in seq) or "empty", pre)
        c.ensures("cfg(self) == ([], run_binary(G, arith, [], old(cfg(self))[1]))", "operators-of-the-step-applied-left-to-right")
        c.raises("run_binary(G, arith, [], cfg(self)[1]) == 'error'", label="missing-operand-is-an-error")
        c.modifies("self.left", "self.right", "self.left[]", "self.right[]")


# ---- whole expressions --------------------------------------------------------------------------------------
NAMES = ["a", "b", "d", "f"]


@spec
def ev(e, env):
    """value of a reference AST (documented order is already in the tree shape)"""
    k = e[0]
    if k == 'num':
        return env[e[1]]
    if k == 'par' or k == 'pos':
        return ev(e[1], env)
    if k == 'neg':
        return -ev(e[1], env)
    if k == 'not':
        return not bool(ev(e[1], env))
    if k == 'fn':
        x = ev(e[2], env)
        if e[1] == 'sin':
            return sin(x)
        if e[1] == 'cos':
            return cos(x)
        if e[1] == 'tan':
            return tan(x)
        if e[1] == 'sqrt':
            return sqrt(x)
        if e[1] == 'exp':
            return E ** x
        if e[1] == 'log':
            return ln(x)
        if e[1] == 'log10':
            return log10(x)
        y = ev(e[3], env)
        if e[1] == 'pow':
            return x ** y
        return ln(x) / ln(y)
    a = ev(e[2], env)
    b = ev(e[3], env)
    o = e[1]
    if o == '+':
        return a + b
    if o == '-':
        return a - b
    if o == '*':
        return a * b
    if o == '/':
        return a / b
    if o == '**':
        return a ** b
    if o == '==':
        return a == b
    if o == '!=':
        return a != b
    if o == '<':
        return a < b
    if o == '>':
        return a > b
    if o == '<=':
        return a <= b
    if o == '>=':
        return a >= b
    if o == '&&':
        return ite(bool(a), b, a)      # Python's `a and b`
    return ite(bool(a), a, b)          # Python's `a or b`


SEQS = R.gen_token_sequences(NAMES, TIER)


def _solve_pre(text, ast=None):
    def pre(b):
        env = {n: b.real(n) for n in NAMES}
        b.symbolic_literals(env)
        es = b.new(ES, b.cls(ATOM))
        return dict(args=[es, b.text(text, env)], env=dict(env=b.dict(env), ast=ast, es=es))
    return pre


def _chunks(seq, n):
    k = (len(seq) + n - 1) // n
    return [seq[i * k:(i + 1) * k] for i in range(n) if seq[i * k:(i + 1) * k]]


for ci, chunk in enumerate(_chunks(SEQS, 12)):
    @contract(f"{ES}.solve", ["C01", "C02"], name=f"ExpressionSolver.solve[well-formed-{ci}]")
    def _(c, chunk=chunk, ci=ci):
        c.bound = BOUND_SEQ
        c.assume_nonzero_divisors = True
        rng = random.Random(ci)
        for toks, ast in chunk:
            for blanks in ((0, 1) if R.safe_adjacent(toks) else (1,)):
                text = R.render(toks, rng if blanks else None, blanks)
                c.scenario(text, _solve_pre(text, ast))
        c.requires("all([env[n] > 0 for n in env])")
        c.ensures("typename(result) == 'AtomBase' and result.value == ev(ast, env)", "value-of-the-documented-evaluation-order")
        c.no_raise()
        c.modifies("self.expr", "self.tokens.left", "self.tokens.right", "self.tokens.left[]", "self.tokens.right[]")   # nothing else is carried from one solve to the next


# ---- values outside the real numbers: the proofs above read floats as reals, so infinities and not-a-number operands (which well-formed
#      expressions over plain numbers do produce: 10**308*10 overflows, inf - inf is not a number) are covered by ground evaluation of
#      concrete texts; expected values are those of IEEE-754 / Python applied in the documented order ---------------------------------------
INF = "10**308*10"
NAN = "(10**308*10 - 10**308*10)"
SPECIAL = [(f"{NAN} <= 1", False), (f"{NAN} >= 1", False), (f"1 <= {NAN}", False), (f"1 >= {NAN}", False), (f"{NAN} < 1", False), (f"{NAN} > 1", False),
           (f"{NAN} == {NAN}", False), (f"{NAN} != 1", True), (f"{NAN}<=1", False), (f"!({NAN} <= 1)", True), (f"!({NAN} >= 1)", True),
           (f"{NAN} <= 1 || 1 > 2", False), (f"2 < 3 && {NAN} >= 0", False), (f"{INF} > 1", True), (f"{INF} >= {INF}", True), (f"{INF} <= {INF}", True),
           (f"{INF} <= 1", False), (f"1 >= {INF}", False), (f"0 - {INF} < 1", True), (f"0 - {INF} <= 0 - {INF}", True), (f"{INF} == {INF}", True),
           (f"{INF} < {INF}", False), (f"{INF} > {INF}", False), (f"1 / ({INF}) == 0", True), (f"({NAN} >= 1) + 1", 1.0)]


@contract(f"{ES}.solve", ["C01"], name="ExpressionSolver.solve[infinite-and-not-a-number-operands]")
def _(c):
    c.bound = f"{len(SPECIAL)} concrete texts whose intermediate values overflow to infinity or are not a number (ground evaluation)"
    for text, want in SPECIAL:
        c.scenario(text, (lambda text, want: lambda b: dict(args=[b.new(ES, b.cls(ATOM)), text], env=dict(want=want)))(text, want))
    c.ensures("typename(result) == 'AtomBase' and result.value == want", "value-of-the-documented-evaluation-order")
    c.no_raise()


@contract(f"{ES}.solve", ["C01", "C02"], name="ExpressionSolver.solve[ill-formed]")
def _(c):
    c.bound = "the listed single-defect strings (unbalanced parentheses, wrong argument count, missing operand)"
    for toks in R.ill_formed(NAMES):
        text = R.render(toks, None, 1)
        c.scenario(text.strip() or "<empty>", _solve_pre(text))
    c.requires("all([env[n] > 0 for n in env])")   # a negative numeral in place of a name would change the shape of the text
    c.raises("True", label="rejected-with-an-error")
    c.modifies("self.expr", "self.tokens.left", "self.tokens.right", "self.tokens.left[]", "self.tokens.right[]")   # nothing else is carried from one solve to the next


@contract(f"{ES}.solve", ["C01", "C02"], name="ExpressionSolver.solve[division-by-zero]")
def _(c):
    c.bound = "expressions whose evaluation divides by zero (literal zero, a difference that vanishes), at top level and inside parentheses"
    for text in ["1/0", "a / 0", "2*(3/(1-1))+1", "a / (b - b)", "(a + b) / (d * 0)"]:
        c.scenario(text, _solve_pre(text))
    c.requires("all([env[n] > 0 for n in env])")
    c.raises("True", label="refused-with-an-error")
    c.modifies("self.expr", "self.tokens.left", "self.tokens.right", "self.tokens.left[]", "self.tokens.right[]")   # and nothing process-wide (numpy's error mode included)


# C02: whatever an earlier solve left in the instance (any tokens in either buffer, any previous expression) has
# no influence on the outcome.  The pre-state below is an arbitrary "dirty" instance.
JUNK = [([], []), (["A"], []), ([], ["A"]), (["A", "OperatorAdd"], ["A"]), (["OperatorPar"], ["OperatorMul", "A"]), (["A", "A"], ["A", "A"]),
        (["N"], ["OperatorSub"]), (["OperatorNot", "A", "OperatorLt"], ["OperatorAnd"])]
C02_EXPRS = [(t, a) for (t, a) in SEQS if len(t) <= 6][:: (7 if TIER != "thorough" else 2)]


def _dirty_pre(text, ast, L, Rj):
    def pre(b):
        env = {n: b.real(n) for n in NAMES}
        b.symbolic_literals(env)
        es = b.new(ES, b.cls(ATOM))
        tk = b.getattr(es, "tokens")
        left = b.getattr(tk, "left")
        right = b.getattr(tk, "right")
        for i, k in enumerate(L):
            b.call(b.getattr(left, "append"), mk_token(b, k, f"jl{i}"))
        for i, k in enumerate(Rj):
            b.call(b.getattr(right, "append"), mk_token(b, k, f"jr{i}"))
        return dict(args=[es, b.text(text, env)], env=dict(env=b.dict(env), ast=ast))
    return pre


@contract(f"{ES}.solve", ["C01", "C02"], name="ExpressionSolver.solve[after-arbitrary-history]")
def _(c):
    c.bound = BOUND_SEQ + "; buffers at entry hold one of 8 leftover token patterns with symbolic values"
    c.assume_nonzero_divisors = True
    for i, (toks, ast) in enumerate(C02_EXPRS):
        L, Rj = JUNK[i % len(JUNK)]
        text = R.render(toks, None, 1)
        c.scenario(f"{text.strip()} after {'.'.join(L) or '-'}|{'.'.join(Rj) or '-'}", _dirty_pre(text, ast, L, Rj))
    c.requires("all([env[n] > 0 for n in env])")
    c.ensures("typename(result) == 'AtomBase' and result.value == ev(ast, env)", "same-value-as-a-fresh-instance")
    c.no_raise()
    c.modifies("self.expr", "self.tokens.left", "self.tokens.right", "self.tokens.left[]", "self.tokens.right[]")   # nothing else is carried from one solve to the next


# the same from instances that really solved something before (successfully or not), with the caller keeping and editing
# an earlier result, and with the atoms' values changed in between
HISTORIES = [("bare-atom-result-edited", ["a"], True), ("sum-then-product", ["a + b", "b"], True), ("failed-part-way", ["a < b +", "a * (b + d"], False),
             ("failed-then-succeeded", ["f * sin(a, b)", "a"], True), ("same-expression-before", None, False),
             ("same-expression-before-result-edited", None, True)]


def _history_pre(text, ast, hist, edit):
    def pre(b):
        env = {n: b.real(n) for n in NAMES}
        b.symbolic_literals(env)
        es = b.new(ES, b.cls(ATOM))
        for h in (hist if hist is not None else [text]):
            r, exc = b.call_catching(b.getattr(es, "solve"), b.text(h, env))
            if edit and r is not None and exc is None:
                b.setattr(r, "value", b.add(b.getattr(r, "value"), 1))   # the caller owns the result it was given
        return dict(args=[es, b.text(text, env)], env=dict(env=b.dict(env), ast=ast))
    return pre


@contract(f"{ES}.solve", ["C01", "C02"], name="ExpressionSolver.solve[after-real-solves]")
def _(c):
    c.bound = BOUND_SEQ + "; the instance has solved 1-2 of the listed expressions before (some failing part-way), the caller edited the results"
    c.assume_nonzero_divisors = True
    for i, (toks, ast) in enumerate(C02_EXPRS[::3]):
        name, hist, edit = HISTORIES[i % len(HISTORIES)]
        text = R.render(toks, None, 1)
        c.scenario(f"{text.strip()} after {name}", _history_pre(text, ast, hist, edit))
    c.requires("all([env[n] > 0 for n in env])")
    c.ensures("typename(result) == 'AtomBase' and result.value == ev(ast, env)", "same-value-as-a-fresh-instance")
    c.no_raise()
    c.modifies("self.expr", "self.tokens.left", "self.tokens.right", "self.tokens.left[]", "self.tokens.right[]")   # nothing else is carried from one solve to the next


@contract(f"{ES}.solve", ["C02"], name="ExpressionSolver.solve[ill-formed-after-arbitrary-history]")
def _(c):
    c.bound = "ill-formed strings and strings with an unknown atom, from dirty instances"
    texts = [R.render(t, None, 1) for t in R.ill_formed(NAMES)] + ["zz", "a + zz", "zz * a", "a * (b + zz)", "sin(zz) + a", "pow(a, zz)", "(a + zz) * (b"]
    for i, text in enumerate(texts):
        if text.strip() in ("==", "!="):
            continue
        L, Rj = JUNK[i % len(JUNK)]
        c.scenario(f"{text.strip() or '<empty>'} after {'.'.join(L) or '-'}|{'.'.join(Rj) or '-'}", _dirty_pre(text, None, L, Rj))
    # asked again: the instance solved something, was then given the ill-formed string (refused), and is given it once more
    for i, text in enumerate(texts):
        if text.strip() in ("==", "!=") or i % 3:
            continue
        c.scenario(f"{text.strip() or '<empty>'} asked twice", _history_pre(text, None, ["a + b", text] if i % 2 else [text], False))
    c.requires("all([env[n] > 0 for n in env])")
    c.raises("True", label="same-error-as-a-fresh-instance")
    c.modifies("self.expr", "self.tokens.left", "self.tokens.right", "self.tokens.left[]", "self.tokens.right[]")   # nothing else is carried from one solve to the next


# ---- a solver whose atom type is a factory FUNCTION (the way the unit, DIP and materials solvers configure it): whatever the outcome,
#      a solve writes nothing but the expression and the two token buffers -- nothing learnt from the atoms of one solve is kept for the next
@contract(f"{ES}.solve", ["C02"], name="ExpressionSolver.solve[atom-type-given-as-a-factory-function]")
def _(c):
    c.bound = "the unit parser as atom factory with the default operators; 5 texts (with and without unary signs, one refused part-way), fresh and used instances"
    texts = ["-m", "m*-s", "m*s", "m * s +", "+m*s"]
    for i, text in enumerate(texts):
        for hist in ([], [texts[(i + 1) % len(texts)], texts[(i + 2) % len(texts)]]):
            def pre(b, text=text, hist=hist):
                es = b.new(ES, b.glob("units/unit_solver.py::AtomParser"))
                for h in hist:
                    b.call_catching(b.getattr(es, "solve"), h)
                fresh = b.new(ES, b.glob("units/unit_solver.py::AtomParser"))
                r, exc = b.call_catching(b.getattr(fresh, "solve"), text)
                return dict(args=[es, text], env=dict(fresh_raises=exc is not None, fresh=r))
            c.scenario(f"{text} {'after ' + ' , '.join(hist) if hist else 'fresh'}", pre)
    c.raises("fresh_raises", label="raises-iff-a-fresh-instance-raises")
    c.ensures("str(result) == str(fresh)", "same-value-as-a-fresh-instance")
    c.modifies("self.expr", "self.tokens.left", "self.tokens.right", "self.tokens.left[]", "self.tokens.right[]")   # nothing else is carried from one solve to the next


# ---- tables ----------------------------------------------------------------------------------------------------
DOC_STEPS, DOC_ABBR = R.read_doc_tables()
DOC_KIND = {"parenthesis": "ARGS", "unary": "UNARY", "binary": "BINARY"}


@spec
def proper_prefix_before(symbols):
    """an earlier symbol that is a proper prefix of a later one would shadow it (first match wins)"""
    return [(symbols[i], symbols[j]) for i in range(len(symbols)) for j in range(i + 1, len(symbols))
            if symbols[j].startswith(symbols[i]) and symbols[j] != symbols[i]]


@contract(f"{ES}.__init__", ["C01", "C02"], name="ExpressionSolver.__init__[default-tables]")
def _(c):
    c.scenario("defaults", lambda b: dict(args=[b.obj(ES), b.cls(ATOM)], env=dict(doc=[(DOC_KIND[t], n) for t, n in DOC_STEPS])))
    c.ensures("[(s['otype'].name, list(s['operators'])) for s in self.steps] == [(k, list(n)) for k, n in doc]", "step-table-equals-the-documented-one")
    c.ensures("sorted(self.operators.keys()) == sorted(set([n for k, ns in doc for n in ns]))", "operator-set-equals-the-documented-one")
    c.ensures("proper_prefix_before([o.symbol for o in self.operators.values()]) == []", "symbol-table-is-prefix-safe")
    c.ensures("len(self.tokens.left) == 0 and len(self.tokens.right) == 0", "token-buffers-empty")
    c.no_raise()
