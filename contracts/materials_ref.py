"""Independent reading of the isotope table and of the formula notation (C10-C12), written from the
property statement: per-species data (N = A - Z, electrons = Z + charge number, mass = isotope mass + charge
number * electron mass; natural = abundance-weighted mean, abundant = most abundant isotope) and a formula
expander (structural recursion over element terms, counts, nested groups with multipliers)."""
import random

from scinumtools.materials.periodic_table import PT_DATA
from contracts import unitdata as U

ME_DA = U.UNITS["[m_e]"]["factor"] / U.UNITS["Da"]["factor"]
NUCLEON = {"[p]": ("[m_p]", 1, 0, 0), "[n]": ("[m_n]", 0, 1, 0), "[e]": ("[m_e]", 0, 0, 1)}


def species(expr, natural=True):
    """(mass in Da, Z, N, e) of one species given as symbol + optional {isotope}{charge} suffix"""
    if expr in NUCLEON:
        u, z, n, e = NUCLEON[expr]
        return (U.UNITS[u]["factor"] / U.UNITS["Da"]["factor"], z, n, e)
    sym, iso, ion = expr, None, 0
    if "{" in expr:
        sym, suf = expr[:-1].split("{")
        k = 0
        while k < len(suf) and suf[k].isdigit():
            k += 1
        iso = int(suf[:k]) if k else None
        rest = suf[k:]
        if rest:
            ion = int(rest) if len(rest) > 1 else (1 if rest == "+" else -1)
    if sym == "D":
        sym, iso = "H", 2
    elif sym == "T":
        sym, iso = "H", 3
    Z, isotopes = PT_DATA[sym]

    def one(A):
        M, ab = isotopes[str(A)]
        return (M + ion * ME_DA, Z, A - Z, Z + ion, ab)
    if iso:
        m, z, n, e, _ = one(iso)
        return (m, z, n, e)
    rows = [one(int(A)) for A in isotopes]
    if natural:
        w = sum(r[4] for r in rows)
        return tuple(sum(r[i] * r[4] for r in rows) / w for i in range(4))
    best = max(range(len(rows)), key=lambda i: (rows[i][4], -i))
    return rows[best][:4]


def render(items):
    out = ""
    for it in items:
        if it[0] == "el":
            _, expr, count = it
            out += expr + ("" if count == 1 else str(count))
        else:
            _, sub, mult = it
            out += "(" + render(sub) + ")" + ("" if mult == 1 else str(mult))
    return out


def expand(items, mult=1, acc=None):
    acc = {} if acc is None else acc
    for it in items:
        if it[0] == "el":
            _, expr, count = it
            acc[expr] = acc.get(expr, 0) + count * mult
        else:
            _, sub, m = it
            expand(sub, mult * m, acc)
    return acc


ELS = ["H", "O", "C", "N", "Na", "Cl", "Ca", "S", "Fe", "He", "U", "Si", "Al", "K", "Mg", "P"]
VARIANTS = ["O{17}", "O{17-2}", "H{+}", "H{-}", "Fe{+3}", "Fe{56+2}", "C{13}", "C{14-1}", "D", "T", "[p]", "[n]", "[e]", "He{3}", "Cl{-}", "Na{+}", "U{235}"]


def formulas(tier, seed=3):
    rng = random.Random(seed)
    E = lambda e, c=1: ("el", e, c)
    G = lambda sub, m=1: ("grp", sub, m)
    fixed = [
        [E("H", 2), E("O")], [E("Na"), E("Cl")], [E("C"), E("O", 2)], [E("H", 2), E("S"), E("O", 4)], [E("Ca"), G([E("O"), E("H")], 2)],
        [G([E("N"), E("H", 4)], 2), E("S"), E("O", 4)], [G([E("N"), E("H", 4)], 2), G([E("S"), E("O", 4)])], [G([E("H", 2), E("O")], 2), G([E("C"), E("O", 2)], 3)],
        [E("Al", 2), G([E("S"), E("O", 4)], 3)], [E("Fe"), G([E("C"), E("N")], 6)], [E("K", 4), E("Fe"), G([E("C"), E("N")], 6)],
        [G([G([E("C"), E("H", 3)], 2), E("N")], 2), E("H")], [G([E("C"), E("H", 2)], 12)], [E("H"), E("H"), E("O")], [E("C", 6), E("H", 12), E("O", 6)],
        [E("D", 2), E("O")], [E("T"), E("H"), E("O")], [E("O{17}"), E("H", 2)], [E("H{+}"), E("Cl{-}")], [E("Fe{+2}"), E("Fe{+3}", 2), E("O", 4)],
        [E("[p]"), E("[e]")], [E("[n]", 2), E("[p]", 2)], [E("U{235}"), E("O", 2)], [E("He{3}"), E("He")], [E("C{13}"), E("O{17-2}", 2)],
        [E("Na"), G([E("O"), E("H")])], [G([E("Na"), E("Cl")])], [G([G([E("H", 2), E("O")])])], [E("Mg"), G([E("O"), E("H")], 2), G([E("H", 2), E("O")], 6)],
        [E("O")], [E("Fe", 10)], [G([E("O", 2)], 10)], [E("H{+}"), E("H{-}"), E("H")], [E("Cl"), E("Cl{-}", 2), E("Cl{+}")], [E("Na{+}"), G([E("Na"), E("Na{-}")], 2)],
    ]
    n = 40 if tier != "thorough" else 600
    out = list(fixed)
    for _ in range(n):
        def item(depth):
            if depth < 2 and rng.random() < 0.3:
                return G([item(depth + 1) for _ in range(rng.randint(1, 3))], rng.choice([1, 2, 3, 4]))
            return E(rng.choice(ELS + VARIANTS if rng.random() < 0.4 else ELS), rng.choice([1, 1, 2, 3, 12]))
        out.append([item(0) for _ in range(rng.randint(1, 4))])
    seen, res = set(), []
    for f in out:
        t = render(f)
        if t not in seen:
            seen.add(t)
            res.append(f)
    return res
