"""C14 (last assignment wins), C16 (constraints), C18 (comparison semantics) -- value-level functions of the DIP
nodes and data types under contract, numeric values symbolic."""
import itertools

from pyvc.contract import contract, spec, lemma

FN = "dip/nodes/node_float.py::FloatNode"
IN = "dip/nodes/node_integer.py::IntegerNode"
SN = "dip/nodes/node_string.py::StringNode"
BN = "dip/nodes/node_boolean.py::BooleanNode"
MN = "dip/nodes/node_mod.py::ModNode"
FT = "dip/datatypes/type_float.py::FloatType"
IT = "dip/datatypes/type_integer.py::IntegerType"
ST = "dip/datatypes/type_string.py::StringType"
BT = "dip/datatypes/type_boolean.py::BooleanType"
NT = "dip/datatypes/type_number.py::NumberType"
OPT = "dip/nodes/node_select.py::Option"
ENV = "dip/environment.py::Environment"
BOUND = "the listed raw texts / option counts <= 3 (numeric values symbolic)"
PREC = 1e-6


@spec
def absv(x):
    return x if x >= 0 else -x


def fnode(b, unit="cm", **kw):
    d = dict(code="x float", name="x", keyword="float", units_raw=unit, precision=64, options=b.list([]), value_raw=None, dtype_prop=b.list([None]), value=None)
    d.update(kw)
    return b.obj(FN, **d)


def inode(b, unit=None, **kw):
    d = dict(code="x int", name="x", keyword="int", units_raw=unit, precision=32, unsigned=False, options=b.list([]), value_raw=None, dtype_prop=b.list([None, None]), value=None)
    d.update(kw)
    return b.obj(IN, **d)


# ---- set_value: every value of the type is kept (zero, negatives, false, empty string) -----------------------
@contract(FN + ".set_value", ["C14"], name="FloatNode.set_value")
def _(c):
    c.scenario("value", lambda b: dict(args=[fnode(b), b.real("v")]))
    c.ensures("self.value is not None and self.value.value == value and self.value.unit == self.units_raw", "value-kept-for-every-number")
    c.no_raise()
    c.modifies("self.value")


@contract(IN + ".set_value", ["C14"], name="IntegerNode.set_value")
def _(c):
    c.scenario("value", lambda b: dict(args=[inode(b, unit="m"), b.int("v")]))
    c.ensures("self.value is not None and self.value.value == value and self.value.unit == self.units_raw", "value-kept-for-every-integer")
    c.no_raise()
    c.modifies("self.value")


@contract(BN + ".set_value", ["C14"], name="BooleanNode.set_value")
def _(c):
    c.scenario("value", lambda b: dict(args=[b.obj(BN, code="x bool", name="x", keyword="bool", value_raw=None, value=None), b.bool("v")]))
    c.ensures("self.value is not None and self.value.value == value", "true-and-false-kept")
    c.no_raise()
    c.modifies("self.value")


@contract(SN + ".set_value", ["C14"], name="StringNode.set_value")
def _(c):
    c.scenario("value", lambda b: dict(args=[b.obj(SN, code="x str", name="x", keyword="str", value_raw=None, value=None, options=b.list([])), b.str("v")]))
    c.ensures("self.value is not None and self.value.value == value", "every-text-kept-including-the-empty-one")
    c.no_raise()
    c.modifies("self.value")


@contract(SN + ".set_value", ["C13", "C14"], name="StringNode.set_value[from-raw-text]")
def _(c):
    c.bound = BOUND
    for raw in ["", "x", "two words", "none"]:
        c.scenario(repr(raw), (lambda raw: lambda b: dict(args=[b.obj(SN, code="x str", name="x", keyword="str", value_raw=raw, value=None, options=b.list([]), dimension=None, value_slice=None)], env=dict(raw=raw)))(raw))
    c.ensures("self.value is not None and self.value.value == (None if raw == 'none' else raw)", "literal-text-kept")
    c.no_raise()


# ---- modify_value -----------------------------------------------------------------------------------------------
LEN = {"m": 1.0, "cm": 0.01, "mm": 0.001, "km": 1000.0}
MODS = [("0", 0.0), ("-3.5", -3.5), ("250", 250.0), ("1e3", 1000.0), ("none", None), ("0.0", 0.0)]


@contract("dip/nodes/node_base.py::BaseNode.modify_value", ["C14"], name="BaseNode.modify_value[float]")
def _(c):
    c.bound = BOUND
    c.chunk = 6
    for (raw, val), u0, u1 in itertools.product(MODS, ["cm", "m"], [None, "mm", "km", "cm"]):
        if val is None and u1 is not None:
            continue

        def pre(b, raw=raw, val=val, u0=u0, u1=u1):
            env = b.new(ENV)
            old = b.new(FT, b.real("old"), u0)
            node = fnode(b, unit=u0, value=old, value_raw="1", dimension=None, value_slice=None)
            mod = b.obj(MN, code="x = " + raw, name="x", keyword="mod", value_raw=raw, units_raw=u1, dtype=None)
            want = None if val is None else val * LEN[u1 or u0] / LEN[u0]
            return dict(args=[node, mod, env], env=dict(want=want, u0=u0))
        c.scenario(f"{u0}: = {raw} {u1 or ''}".strip(), pre)
    c.ensures("self.value is not None and self.value.unit == u0 and ((self.value.value is None) if want is None else absv(self.value.value - want) <= absv(want) / 1000000000000)",
              "last-assigned-value-in-the-definition-unit")
    c.ensures("typename(self.value) == 'FloatType'", "type-of-the-definition")
    c.no_raise()


@contract("dip/nodes/node_base.py::BaseNode.modify_value", ["C14"], name="BaseNode.modify_value[refused]")
def _(c):
    c.bound = BOUND

    def other_dim(b):
        node = fnode(b, unit="cm", value=b.new(FT, 1.0, "cm"), value_raw="1", dimension=None, value_slice=None)
        return dict(args=[node, b.obj(MN, code="x = 2 s", name="x", keyword="mod", value_raw="2", units_raw="s", dtype=None), b.new(ENV)])

    def other_type(b):
        node = fnode(b, unit="cm", value=b.new(FT, 1.0, "cm"), value_raw="1", dimension=None, value_slice=None)
        return dict(args=[node, inode(b, unit="cm", value_raw="2", code="x int = 2 cm"), b.new(ENV)])
    c.scenario("unit-of-another-dimension", other_dim)
    c.scenario("another-data-type", other_type)
    c.raises("True", label="refused")


# ---- options --------------------------------------------------------------------------------------------------
@contract("dip/nodes/node_select.py::SelectNode.validate_options", ["C16"], name="SelectNode.validate_options")
def _(c):
    c.bound = BOUND
    for k in range(0, 4):
        def pre(b, k=k):
            opts = [b.obj(OPT, value=b.new(FT, b.real(f"o{i}"), "cm"), value_raw="", units_raw="cm") for i in range(k)]
            node = fnode(b, value=b.new(FT, b.real("v"), "cm"), options=b.list(opts))
            return dict(args=[node], env=dict(os=[b.getattr(b.getattr(o, "value"), "value") for o in opts], v=b.getattr(b.getattr(node, "value"), "value")))
        c.scenario(f"{k}-options", pre)
    c.ensures("result == True", "accepted")
    c.raises("len(os) > 0 and not any([absv(o - v) <= 1 / 100000000 + absv(v) / 1000000 for o in os])", label="refused-iff-no-option-equals-the-value")
    c.modifies()


# ---- comparisons of numbers (same unit): tolerant equality, strict order -------------------------------------
for opname, formula in (("__eq__", "absv(a - b) <= 1 / 100000000 + absv(b) / 1000000"), ("__lt__", "a < b"), ("__gt__", "a > b"), ("__ne__", "a != b"),
                        ("__le__", "a < b or absv(a - b) <= 1 / 100000000 + absv(b) / 1000000"), ("__ge__", "a > b or absv(a - b) <= 1 / 100000000 + absv(b) / 1000000")):
    @contract(f"{NT}.{opname}", ["C16", "C18"], name=f"NumberType.{opname}[floats-same-unit]")
    def _(c, formula=formula, opname=opname):
        c.scenario("cm-cm", lambda b: dict(args=[b.new(FT, b.real("a"), "cm"), b.new(FT, b.real("b"), "cm")], env=dict(a=None, b=None)))
        c.scenario("no-unit", lambda b: dict(args=[b.new(FT, b.real("a"), None), b.new(FT, b.real("b"), None)], env=dict(a=None, b=None)))
        c.ensures(f"(lambda a, b, r: (bool(r) if typename(r) != 'BooleanType' else r.value) == ({formula}))(self.value, other.value, result)", "documented-comparison")
        c.no_raise()


@contract(f"{NT}.__eq__", ["C16", "C18"], name="NumberType.__eq__[other-unit]")
def _(c):
    c.bound = "unit pairs cm/mm, m/km, kg/g (values symbolic)"
    for ua, ub, f in [("cm", "mm", 10.0), ("m", "km", 0.001), ("kg", "g", 1000.0)]:
        c.scenario(f"{ua}-{ub}", (lambda ua, ub, f: lambda b: dict(args=[b.new(FT, b.real("a"), ua), b.new(FT, b.real("b"), ub)], env=dict(f=f, a0=None)))(ua, ub, f))
    c.ensures("bool(result) == (absv(old(self.value) * f - other.value) <= 1 / 100000000 + absv(other.value) / 1000000)", "left-operand-converted-to-the-right-operand's-unit-before-comparing")
    c.no_raise()


# ---- logical operators of the DIP solver on typed booleans -----------------------------------------------------
LS = "dip/solvers/logical_solver.py::"
TOK = "solver/tokens.py::Tokens"


def btokens(b, left, right):
    mk = lambda n: b.new(BT, b.bool(n))
    return b.obj(TOK, atom=None, left=b.list([mk(x) for x in left]), right=b.list([mk(x) for x in right]))


for cls, formula in (("CustomAnd", "a and b"), ("CustomOr", "a or b")):
    @contract(f"{LS}{cls}.operate_binary", ["C18"], name=f"{cls}.operate_binary")
    def _(c, formula=formula, cls=cls):
        c.scenario("typed-booleans", lambda b: dict(args=[b.obj(LS + cls), btokens(b, ["a"], ["b"])]))
        c.ensures(f"len(tokens.left) == 1 and len(tokens.right) == 0 and tokens.left[0].value == (lambda a, b: {formula})(old(tokens.left[0].value), old(tokens.right[0].value))", "truth-table")
        c.no_raise()


@contract(f"{LS}CustomEq.operate_binary", ["C18", "C16"], name="CustomEq.operate_binary")
def _(c):
    def pre(b):
        t = b.obj(TOK, atom=None, left=b.list([b.new(FT, b.real("a"), "cm")]), right=b.list([b.new(FT, b.real("b"), "cm")]))
        return dict(args=[b.obj(LS + "CustomEq"), t])
    c.scenario("floats", pre)
    c.ensures("typename(tokens.left[0]) == 'BooleanType' and tokens.left[0].value == (absv(old(tokens.left[0].value) - old(tokens.right[0].value)) <= 1 / 100000000 + absv(old(tokens.right[0].value)) / 1000000)", "typed-boolean-with-1e-6-relative-tolerance")
    c.no_raise()


@contract(f"{LS}CustomNot.operate_unary", ["C18"], name="CustomNot.operate_unary")
def _(c):
    c.scenario("typed-boolean", lambda b: dict(args=[b.obj(LS + "CustomNot"), btokens(b, [], ["a"])]))
    c.ensures("tokens.right[0].value == (not old(tokens.right[0].value))", "negation")
    c.no_raise()
