"""C10 (formula -> atoms), C11 (fractions), C12 (densities) for the materials calculator.

Formulas are concrete strings from an enumerated grammar (bounded structure); proportions, multipliers,
densities and volumes are symbolic where the property quantifies over them."""
import os

from pyvc.contract import contract, spec, lemma
from contracts import materials_ref as M
from contracts import unitdata as U

TIER = os.environ.get("PYVC_TIER", "quick")
SUB = "materials/substance.py::Substance"
EL = "materials/element.py::Element"
MAT = "materials/material.py::Material"
QTY = "units/quantity.py::Quantity"
BOUND = "formulas of the enumerated grammar (32 fixed + seeded random formulas: nesting <= 3, 1-4 items, counts 1-12, isotope/charge suffixes, nucleons)"
NORM = "materials/__init__.py::Norm"


@spec
def absv(x):
    return x if x >= 0 else -x


@spec
def near(a, b):
    return absv(a - b) <= (absv(b) + 1 / 1000000000000) / 1000000000


@spec
def counts(s):
    return {k: c.proportion for k, c in s.components.items()}


# ---- per-species data ------------------------------------------------------------------------------------------
SPECIES = M.ELS + M.VARIANTS + ["He{4}", "H{1}", "H{2}", "H{3-1}", "O{16+2}", "Pb", "Au", "W", "Xe",
                                # charges of two and more digits, with and without an isotope number
                                "Fe{56-10}", "Fe{56+26}", "U{238-28}", "Xe{132+12}", "U{-92}", "Fe{+26}", "Pb{208+82}", "O{16-2}", "C{12+6}",
                                # elements whose symbol begins like the hydrogen aliases D and T, with every suffix form
                                "Ti", "Ti{48}", "Th{232}", "Dy{164}", "Tl{-}", "Te{+2}", "Ta{181+3}", "Tb{159}", "Tm{+3}", "Tc{98}", "D{+}", "T{3-1}", "D{2}", "DT" if False else "D"]


@contract(f"{EL}.__init__", ["C10"], name="Element.__init__")
def _(c):
    c.bound = "the listed species (symbols with every suffix form, D, T, nucleons), natural and most-abundant mode; proportion symbolic"
    c.chunk = 6
    for nat in (True, False):
        for expr in SPECIES:
            def pre(b, expr=expr, nat=nat):
                return dict(args=[b.obj(EL), expr, b.real("p")], kwargs=dict(natural=nat), env=dict(want=M.species(expr, nat)))
            c.scenario(f"{expr}[{'natural' if nat else 'abundant'}]", pre)
    c.ensures("near(self.mass.value('Da'), want[0])", "mass-is-isotope-mass-plus-charge-number-electron-masses")
    c.ensures("near(self.Z, want[1]) and near(self.N, want[2]) and near(self.e, want[3])", "Z-N-e-from-the-isotope-table")
    c.ensures("self.proportion == proportion and self.expr == expr", "keeps-expression-and-proportion")
    c.no_raise()


# ---- formulas -----------------------------------------------------------------------------------------------------
FORMULAS = M.formulas(TIER)


def _sums(cnt, nat):
    tot = [0.0, 0.0, 0.0, 0.0]
    for k, n in cnt.items():
        sp = M.species(k, nat)
        for i in range(4):
            tot[i] += n * sp[i]
    return tot


@contract(f"{SUB}.__init__", ["C10"], name="Substance.__init__[formula]")
def _(c):
    c.bound = BOUND
    c.chunk = 4
    for f in FORMULAS:
        text = M.render(f)
        for nat in ((True, False) if (len(text) < 8 or ('{+' in text or '{-' in text) and len(text) < 20) else (True,)):
            def pre(b, text=text, f=f, nat=nat):
                cnt = M.expand(f)
                return dict(args=[b.obj(SUB), text], kwargs=dict(natural=nat), env=dict(want=dict(cnt), tot=_sums(cnt, nat)))
            c.scenario(f"{text}[{'natural' if nat else 'abundant'}]", pre)
    c.ensures("counts(self) == want", "each-species-with-its-expanded-count")
    c.ensures("(lambda d: near(d['mass'], tot[0]) and near(d['Z'], tot[1]) and near(d['N'], tot[2]) and near(d['e'], tot[3]))(self.data_composite(quantity=False)['sum'].data())", "totals-are-count-weighted-sums")
    c.no_raise()


@contract(f"{SUB}.__init__", ["C10"], name="Substance.__init__[explicit-operators-and-blanks]")
def _(c):
    c.bound = "the listed spellings"
    c.chunk = 4
    E = lambda e, n=1: ("el", e, n)
    for text, f in [("H2 + O", [E("H", 2), E("O")]), ("H * 2 + O", [E("H", 2), E("O")]), ("(H2 + O) * 3", [("grp", [E("H", 2), E("O")], 3)]),
                    ("Na Cl", [E("Na"), E("Cl")]), ("Ca (OH)2", [E("Ca"), ("grp", [E("O"), E("H")], 2)]), ("(NH4)2 (SO4)", [("grp", [E("N"), E("H", 4)], 2), ("grp", [E("S"), E("O", 4)], 1)]),
                    ("C6 H12 O6", [E("C", 6), E("H", 12), E("O", 6)]), ("(H2O)2 + (CO2)3", [("grp", [E("H", 2), E("O")], 2), ("grp", [E("C"), E("O", 2)], 3)])]:
        def pre(b, text=text, f=f):
            cnt = M.expand(f)
            return dict(args=[b.obj(SUB), text], env=dict(want=dict(cnt)))
        c.scenario(text, pre)
    c.ensures("counts(self) == want", "each-species-with-its-expanded-count")
    c.no_raise()


@contract(f"{SUB}.__mul__", ["C10"], name="Substance.__mul__")
def _(c):
    c.bound = "three substances, multiplier symbolic"
    for text in ["H2O", "Ca(OH)2", "Fe{+2}Fe{+3}2O4"]:
        c.scenario(text, (lambda text: lambda b: dict(args=[b.new(SUB, text), b.real("k")], env=dict(s=None)))(text))
    c.requires("other > 0")
    c.ensures("counts(result) == {k: n * other for k, n in counts(self).items()}", "counts-scaled")
    c.ensures("counts(self) == old(counts(self))", "operand-unchanged")
    # the product is a substance of its own (whatever the factor, 1 included): a later add() on it or on the operand acts on one only
    c.ensures("not same_object(result, self)", "product-is-a-new-substance")
    c.fresh("list(result.components.values())", "product-shares-no-species-object-with-the-operand", each=True)
    c.modifies()
    c.no_raise()


@contract(f"{SUB}.__add__", ["C10"], name="Substance.__add__")
def _(c):
    c.bound = "pairs of substances with and without common species"
    c.chunk = 3
    for a, b2 in [("H2O", "CO2"), ("H2O", "H2O2"), ("NaCl", "KCl"), ("Ca(OH)2", "H2O"), ("O{17}H2", "H2O")]:
        def pre(b, a=a, b2=b2):
            ca, cb = M.expand_text(a) if False else None, None
            return dict(args=[b.new(SUB, a), b.new(SUB, b2)])
        c.scenario(f"{a} + {b2}", pre)
    c.ensures("counts(result) == {k: counts(self).get(k, 0) + counts(other).get(k, 0) for k in list(counts(self).keys()) + [k for k in counts(other).keys() if k not in counts(self)]}", "counts-add")
    c.ensures("counts(self) == old(counts(self)) and counts(other) == old(counts(other))", "operands-unchanged")
    # the sum owns its species: a later add() / * on the sum or on an operand acts on that object's counts only
    c.fresh("list(result.components.values())", "sum-shares-no-species-object-with-an-operand", each=True)
    c.modifies()
    c.no_raise()


@contract("materials/composite.py::Composite.add", ["C10", "C11"], name="Composite.add")
def _(c):
    c.bound = "substances with 1-3 components; added species new or present; proportion symbolic"
    c.chunk = 3
    for text, key in [("H2O", "H"), ("H2O", "O"), ("H2O", "C"), ("NaCl", "Na"), ("Ca(OH)2", "Fe{+3}"), ("CO2", "O")]:
        def pre(b, text=text, key=key):
            s = b.new(SUB, text)
            # the table was read once before (printing does that): what is read after add() must describe the new state
            b.call(b.getattr(s, "data_composite"), quantity=False)
            return dict(args=[s, key, b.real("p")], env=dict(m0=_mass(text), mk=M.species(key)[0], z0=_sums(M.expand_text(text), True)[1], zk=M.species(key)[1]))
        c.scenario(f"{text} add {key}", pre)
    c.ensures("(lambda d: near(d['mass'], m0 + proportion * mk) and near(d['Z'], z0 + proportion * zk))(self.data_composite(quantity=False)['sum'].data())", "totals-read-afterwards-are-those-of-the-new-counts")
    c.requires("proportion > 0")
    c.ensures("counts(self) == {k: (old(counts(self)).get(k, 0) + (proportion if k == expr else 0)) for k in list(old(counts(self)).keys()) + ([expr] if expr not in old(counts(self)) else [])}", "count-of-the-species-increased-others-unchanged")
    c.ensures("self.proportion_norm == sum([n for n in counts(self).values()])", "norm-follows-the-counts")
    c.no_raise()


# ---- C11: number and mass fractions -------------------------------------------------------------------------------
MIXES = [["H2O", "NaCl"], ["H2O"], ["N2", "O2", "Ar"], ["H2O", "CO2", "NaCl", "Fe2O3"], ["O{17}H2", "D2O"]]
if TIER != "thorough":
    MIXES = MIXES[:3]


STRING_MIXES = [(["H2O", "NaCl"], ["0.2", "0.8"]), (["N2", "O2", "Ar"], ["78.084", "20.946", "0.934"]),
                (["H2O", "NaCl", "Ar"], ["2.5e-12", "1.25e-12", "6.25e-12"]),   # only the ratios matter, however small the amounts
                (["H2O", "NaCl", "CO2"], ["1.e-02", "5.e-01", "2.5E+00"])]      # every spelling float() reads (numpy's scientific format)


@spec
def frac(table, key, col):
    return table[key].data()[col]


def _mass(text, nat=True):
    cnt = M.expand_text(text)
    return sum(n * M.species(k, nat)[0] for k, n in cnt.items())


def _expand_text(text):
    """counts of a plain formula given as text (elements with counts and one level of groups)"""
    import re
    acc = {}

    def walk(s, mult):
        i = 0
        while i < len(s):
            if s[i] == "(":
                d, j = 1, i + 1
                while d:
                    d += {"(": 1, ")": -1}.get(s[j], 0)
                    j += 1
                m = re.match(r"[0-9]*", s[j:])
                k = int(m.group() or 1)
                walk(s[i + 1:j - 1], mult * k)
                i = j + len(m.group())
            else:
                m = re.match(r"(\[[pne]\]|[A-Z][a-z]?)(\{[0-9+-]+\})?([0-9]*)", s[i:])
                acc[m.group(1) + (m.group(2) or "")] = acc.get(m.group(1) + (m.group(2) or ""), 0) + mult * int(m.group(3) or 1)
                i += len(m.group())
    walk(text, 1)
    return acc


M.expand_text = _expand_text

for mode, label in (("NUMBER_FRACTION", "number"), ("MASS_FRACTION", "mass")):
    @contract(f"{MAT}.data_composite", ["C11"], name=f"Material.data_composite[{label}-fractions-given]")
    def _(c, mode=mode):
        c.bound = "mixtures of 1-4 substances; the given proportions are symbolic"
        c.chunk = 1
        c.assume_nonzero_divisors = True
        for mix in MIXES:
            for nat in (True, False):
                def pre(b, mix=mix, nat=nat):
                    ps = [b.real(f"p{i}") for i in range(len(mix))]
                    norm = b.getattr(b.cls(NORM), mode)
                    m = b.new(MAT, b.dict({s: p for s, p in zip(mix, ps)}), natural=nat, norm_type=norm)
                    return dict(args=[m], kwargs=dict(quantity=False), env=dict(ps=ps, ms=[_mass(s, nat) for s in mix], keys=list(mix)))
                c.scenario("+".join(mix) + ("" if nat else "[most-abundant-isotopes]"), pre)
        # a table of a selection was asked for first (same instance, nothing changed in between)
        for mix in [m for m in MIXES if len(m) >= 2][:2]:
            def pre_sel(b, mix=mix):
                ps = [b.real(f"p{i}") for i in range(len(mix))]
                norm = b.getattr(b.cls(NORM), mode)
                m = b.new(MAT, b.dict({s: p for s, p in zip(mix, ps)}), norm_type=norm)
                b.call(b.getattr(m, "data_composite"), components=b.list([mix[0]]), quantity=False)
                return dict(args=[m], kwargs=dict(quantity=False), env=dict(ps=ps, ms=[_mass(s, True) for s in mix], keys=list(mix)))
            c.scenario("+".join(mix) + "[after-a-table-of-a-selection]", pre_sel)
        # every amount multiplied by one common factor (scalar * material): the fractions are those of the amounts given
        for mix in [m for m in MIXES if len(m) >= 2][:2]:
            for nat in (True, False):
                def pre_c(b, mix=mix, nat=nat):
                    ps = [b.real(f"p{i}") for i in range(len(mix))]
                    f = b.real("f")
                    b.assume_rel(f, ">", 0)
                    norm = b.getattr(b.cls(NORM), mode)
                    m = b.new(MAT, b.dict({s: p for s, p in zip(mix, ps)}), natural=nat, norm_type=norm)
                    m = b.call(b.getattr(m, "__rmul__"), f)
                    return dict(args=[m], kwargs=dict(quantity=False), env=dict(ps=ps, ms=[_mass(s, nat) for s in mix], keys=list(mix)))
                c.scenario("+".join(mix) + "[times-a-common-factor]" + ("" if nat else "[most-abundant-isotopes]"), pre_c)
        # the component table was looked at and one reported mass shown in grams (Quantity.to converts the returned object in place),
        # then a further substance was added: the fractions are those of the amounts, as if nothing had been looked at
        for mix in [m for m in MIXES if len(m) >= 2][:2]:
            def pre_look(b, mix=mix):
                ps = [b.real(f"p{i}") for i in range(len(mix))]
                norm = b.getattr(b.cls(NORM), mode)
                m = b.new(MAT, b.dict({s: p for s, p in list(zip(mix, ps))[:-1]}), norm_type=norm)
                t = b.call(b.getattr(m, "data_components"))
                b.call(b.getattr(b.getattr(b.call(b.getattr(t, "__getitem__"), mix[0]), "mass"), "to"), "g")
                b.call(b.getattr(m, "add"), mix[-1], ps[-1])
                return dict(args=[m], kwargs=dict(quantity=False), env=dict(ps=ps, ms=[_mass(s, True) for s in mix], keys=list(mix)))
            c.scenario("+".join(mix) + "[a-reported-mass-shown-in-grams-then-a-substance-added]", pre_look)
        # the same mixtures written as an expression '<p> <substance> ...' (each blank is a '+' of materials): literal proportions
        for mix, lit in STRING_MIXES:
            for nat in (True, False):
                def pre_s(b, mix=mix, lit=lit, nat=nat):
                    norm = b.getattr(b.cls(NORM), mode)
                    m = b.new(MAT, " ".join(f"{p} <{s}>" for s, p in zip(mix, lit)), natural=nat, norm_type=norm)
                    return dict(args=[m], kwargs=dict(quantity=False), env=dict(ps=[float(p) for p in lit], ms=[_mass(s, nat) for s in mix], keys=list(mix)))
                c.scenario("text:" + "+".join(mix) + ("" if nat else "[most-abundant-isotopes]"), pre_s)
        # a mixture accumulated part by part with the augmented statement  total += part
        for mix in [m for m in MIXES if len(m) >= 2][:2]:
            def pre_acc(b, mix=mix):
                ps = [b.real(f"p{i}") for i in range(len(mix))]
                norm = b.getattr(b.cls(NORM), mode)
                total = b.new(MAT, b.dict({mix[0]: ps[0]}), norm_type=norm)
                for sname, p in list(zip(mix, ps))[1:]:
                    total, exc = b.aug_catching("+", total, b.new(MAT, b.dict({sname: p}), norm_type=norm))
                    b.assume(exc is None)
                return dict(args=[total], kwargs=dict(quantity=False), env=dict(ps=ps, ms=[_mass(s, True) for s in mix], keys=list(mix)))
            c.scenario("+".join(mix) + "[accumulated-with-augmented-sums]", pre_acc)
        # two materials written with the same text are two materials: extending one of them does not touch the other, nor one built afterwards
        for mix, lit in STRING_MIXES[:2]:
            for which in ("first", "built-afterwards"):
                def pre_t(b, mix=mix, lit=lit, which=which):
                    norm = b.getattr(b.cls(NORM), mode)
                    text = " ".join(f"{p} <{s}>" for s, p in zip(mix, lit))
                    m1 = b.new(MAT, text, norm_type=norm)
                    m2 = b.new(MAT, text, norm_type=norm)
                    b.call(b.getattr(m2, "add"), mix[0], b.real("extra"))
                    m3 = b.new(MAT, text, norm_type=norm)
                    return dict(args=[m1 if which == "first" else m3], kwargs=dict(quantity=False), env=dict(ps=[float(p) for p in lit], ms=[_mass(s, True) for s in mix], keys=list(mix)))
                c.scenario("text:" + "+".join(mix) + f"[{which}-while-a-twin-from-the-same-text-was-extended]", pre_t)
        c.requires("all([p > 0 for p in ps])")
        if mode == "NUMBER_FRACTION":
            c.ensures("all([near(frac(result, k, 'x'), 100 * p / sum(ps)) for k, p in zip(keys, ps)])", "x-proportional-to-the-amount")
            c.ensures("all([near(frac(result, k, 'X'), 100 * p * m / sum([q * w for q, w in zip(ps, ms)])) for k, p, m in zip(keys, ps, ms)])", "X-proportional-to-amount-times-mass")
        else:
            c.ensures("all([near(frac(result, k, 'X'), 100 * p / sum(ps)) for k, p in zip(keys, ps)])", "X-proportional-to-the-given-mass-fraction")
            c.ensures("all([near(frac(result, k, 'x'), 100 * (p / m) / sum([q / w for q, w in zip(ps, ms)])) for k, p, m in zip(keys, ps, ms)])", "x-proportional-to-mass-fraction-over-mass")
        c.ensures("near(frac(result, 'sum', 'x'), 100) and near(frac(result, 'sum', 'X'), 100)", "fractions-sum-to-100-percent")
        c.no_raise()


# a component given with the amount ZERO (end point of a composition sweep) has the fractions 0 %; the others share 100 % as if it were absent
for mode, label in (("NUMBER_FRACTION", "number"), ("MASS_FRACTION", "mass")):
    @contract(f"{MAT}.data_composite", ["C11"], name=f"Material.data_composite[zero-amount-component-{label}-fractions-given]")
    def _(c, mode=mode):
        c.bound = "mixtures of 2-3 substances one of which has the amount 0 or 0.0 (dict and text form); the other proportions symbolic (dict) or literal (text)"
        c.chunk = 2
        c.assume_nonzero_divisors = True
        for mix in (["H2O", "NaCl"], ["N2", "O2", "Ar"]):
            for pos in range(len(mix)):
                for zero in (0, 0.0):
                    def pre(b, mix=mix, pos=pos, zero=zero):
                        ps = [zero if i == pos else b.real(f"p{i}") for i in range(len(mix))]
                        for i, p in enumerate(ps):
                            if i != pos:
                                b.assume_rel(p, ">", 0)
                        norm = b.getattr(b.cls(NORM), mode)
                        m = b.new(MAT, b.dict({s: p for s, p in zip(mix, ps)}), norm_type=norm)
                        return dict(args=[m], kwargs=dict(quantity=False), env=dict(ps=ps, ms=[_mass(s, True) for s in mix], keys=list(mix)))
                    c.scenario("+".join(mix) + f"[amount-{zero!r}-at-{pos}]", pre)
        for mix, lit in [(["H2O", "NaCl", "CO2"], ["0.0", "1.0", "0.5"]), (["H2O", "NaCl"], ["0.75", "0"])]:
            def pre_s(b, mix=mix, lit=lit):
                norm = b.getattr(b.cls(NORM), mode)
                m = b.new(MAT, " ".join(f"{p} <{s}>" for s, p in zip(mix, lit)), norm_type=norm)
                return dict(args=[m], kwargs=dict(quantity=False), env=dict(ps=[float(p) for p in lit], ms=[_mass(s, True) for s in mix], keys=list(mix)))
            c.scenario("text:" + "+".join(f"{p}<{s}>" for s, p in zip(mix, lit)), pre_s)
        if mode == "NUMBER_FRACTION":
            c.ensures("all([near(frac(result, k, 'x'), 100 * p / sum(ps)) for k, p in zip(keys, ps)])", "x-proportional-to-the-amount")
            c.ensures("all([near(frac(result, k, 'X'), 100 * p * m / sum([q * w for q, w in zip(ps, ms)])) for k, p, m in zip(keys, ps, ms)])", "X-proportional-to-amount-times-mass")
        else:
            c.ensures("all([near(frac(result, k, 'X'), 100 * p / sum(ps)) for k, p in zip(keys, ps)])", "X-proportional-to-the-given-mass-fraction")
            c.ensures("all([near(frac(result, k, 'x'), 100 * (p / m) / sum([q / w for q, w in zip(ps, ms)])) for k, p, m in zip(keys, ps, ms)])", "x-proportional-to-mass-fraction-over-mass")
        c.ensures("near(frac(result, 'sum', 'x'), 100) and near(frac(result, 'sum', 'X'), 100)", "fractions-sum-to-100-percent")
        c.no_raise()


# a table restricted to a selection of components reports, for each selected component, the fractions it has in the whole material
for mode in ("NUMBER_FRACTION", "MASS_FRACTION"):
    @contract(f"{MAT}.data_composite", ["C11"], name=f"Material.data_composite[selection-{'number' if mode == 'NUMBER_FRACTION' else 'mass'}-fractions-given]")
    def _(c, mode=mode):
        c.bound = "three-component mixtures, every selection of one or two components (in any position); proportions symbolic"
        c.chunk = 2
        c.assume_nonzero_divisors = True
        mix = ["N2", "O2", "Ar"]
        for sel in ([1], [2], [0], [1, 2], [0, 2], [2, 0]):
            def pre(b, sel=sel):
                ps = [b.real(f"p{i}") for i in range(3)]
                norm = b.getattr(b.cls(NORM), mode)
                m = b.new(MAT, b.dict({s_: p for s_, p in zip(mix, ps)}), norm_type=norm)
                return dict(args=[m], kwargs=dict(components=b.list([mix[i] for i in sel]), quantity=False),
                            env=dict(ps=ps, ms=[_mass(s_, True) for s_ in mix], sel=[(mix[i], i) for i in sel]))
            c.scenario("selection-" + "+".join(mix[i] for i in sel), pre)
        c.requires("all([p > 0 for p in ps])")
        if mode == "NUMBER_FRACTION":
            c.ensures("all([near(frac(result, k, 'x'), 100 * ps[i] / sum(ps)) and near(frac(result, k, 'X'), 100 * ps[i] * ms[i] / sum([q * w for q, w in zip(ps, ms)])) for k, i in sel])", "fractions-of-the-whole-material")
        else:
            c.ensures("all([near(frac(result, k, 'X'), 100 * ps[i] / sum(ps)) and near(frac(result, k, 'x'), 100 * (ps[i] / ms[i]) / sum([q / w for q, w in zip(ps, ms)])) for k, i in sel])", "fractions-of-the-whole-material")
        c.no_raise()


for opname in ("__add__", "__rmul__"):
    @contract(f"{MAT}.{opname}", ["C11"], name=f"Material.{opname}")
    def _(c, opname=opname):
        c.bound = "two-substance materials in both normalisation modes, natural and most-abundant isotopes"
        for mode in ("NUMBER_FRACTION", "MASS_FRACTION"):
            for nat in (True, False):
                def pre(b, mode=mode, nat=nat, opname=opname):
                    norm = b.getattr(b.cls(NORM), mode)
                    p0, p1 = b.real("p0"), b.real("p1")
                    m1 = b.new(MAT, b.dict({"H2O": p0}), natural=nat, norm_type=norm)
                    m2 = b.new(MAT, b.dict({"NaCl": p1}), natural=nat, norm_type=norm) if opname == "__add__" else p1
                    return dict(args=[m1, m2], env=dict(nat=nat, p0=p0, p1=p1, ms=[_mass("H2O", nat), _mass("NaCl", nat)]))
                c.scenario(f"{mode}[{'natural' if nat else 'most-abundant-isotopes'}]", pre)
        if opname == "__add__":
            # a substance added to a material becomes ONE more component with its amount (it is not dissolved into elements)
            for mode in ("NUMBER_FRACTION", "MASS_FRACTION"):
                def pre_s(b, mode=mode):
                    norm = b.getattr(b.cls(NORM), mode)
                    p0, p1 = b.real("p0"), b.real("p1")
                    m1 = b.new(MAT, b.dict({"H2O": p0}), norm_type=norm)
                    s2 = b.new(SUB, "NaCl", proportion=p1)
                    return dict(args=[m1, s2], env=dict(nat=True, p0=p0, p1=p1, ms=[_mass("H2O", True), _mass("NaCl", True)]))
                c.scenario(f"{mode}[substance-operand]", pre_s)
        c.requires("p0 > 0 and p1 > 0")
        if opname == "__add__":
            c.ensures("list(result.components.keys()) == ['H2O', 'NaCl'] and [comp.proportion for comp in result.components.values()] == [p0, p1]", "one-component-per-operand-substance-with-its-amount")
        else:
            c.ensures("list(result.components.keys()) == ['H2O'] and [comp.proportion for comp in result.components.values()] == [p0 * p1]", "every-amount-times-the-factor")
        c.ensures("result.natural == self.natural and result.norm_type == self.norm_type", "isotope-mode-and-normalisation-carried-over")
        c.ensures("all([near(comp.component_mass.value('Da'), m) for comp, m in zip(result.components.values(), ms)])", "component-masses-in-the-same-isotope-mode")
        c.fresh("list(result.components.values())", "result-shares-no-component-object-with-an-operand", each=True)
        c.no_raise()


# a substance ASSEMBLED from parts (one element added more than once) and then added to a material enters with the mass of what was assembled
@contract(f"{MAT}.__add__", ["C11", "C10"], name="Material.__add__[substance-operand-assembled-from-parts]")
def _(c):
    c.bound = "methanol assembled as CH3 + OH (sum of substances) and as CH3 .add(H) .add(O); amounts symbolic; both normalisation modes"
    c.assume_nonzero_divisors = True
    for mode in ("NUMBER_FRACTION", "MASS_FRACTION"):
        for how in ("sum-of-substances", "elements-added-one-by-one"):
            def pre(b, mode=mode, how=how):
                norm = b.getattr(b.cls(NORM), mode)
                p0 = b.real("p0")
                m1 = b.new(MAT, b.dict({"H2O": p0}), norm_type=norm)
                if how == "sum-of-substances":
                    s2 = b.call(b.getattr(b.new(SUB, b.dict({"C": 1, "H": 3})), "__add__"), b.new(SUB, b.dict({"O": 1, "H": 1})))
                else:
                    s2 = b.new(SUB, "CH3")
                    b.call(b.getattr(s2, "add"), "H")
                    b.call(b.getattr(s2, "add"), "O", 1)
                return dict(args=[m1, s2], env=dict(p0=p0, ms=[_mass("H2O", True), _mass("CH4O", True)], s2=s2))
            c.scenario(f"{mode}[{how}]", pre)
    c.requires("p0 > 0")
    c.ensures("[comp.proportion for comp in result.components.values()] == [p0, 1.0] or [comp.proportion for comp in result.components.values()] == [p0, 1]", "one-component-per-operand-substance-with-its-amount")
    c.ensures("all([near(comp.component_mass.value('Da'), m) for comp, m in zip(result.components.values(), ms)])", "component-masses-are-those-of-the-substances-given")
    c.ensures("sorted([(k, v.proportion) for k, v in s2.components.items()]) == [('C', 1), ('H', 4), ('O', 1)]", "the-assembled-substance-keeps-its-counts")
    c.no_raise()


def _fr(b, n=3):
    return dict(env=dict(ps=[b.real(f"p{i}") for i in range(n)], ms=[b.real(f"m{i}") for i in range(n)], c=b.real("c")))


lemma("fractions/scaling-invariance", "C11", _fr,
      "all([(c * p) / sum([c * q for q in ps]) == p / sum(ps) for p in ps]) and all([(c * p * m) / sum([c * q * w for q, w in zip(ps, ms)]) == (p * m) / sum([q * w for q, w in zip(ps, ms)]) for p, m in zip(ps, ms)])",
      assumes=["c > 0 and all([p > 0 for p in ps]) and all([m > 0 for m in ms])"], ns=globals())
lemma("fractions/number-mass-duality", "C11", _fr,
      "all([((p * m) / m) / sum([(q * w) / w for q, w in zip(ps, ms)]) == p / sum(ps) for p, m in zip(ps, ms)])",
      assumes=["all([p > 0 for p in ps]) and all([m > 0 for m in ms])"], ns=globals())


# ---- C12: densities -------------------------------------------------------------------------------------------------
DA_G = U.UNITS["Da"]["factor"]
DENS_UNITS = [("g/cm3", 1.0), ("kg/m3", 1e-3), ("g/l", 1e-3)]
NUM_UNITS = [("cm-3", 1.0), ("m-3", 1e-6), ("l-1", 1e-3)]
VOL_UNITS = [("cm3", 1.0), ("l", 1e3), ("m3", 1e6)]


@contract(f"{SUB}.__init__", ["C12"], name="Substance.__init__[mass-density-given]")
def _(c):
    c.bound = "three substances x 3 density units x 3 volume units; density and volume symbolic"
    c.chunk = 2
    c.assume_nonzero_divisors = True
    for text in ["H2O", "NaCl", "Ca(OH)2"]:
        for (du, df), (vu, vf) in zip(DENS_UNITS, VOL_UNITS):
            def pre(b, text=text, du=du, df=df, vu=vu, vf=vf):
                rho, vol = b.real("rho"), b.real("vol")
                return dict(args=[b.obj(SUB), text], kwargs=dict(mass_density=b.new(QTY, rho, du), volume=b.new(QTY, vol, vu)),
                            env=dict(rho=rho, vol=vol, df=df, vf=vf, mf=_mass(text) * DA_G, cnt=sorted(M.expand_text(text).items()), sm=[M.species(k)[0] * DA_G for k, n in sorted(M.expand_text(text).items())]))
            c.scenario(f"{text} rho[{du}] V[{vu}]", pre)
    c.requires("rho > 0 and vol > 0")
    c.ensures("near(self.number_density.value('cm-3'), rho * df / mf)", "number-density-is-rho-over-formula-mass")
    c.ensures("near(self.mass.value('g'), rho * df * vol * vf)", "mass-is-rho-times-volume")
    c.ensures("(lambda t: all([near(t[k].data()['n'], n * rho * df / mf) and near(t[k].data()['rho'], n * m * rho * df / mf) and near(t[k].data()['M'], n * m * rho * df / mf * vol * vf) for (k, n), m in zip(cnt, sm)]) and near(t['sum'].data()['rho'], rho * df) and near(t['sum'].data()['M'], rho * df * vol * vf))(self.data_matter(quantity=False))", "component-densities-and-masses-add-up")
    c.no_raise()


@contract(f"{SUB}.__init__", ["C12"], name="Substance.__init__[number-density-given]")
def _(c):
    c.bound = "three substances x 3 number-density units; density symbolic"
    c.chunk = 2
    c.assume_nonzero_divisors = True
    for text in ["H2O", "NaCl", "CO2"]:
        for (nu, nf) in NUM_UNITS:
            def pre(b, text=text, nu=nu, nf=nf):
                n = b.real("n")
                return dict(args=[b.obj(SUB), text], kwargs=dict(number_density=b.new(QTY, n, nu)), env=dict(n=n, nf=nf, mf=_mass(text) * DA_G))
            c.scenario(f"{text} n[{nu}]", pre)
    c.requires("n > 0")
    c.ensures("near(self.mass_density.value('g/cm3'), n * nf * mf)", "mass-density-is-n-times-formula-mass")
    c.ensures("near(self.number_density.value('cm-3'), n * nf)", "number-density-kept")
    c.no_raise()


# a substance's OWN proportion (the amount a material stores it with) is not part of its formula unit: rho = n * M(formula) whatever the proportion
@contract(f"{SUB}.__init__", ["C12"], name="Substance.__init__[own-proportion-with-a-density]")
def _(c):
    c.bound = "two substances x own proportion 2 / 0.5 / 3 x (mass density with volume | number density with volume); densities and volume symbolic"
    c.chunk = 2
    c.assume_nonzero_divisors = True
    for text in ["H2O", "NaCl"]:
        for prop in (2, 0.5, 3):
            for given in ("rho", "n"):
                def pre(b, text=text, prop=prop, given=given):
                    x, vol = b.real("x"), b.real("vol")
                    kw = dict(mass_density=b.new(QTY, x, "g/cm3")) if given == "rho" else dict(number_density=b.new(QTY, x, "cm-3"))
                    mf = _mass(text) * DA_G
                    return dict(args=[b.obj(SUB), text], kwargs=dict(proportion=prop, natural=False, volume=b.new(QTY, vol, "cm3"), **kw),
                                env=dict(x=x, vol=vol, mf=mf, given=given, cnt=sorted(M.expand_text(text).items()), sm=[M.species(k, False)[0] * DA_G for k, n in sorted(M.expand_text(text).items())]))
                c.scenario(f"{text} proportion={prop} {given}", pre)
    c.requires("x > 0 and vol > 0")
    c.ensures("near(self.mass_density.value('g/cm3'), self.number_density.value('cm-3') * sum([n * m for (k, n), m in zip(cnt, sm)]))", "rho-is-n-times-the-mass-of-one-formula-unit")
    c.ensures("near(self.mass.value('g'), self.mass_density.value('g/cm3') * vol)", "mass-is-rho-times-volume")
    c.ensures("(lambda t, rho, nd: all([near(t[k].data()['n'], n * nd) for (k, n), m in zip(cnt, sm)]) and near(sum([t[k].data()['rho'] for (k, n) in cnt]), rho) and near(sum([t[k].data()['M'] for (k, n) in cnt]), rho * vol)"
              " and near(t['sum'].data()['rho'], rho) and near(t['sum'].data()['M'], rho * vol))(self.data_matter(quantity=False), self.mass_density.value('g/cm3'), self.number_density.value('cm-3'))",
              "component-densities-add-up-to-rho-and-component-masses-to-the-total-mass")
    c.ensures("near(self.mass_density.value('g/cm3'), x) if given == 'rho' else near(self.number_density.value('cm-3'), x)", "the-given-density-is-kept")
    c.no_raise()


# the stored densities are quantities: a caller may show one of them in another unit (Quantity.to converts in place), or go on using
# the quantity it passed in -- the table is computed from the quantities, in whatever unit they are shown
SHOWN = [("number_density", "m-3"), ("number_density", "l-1"), ("mass_density", "kg/m3"), ("mass", "kg"), ("own-argument", "m-3")]


@contract("materials/matter.py::Matter.data_matter", ["C12"], name="Matter.data_matter[after-a-density-was-shown-in-another-unit]")
def _(c):
    c.bound = "two substances; number density and volume symbolic; one stored quantity (or the caller's own argument) converted in place before the table is read"
    c.chunk = 2
    c.assume_nonzero_divisors = True
    for text in ["H2O", "NaCl"]:
        for attr, unit in SHOWN:
            def pre(b, text=text, attr=attr, unit=unit):
                n, vol = b.real("n"), b.real("vol")
                nq = b.new(QTY, n, "cm-3")
                s = b.new(SUB, text, number_density=nq, volume=b.new(QTY, vol, "cm3"))
                b.call(b.getattr(nq if attr == "own-argument" else b.getattr(s, attr), "to"), unit)
                cnt = sorted(M.expand_text(text).items())
                return dict(args=[s], kwargs=dict(quantity=False), env=dict(n=n, vol=vol, mf=_mass(text) * DA_G, cnt=cnt, sm=[M.species(k)[0] * DA_G for k, _ in cnt]))
            c.scenario(f"{text} {attr}->{unit}", pre)
    c.requires("n > 0 and vol > 0")
    c.ensures("all([near(result[k].data()['n'], a * n) and near(result[k].data()['rho'], a * m * n) and near(result[k].data()['N'], a * n * vol) and near(result[k].data()['M'], a * m * n * vol) for (k, a), m in zip(cnt, sm)])", "component-rows-from-amount-n-and-volume")
    c.ensures("near(result['sum'].data()['rho'], n * mf) and near(result['sum'].data()['M'], n * mf * vol)", "rows-add-up-to-rho-and-the-total-mass")
    c.no_raise()


@contract(f"{SUB}.__init__", ["C12"], name="Substance.__init__[dict-form-with-density]")
def _(c):
    c.bound = "substances given as {species: count} dictionaries (normalised once per component) with a mass or number density"
    c.chunk = 1
    c.assume_nonzero_divisors = True
    for comp in [{"H": 2, "O": 1}, {"Na": 1, "Cl": 1}, {"C": 1, "O": 2, "H": 4}]:
        text = "".join(f"{k}{v if v > 1 else ''}" for k, v in comp.items())
        for given in ("rho", "n"):
            def pre(b, comp=comp, text=text, given=given):
                x = b.real("x")
                kw = dict(mass_density=b.new(QTY, x, "g/cm3")) if given == "rho" else dict(number_density=b.new(QTY, x, "cm-3"))
                return dict(args=[b.obj(SUB), b.dict(comp)], kwargs=kw, env=dict(x=x, mf=_mass(text) * DA_G, given=given))
            c.scenario(f"{text} {given}", pre)
    c.requires("x > 0")
    c.ensures("near(self.mass_density.value('g/cm3'), x if given == 'rho' else x * mf)", "mass-density-consistent-with-the-given-one")
    c.ensures("near(self.number_density.value('cm-3'), x / mf if given == 'rho' else x)", "number-density-consistent-with-the-given-one")
    c.no_raise()


@contract(f"{MAT}.__init__", ["C12"], name="Material.__init__[number-fractions-with-density]")
def _(c):
    c.bound = "two mixtures; density symbolic"
    c.chunk = 1
    c.assume_nonzero_divisors = True
    for mix, ps in [(["H2O", "NaCl"], [0.2, 0.8]), (["N2", "O2"], [0.78, 0.22])]:
        def pre(b, mix=mix, ps=ps):
            rho = b.real("rho")
            mbar = sum(p * _mass(s) for p, s in zip(ps, mix)) * DA_G
            return dict(args=[b.obj(MAT), b.dict(dict(zip(mix, ps)))], kwargs=dict(mass_density=b.new(QTY, rho, "kg/m3")), env=dict(rho=rho, mbar=mbar))
        c.scenario("+".join(mix), pre)
    c.requires("rho > 0")
    c.ensures("near(self.number_density.value('cm-3'), rho / 1000 / mbar)", "number-density-is-rho-over-the-mass-of-one-formula-unit")
    c.no_raise()


@contract(f"{MAT}.__init__", ["C12"], name="Material.__init__[mass-fractions-with-density]")
def _(c):
    c.bound = "one mixture given by mass fractions; density symbolic"
    c.chunk = 1
    c.assume_nonzero_divisors = True

    def pre(b):
        rho = b.real("rho")
        ps, mix = [0.2, 0.8], ["H2O", "NaCl"]
        mbar = sum(ps) / sum(p / _mass(s) for p, s in zip(ps, mix)) * DA_G
        return dict(args=[b.obj(MAT), b.dict(dict(zip(mix, ps)))], kwargs=dict(norm_type=b.getattr(b.cls(NORM), "MASS_FRACTION"), mass_density=b.new(QTY, rho, "g/cm3")), env=dict(rho=rho, mbar=mbar))
    c.scenario("H2O+NaCl", pre)
    c.requires("rho > 0")
    c.ensures("near(self.number_density.value('cm-3'), rho / mbar)", "number-density-is-rho-over-the-mean-particle-mass")
    c.no_raise()


# ---- C12 after add(): raising the amount of a species that is already present changes the formula mass, and the densities follow ------
@contract("materials/composite.py::Composite.add", ["C12"], name="Composite.add[matter-with-density]")
def _(c):
    c.bound = "two substances with a mass density or a number density; species added already present or new; amount and density symbolic"
    c.chunk = 2
    c.assume_nonzero_divisors = True
    for text, key in [("H2O", "O"), ("H2O", "H"), ("NaCl", "Cl"), ("H2O", "C")]:
        for given in ("rho", "n"):
            def pre(b, text=text, key=key, given=given):
                x, p = b.real("x"), b.real("p")
                kw = dict(mass_density=b.new(QTY, x, "g/cm3")) if given == "rho" else dict(number_density=b.new(QTY, x, "cm-3"))
                twin = b.new(SUB, text, **(dict(mass_density=b.new(QTY, x, "g/cm3")) if given == "rho" else dict(number_density=b.new(QTY, x, "cm-3"))))
                s = b.new(SUB, text, **kw)
                # the tables were read once before (printing does that): what is read after add() must be the new state
                b.call(b.getattr(s, "data_matter"), quantity=False)
                b.call(b.getattr(s, "data_composite"), quantity=False)
                return dict(args=[s, key, p], env=dict(x=x, p=p, given=given, m0=_mass(text) * DA_G, mk=M.species(key)[0] * DA_G, twin=twin, c0=dict(M.expand_text(text)), key=key,
                                                       names=list(M.expand_text(text)) + ([key] if key not in M.expand_text(text) else [])))
            c.scenario(f"{text} {given} add {key}", pre)
        # the mass density attached to an existing substance (a public attribute), which is then extended
        def pre_late(b, text=text, key=key):
            x, p = b.real("x"), b.real("p")
            twin = b.new(SUB, text, mass_density=b.new(QTY, x, "g/cm3"))
            s = b.new(SUB, text)
            b.setattr(s, "mass_density", b.new(QTY, x, "g/cm3"))
            return dict(args=[s, key, p], env=dict(x=x, p=p, given="rho", m0=_mass(text) * DA_G, mk=M.species(key)[0] * DA_G, twin=twin, c0=dict(M.expand_text(text)), key=key,
                                                   names=list(M.expand_text(text)) + ([key] if key not in M.expand_text(text) else [])))
        c.scenario(f"{text} rho attached afterwards add {key}", pre_late)
    c.requires("x > 0 and p > 0")
    c.ensures("near(self.mass_density.value('g/cm3'), x if given == 'rho' else x * (m0 + p * mk))", "mass-density-is-n-times-the-new-formula-mass")
    c.ensures("near(self.number_density.value('cm-3'), x / (m0 + p * mk) if given == 'rho' else x)", "number-density-is-rho-over-the-new-formula-mass")
    c.ensures("(lambda t: near(t['sum'].data()['rho'], self.mass_density.value('g/cm3')) and near(t['sum'].data()['rho'], sum([t[k].data()['rho'] for k in self.components.keys()])))(self.data_matter(quantity=False))", "component-mass-densities-add-up-to-rho")
    c.ensures("(lambda t: all([near(t[k].data()['n'], (c0.get(k, 0) + (p if k == key else 0)) * self.number_density.value('cm-3')) for k in names]))(self.data_matter(quantity=False))", "component-number-densities-are-amount-times-n-of-the-new-state")
    c.ensures("counts(twin) == c0 and near(twin.mass_density.value('g/cm3'), x if given == 'rho' else x * m0)", "another-object-built-from-the-same-formula-is-unaffected")
    c.no_raise()


# ---- single elements and bare nucleons (an electron or neutron gas) with a density attached: the same derivations -----------------------------
@contract(f"{EL}.__init__", ["C12"], name="Element.__init__[with-density]")
def _(c):
    c.bound = "the listed species (elements, an isotope, an ion, the three nucleon symbols); number density or mass density given, with a volume; all symbolic"
    c.chunk = 4
    c.assume_nonzero_divisors = True
    for expr in ["[p]", "[n]", "[e]", "H", "Fe{56}", "O{-2}", "D"]:
        for given in ("n", "rho"):
            def pre(b, expr=expr, given=given):
                x, vol = b.real("x"), b.real("vol")
                kw = dict(number_density=b.new(QTY, x, "cm-3")) if given == "n" else dict(mass_density=b.new(QTY, x, "g/cm3"))
                return dict(args=[b.obj(EL), expr], kwargs=dict(volume=b.new(QTY, vol, "cm3"), **kw), env=dict(x=x, vol=vol, given=given, m=M.species(expr, True)[0] * DA_G))
            c.scenario(f"{expr} {given}", pre)
    c.requires("x > 0 and vol > 0")
    c.ensures("near(self.mass_density.value('g/cm3'), x * m if given == 'n' else x) and near(self.number_density.value('cm-3'), x if given == 'n' else x / m)", "the-other-density-follows-from-rho-equals-n-times-mass")
    c.ensures("near(self.mass.value('g'), (x * m if given == 'n' else x) * vol)", "mass-is-rho-times-volume")
    c.no_raise()


# ---- a sum is a composite of its own: extending it by add() leaves both operands (their amounts, densities, mass and table) as they were ----
@contract("materials/composite.py::Composite.add", ["C12", "C10"], name="Composite.add[on-a-sum-of-matter-with-density]")
def _(c):
    c.bound = "sums of two substances, either operand carrying a number density and a volume; the species added comes from the left or the right operand or is new"
    c.chunk = 2
    c.assume_nonzero_divisors = True
    for ta, tb, key in [("CO2", "H2O", "H"), ("H2O", "NaCl", "Cl"), ("CO2", "H2O", "O"), ("NaCl", "H2O", "Na"), ("H2O", "NaCl", "C")]:
        for dense in ("right", "left"):
            def pre(b, ta=ta, tb=tb, key=key, dense=dense):
                n, vol, p = b.real("n"), b.real("vol"), b.real("p")
                kw = dict(number_density=b.new(QTY, n, "cm-3"), volume=b.new(QTY, vol, "cm3"))
                A = b.new(SUB, ta, **(kw if dense == "left" else {}))
                B = b.new(SUB, tb, **(kw if dense == "right" else {}))
                S = b.call(b.getattr(A, "__add__"), B)
                D, td = (A, ta) if dense == "left" else (B, tb)
                cnt = sorted(M.expand_text(td).items())
                return dict(args=[S, key, p], env=dict(n=n, vol=vol, p=p, A=A, B=B, D=D, ca=dict(M.expand_text(ta)), cb=dict(M.expand_text(tb)), mf=_mass(td) * DA_G, cnt=cnt,
                                                       sm=[M.species(k)[0] * DA_G for k, _ in cnt]))
            c.scenario(f"({ta} + {tb}).add({key}) density-on-the-{dense}", pre)
    c.requires("n > 0 and vol > 0 and p > 0")
    c.ensures("counts(A) == ca and counts(B) == cb", "operands-keep-their-amounts")
    c.ensures("near(D.mass_density.value('g/cm3'), n * mf) and near(D.mass.value('g'), n * mf * vol)", "operand-density-is-still-n-times-its-formula-mass")
    c.ensures("(lambda t: all([near(t[k].data()['n'], a * n) and near(t[k].data()['rho'], a * m * n) and near(t[k].data()['M'], a * m * n * vol) for (k, a), m in zip(cnt, sm)]) "
              "and near(t['sum'].data()['rho'], n * mf) and near(t['sum'].data()['M'], n * mf * vol))(D.data_matter(quantity=False))", "operand-table-still-adds-up")
    c.no_raise()


# ---- a species that occurs several times in a formula is still that species in the requested isotope mode ------------------------------
@contract(f"{SUB}.__init__", ["C10"], name="Substance.__init__[repeated-species]")
def _(c):
    c.bound = "formulas in which a species without explicit isotope occurs more than once; natural and most-abundant mode"
    c.chunk = 3
    E = lambda e, n=1: ("el", e, n)
    for text, f in [("CH3COOH", [E("C"), E("H", 3), E("C"), E("O"), E("O"), E("H")]), ("HHO", [E("H"), E("H"), E("O")]),
                    ("CH3(CH2)2CH3", [E("C"), E("H", 3), ("grp", [E("C"), E("H", 2)], 2), E("C"), E("H", 3)]), ("ClCl2Cl", [E("Cl"), E("Cl", 2), E("Cl")])]:
        for nat in (True, False):
            def pre(b, text=text, f=f, nat=nat):
                cnt = M.expand(f)
                return dict(args=[b.obj(SUB), text], kwargs=dict(natural=nat), env=dict(want=dict(cnt), tot=_sums(cnt, nat), nat=nat, sp={k: M.species(k, nat) for k in cnt}))
            c.scenario(f"{text}[{'natural' if nat else 'abundant'}]", pre)
    c.ensures("counts(self) == want", "each-species-with-its-expanded-count")
    c.ensures("(lambda d: near(d['mass'], tot[0]) and near(d['Z'], tot[1]) and near(d['N'], tot[2]) and near(d['e'], tot[3]))(self.data_composite(quantity=False)['sum'].data())", "totals-are-count-weighted-sums")
    c.ensures("all([near(comp.mass.value('Da'), sp[k][0]) and near(comp.N, sp[k][2]) and comp.natural == nat for k, comp in self.components.items()])", "per-species-data-in-the-requested-isotope-mode")
    c.no_raise()



# ---- what add() does to one substance is invisible to substances built afterwards (also for single-species formulas) ----------------
@contract("materials/composite.py::Composite.add", ["C10"], name="Composite.add[then-a-fresh-substance]")
def _(c):
    c.bound = "single- and two-species formulas; amount symbolic"
    c.chunk = 2
    for text, key in [("Fe", "Fe"), ("(Fe)", "Fe"), ("Cl{+}", "Cl{+}"), ("H2O", "O"), ("Fe", "O")]:
        for nat in (True, False):
            def pre(b, text=text, key=key, nat=nat):
                return dict(args=[b.new(SUB, text, natural=nat), key, b.real("p")], env=dict(text=text, nat=nat, cls=b.cls(SUB), c0=dict(M.expand_text(text.strip("()")))))
            c.scenario(f"{text} add {key}[{'natural' if nat else 'abundant'}]", pre)
    c.requires("proportion > 0")
    c.ensures("counts(cls(text, natural=nat)) == c0", "a-substance-built-afterwards-has-the-counts-of-its-formula")
    c.no_raise()


# ---- number density and volume given: the total mass follows the formula mass through add() ------------------------------------------
@contract("materials/composite.py::Composite.add", ["C12"], name="Composite.add[number-density-and-volume]")
def _(c):
    c.bound = "two substances with a number density and a volume; amount, density and volume symbolic"
    c.chunk = 2
    c.assume_nonzero_divisors = True
    for text, key in [("H2O", "O"), ("H2O", "C"), ("NaCl", "Na")]:
        def pre(b, text=text, key=key):
            n, vol, p = b.real("n"), b.real("vol"), b.real("p")
            s = b.new(SUB, text, number_density=b.new(QTY, n, "cm-3"), volume=b.new(QTY, vol, "l"))
            return dict(args=[s, key, p], env=dict(n=n, vol=vol, p=p, m0=_mass(text) * DA_G, mk=M.species(key)[0] * DA_G))
        c.scenario(f"{text} add {key}", pre)
    c.requires("n > 0 and vol > 0 and p > 0")
    c.ensures("near(self.mass_density.value('g/cm3'), n * (m0 + p * mk))", "mass-density-is-n-times-the-new-formula-mass")
    c.ensures("near(self.mass.value('g'), n * (m0 + p * mk) * vol * 1000)", "mass-is-rho-times-volume")
    c.ensures("(lambda t: near(t['sum'].data()['M'], self.mass.value('g')))(self.data_matter(quantity=False))", "component-masses-add-up-to-the-total-mass")
    c.no_raise()
