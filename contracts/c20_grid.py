"""C20 (plot grid): DataPlotGrid assigns the n data items and the remaining empty cells to distinct
(row, column) positions that together cover the grid exactly once, in normal and transposed order.

Argument: (1) __init__ establishes the representation invariant grid_ok (nrows = ceil(n/ncols)).
(2) Every tuple yielded by items() lies inside the grid and its position determines its index
(index == row*ncols+col, resp. col*nrows+row when transposed) -- hence distinct indices get distinct
cells.  (3) the data loop yields exactly the indices [0,n), the `missing` loop exactly [n, nrows*ncols),
one tuple per index (loop structure + yields-per-iteration obligation).  (4) lemma: the index->cell map
is onto the grid.  Together: a bijection between [0, nrows*ncols) and the grid cells.
"""
from pyvc.contract import contract, spec, lemma

GRID = "data_plot_grid.py::DataPlotGrid"


@spec
def grid_ok(g):
    return (g.ncols >= 1 and g.ndata >= 0 and g.nrows >= 0
            and g.nrows * g.ncols >= g.ndata and (g.nrows - 1) * g.ncols < g.ndata)


@spec
def in_grid(g, row, col):
    return 0 <= row and row < g.nrows and 0 <= col and col < g.ncols


@contract(GRID + ".__init__", "C20")
def _(c):
    def pre(b):
        data = b.seq("data", "int")
        return dict(args=[b.obj(GRID), data, b.int("ncols")], env={})
    c.scenario("list-data", pre)
    c.requires("ncols >= 1")
    c.ensures("self.ndata == len(data) and self.ncols == ncols", "fields")
    c.ensures("grid_ok(self)", "nrows-is-ceil")
    c.ensures("same_object(self.data, data)", "data-kept")
    c.no_raise()
    c.modifies("self.data", "self.ndata", "self.ncols", "self.nrows", "self.figsize")


def _grid(b, transposed=None):
    data = b.seq("data", "int")
    g = b.obj(GRID, data=data, ndata=b.int("ndata"), ncols=b.int("ncols"), nrows=b.int("nrows"))
    return g, data


@contract(GRID + ".items", "C20", name="DataPlotGrid.items[data]")
def _(c):
    def pre(b):
        g, data = _grid(b)
        return dict(args=[g, False, b.bool("transpose")])
    c.scenario("list-data", pre)
    c.requires("grid_ok(self) and self.ndata == len(self.data)")
    c.loop(1).invariant("True").yields_per_iteration = 1
    c.yields("in_grid(self, y[1], y[2])", "cell-inside-grid")
    c.yields("ite(transpose, y[2] * self.nrows + y[1], y[1] * self.ncols + y[2]) == y[0]", "cell-determines-index")
    c.yields("0 <= y[0] and y[0] < self.ndata and y[3] == self.data[y[0]]", "index-is-data-index")
    c.no_raise()
    c.modifies()


@contract(GRID + ".items", "C20", name="DataPlotGrid.items[missing]")
def _(c):
    def pre(b):
        g, data = _grid(b)
        return dict(args=[g, True, b.bool("transpose")])
    c.scenario("missing-cells", pre)
    c.requires("grid_ok(self) and self.ndata == len(self.data)")
    c.loop(0).invariant("True").yields_per_iteration = 1
    c.yields("in_grid(self, y[1], y[2])", "cell-inside-grid")
    c.yields("ite(transpose, y[2] * self.nrows + y[1], y[1] * self.ncols + y[2]) == y[0]", "cell-determines-index")
    c.yields("self.ndata <= y[0] and y[0] < self.nrows * self.ncols", "index-is-empty-cell-index")
    c.no_raise()
    c.modifies()


# (4) onto: every cell of the grid is the image of an index below nrows*ncols
def _cell(b):
    return dict(env=dict(nrows=b.int("nrows"), ncols=b.int("ncols"), row=b.int("row"), col=b.int("col")))


lemma("grid/onto-normal", "C20", _cell,
      "0 <= row * ncols + col and row * ncols + col < nrows * ncols",
      assumes=["nrows >= 1 and ncols >= 1 and 0 <= row and row < nrows and 0 <= col and col < ncols"], ns=globals())
lemma("grid/onto-transposed", "C20", _cell,
      "0 <= col * nrows + row and col * nrows + row < nrows * ncols",
      assumes=["nrows >= 1 and ncols >= 1 and 0 <= row and row < nrows and 0 <= col and col < ncols"], ns=globals())
