"""C13 (paths follow indentation) and C15 (case blocks) -- the list algorithms of the DIP parser under contract.

HierarchyList.register: the parent stack is the chain of ancestors: after registering a line with indent d
the stack holds exactly the earlier entries with indent < d followed by the new line, and the node's path is
the dotted join of their names.  (With the stack invariant 'indents strictly increase' the top of the
filtered stack is the nearest preceding line with a smaller indent -- the property's definition of parent.)

BranchingList: a line is skipped iff some open block is not in its first true clause (false_case); open
blocks whose keyword is indented at least as deep as a new line are closed before the line is judged
(close_ended); case keywords switch / open / close blocks as the block machine of the property prescribes
(solve_case).  Stack depths are enumerated up to a bound; indents and truth values are symbolic."""
import itertools

from pyvc.contract import contract, spec

HL = "dip/lists/list_hierarchy.py::HierarchyList"
PARENT = "dip/lists/list_hierarchy.py::Parent"
BL = "dip/lists/list_branching.py::BranchingList"
CASE = "dip/lists/list_branching.py::Case"
BRANCH = "dip/lists/list_branching.py::Branch"
BOOL = "dip/datatypes/type_boolean.py::BooleanType"
NODE = "dip/nodes/node.py::Node"
BOUND = "stacks of at most 3 open parents / blocks with at most 3 clauses each (indents and truth values symbolic)"


@spec
def increasing(ps):
    return all([ps[i].indent < ps[i + 1].indent for i in range(len(ps) - 1)])


@spec
def stack_view(h):
    return [(p.indent, p.name) for p in h.parents]


def hier(b, k):
    return b.obj(HL, parents=b.list([b.obj(PARENT, indent=b.int(f"i{j}"), name=f"p{j}") for j in range(k)]))


def node(b, **kw):
    d = dict(code="x", indent=b.int("d"), name="leaf", keyword="int")
    d.update(kw)
    return b.obj(NODE, **d)


@contract(HL + ".register", ["C13"], name="HierarchyList.register")
def _(c):
    c.bound = BOUND
    for k in range(0, 4):
        c.scenario(f"depth{k}", (lambda k: lambda b: dict(args=[hier(b, k), node(b), b.list(["empty", "unit", "option"])]))(k))
        c.scenario(f"depth{k}-dotted-name", (lambda k: lambda b: dict(args=[hier(b, k), node(b, name="a.b"), b.list(["empty"])]))(k))
    c.requires("increasing(self.parents) and all([p.indent >= 0 for p in self.parents]) and node.indent >= 0")
    c.ensures("stack_view(self) == [v for v in old(stack_view(self)) if v[0] < old(node.indent)] + [(old(node.indent), old(node.name))]", "stack-is-the-chain-of-lines-with-smaller-indent-plus-this-line")
    c.ensures("increasing(self.parents)", "indents-strictly-increase")
    c.ensures("node.name == '.'.join([v[1] for v in stack_view(self)])", "path-is-the-dotted-join-of-the-ancestors")
    c.no_raise()
    c.modifies("self.parents[]", "node.name")


@contract(HL + ".register", ["C13"], name="HierarchyList.register[not-hierarchical]")
def _(c):
    c.bound = BOUND
    for k in range(0, 3):
        c.scenario(f"depth{k}-property-line", (lambda k: lambda b: dict(args=[hier(b, k), node(b, keyword="option", name="x"), b.list(["empty", "unit", "option"])]))(k))
        c.scenario(f"depth{k}-nameless-line", (lambda k: lambda b: dict(args=[hier(b, k), node(b, name=None), b.list(["empty", "unit", "option"])]))(k))
    c.ensures("stack_view(self) == old(stack_view(self)) and node.name == old(node.name)", "stack-and-name-untouched")
    c.no_raise()
    c.modifies()


# ---- branching ---------------------------------------------------------------------------------------------------
def branching(b, shape, indents=True):
    """shape: list of clause counts per open block, outermost first; truth values and indents symbolic"""
    cases, branches, state = {}, {}, []
    n = 0
    for bi, ncl in enumerate(shape):
        bid = f"@{bi + 1}"
        ids = []
        kind = b.int(f"k{bi}") if indents else 2 * bi
        for ci in range(ncl):
            n += 1
            cid = f"@c{n}"
            ids.append(cid)
            path = "".join(f"@c{1 + sum(shape[:j])}." for j in range(bi)) + "@" if False else ("x." * bi) + "@"
            cases[cid] = b.obj(CASE, path=path, value=b.obj(BOOL, value=b.bool(f"t{bi}_{ci}"), unit=None), code="", expr="", branch_id=bid, branch_part=ci,
                               case_id=cid, case_type="case", indent=kind)
        branches[bid] = b.obj(BRANCH, cases=b.list(ids), types=b.list(["case"] * ncl), nodes=b.dict({}))
        state.append(bid)
    return b.obj(BL, state=b.list(state), branches=b.dict(branches), cases=b.dict(cases), num_cases=n, num_branches=len(shape))


SHAPES = [s for k in range(0, 4) for s in itertools.product([1, 2, 3], repeat=k) if sum(s) <= 6]


@spec
def selected(bl, bid):
    """the block's current clause is its first true clause"""
    cs = [bl.cases[c].value.value for c in bl.branches[bid].cases]
    return cs[-1] and not any(cs[:-1])


@contract(BL + ".false_case", ["C15"], name="BranchingList.false_case")
def _(c):
    c.bound = BOUND
    for shape in SHAPES:
        c.scenario("blocks" + "-".join(map(str, shape)) if shape else "no-open-block", (lambda shape: lambda b: dict(args=[branching(b, shape, indents=False)]))(shape))
    c.ensures("bool(result) == (not all([selected(self, bid) for bid in self.state]))", "skipped-iff-some-enclosing-block-is-not-in-its-first-true-clause")
    c.no_raise()
    c.modifies()


@spec
def open_blocks(bl):
    return [(bl.cases[bl.branches[bid].cases[-1]].indent, bid) for bid in bl.state]


@contract(BL + ".close_ended", ["C15"], name="BranchingList.close_ended")
def _(c):
    c.bound = BOUND
    for shape in [(), (1,), (2,), (1, 1), (2, 1), (1, 2, 1), (3, 1, 2)]:
        c.scenario("blocks" + "-".join(map(str, shape)) if shape else "no-open-block", (lambda shape: lambda b: dict(args=[branching(b, shape), node(b)]))(shape))
    c.requires("all([open_blocks(self)[i][0] < open_blocks(self)[i + 1][0] for i in range(len(self.state) - 1)])")
    c.ensures("open_blocks(self) == [v for v in old(open_blocks(self)) if v[0] < node.indent]", "exactly-the-blocks-with-a-shallower-keyword-stay-open")
    c.no_raise()
    c.modifies("self.state[]")


def case_node(b, ctype, path, num):
    return b.obj(NODE, code=f"@{ctype}", indent=b.int("d"), name=f"{path}{num}", keyword="case", case_type=ctype, value=b.obj(BOOL, value=b.bool("tv"), unit=None), value_expr="")


@spec
def block_view(bl):
    """open blocks, outermost first: (keyword indent, path, clause kinds, truth values)"""
    return [(bl.cases[bl.branches[bid].cases[-1]].indent, bl.cases[bl.branches[bid].cases[-1]].path, list(bl.branches[bid].types),
             [bl.cases[c].value.value for c in bl.branches[bid].cases]) for bid in bl.state]


@spec
def machine(view, kind, d, path, truth):
    """the block machine of the property for one keyword line: blocks whose keyword is indented deeper (or
    equally, on another path) are closed; then @case adds a clause to the block at this position or opens a
    new block, @else adds the final clause, @end closes; 'error' for a misplaced @else/@end"""
    while len(view) > 0 and (d < view[-1][0] or (d == view[-1][0] and path != view[-1][1])):
        view = view[:-1]
    same = len(view) > 0 and view[-1][1] == path
    if kind == 'case':
        if same:
            return view[:-1] + [(d, path, view[-1][2] + ['case'], view[-1][3] + [truth])]
        return view + [(d, path, ['case'], [truth])]
    if kind == 'else':
        if same:
            return view[:-1] + [(d, path, view[-1][2] + ['else'], view[-1][3] + [truth])]
        return 'error'
    if same:
        return view[:-1]
    return 'error'


@contract(BL + ".solve_case", ["C15"], name="BranchingList.solve_case")
def _(c):
    c.bound = BOUND
    for shape in [(), (1,), (2,), (1, 1), (2, 1), (1, 2, 1)]:
        for ctype in ("case", "else", "end"):
            for rel in ("same-path-as-innermost", "same-path-as-outermost", "nested-path", "other-path"):
                if not shape and rel != "other-path":
                    continue
                depth = len(shape)
                path = {"same-path-as-innermost": ("x." * (depth - 1)) + "@", "same-path-as-outermost": "@", "nested-path": ("x." * depth) + "@", "other-path": "y.@"}[rel]

                def pre(b, shape=shape, ctype=ctype, path=path):
                    bl = branching(b, shape)
                    n = case_node(b, ctype, path, sum(shape) + 1)
                    return dict(args=[bl, n], env=dict(kind=ctype, path=path))
                c.scenario(f"blocks{'-'.join(map(str, shape)) or '0'}/{ctype}/{rel}", pre)
    c.requires("all([block_view(self)[i][0] < block_view(self)[i + 1][0] for i in range(len(self.state) - 1)]) and node.indent >= 0 and all([v[0] >= 0 for v in block_view(self)])")
    c.requires("kind != 'else' or node.value.value")
    c.ensures("block_view(self) == machine(old(block_view(self)), kind, node.indent, path, node.value.value)", "refines-the-block-machine")
    c.raises("machine(block_view(self), kind, node.indent, path, node.value.value) == 'error'", label="misplaced-else-or-end-is-an-error")
