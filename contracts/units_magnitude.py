"""Magnitude: value arithmetic and propagation of absolute uncertainties (C08; value part used by C06)."""
from pyvc.contract import contract, spec

MAG = "units/magnitude.py::Magnitude"


def mag(b, p, err):
    return b.obj(MAG, value=b.real(p + "v"), error=(b.real(p + "e") if err else None))


@spec
def err_ok(m):
    return m.error is None or m.error >= 0


@spec
def absv(x):
    return x if x >= 0 else -x


def cases(c, binary=True):
    for le in (True, False):
        for re_ in (True, False):
            c.scenario(f"{'err' if le else 'exact'}-{'err' if re_ else 'exact'}",
                       (lambda le, re_: lambda b: dict(args=[b.obj(MAG, value=0.0), mag(b, "a", le), mag(b, "b", re_)]))(le, re_))


for op, sym in (("_add", "+"), ("_sub", "-")):
    @contract(f"{MAG}.{op}", ["C08", "C06"])
    def _(c, sym=sym):
        cases(c)
        c.requires("err_ok(left) and err_ok(right)")
        c.ensures(f"result.value == left.value {sym} right.value", "value")
        c.ensures("(result.error is None) == (left.error is None and right.error is None)", "exact-iff-both-exact")
        c.ensures("result.error is None or result.error == (0 if left.error is None else left.error) + (0 if right.error is None else right.error)", "errors-add")
        c.ensures("err_ok(result)", "error-non-negative")
        c.fresh("result")
        c.no_raise()
        c.modifies()


@contract(f"{MAG}._mul", ["C08", "C06"])
def _(c):
    cases(c)
    # the same object as both factors (x*x): the rule does not depend on the operands being different objects
    for e in (True, False):
        c.scenario("same-object-err" if e else "same-object-exact", (lambda e: lambda b: (lambda m: dict(args=[b.obj(MAG, value=0.0), m, m]))(mag(b, "a", e)))(e))
    c.requires("err_ok(left) and err_ok(right)")
    c.ensures("result.value == left.value * right.value", "value")
    c.ensures("(result.error is None) == (left.error is None and right.error is None)", "exact-iff-both-exact")
    c.ensures("err_ok(result)", "error-non-negative")
    c.ensures("((result.error == left.error * absv(right.value)) if (left.error is not None and right.error is None) else True)", "exact-factor-scales-by-absolute-value[right]")
    c.ensures("((result.error == right.error * absv(left.value)) if (left.error is None and right.error is not None) else True)", "exact-factor-scales-by-absolute-value[left]")
    c.ensures("((result.error >= left.value * right.error + right.value * left.error) if (left.error is not None and right.error is not None and left.value > 0 and right.value > 0) else True)", "first-order-lower-bound")
    c.fresh("result")
    c.no_raise()
    c.modifies()


@contract(f"{MAG}._truediv", ["C08", "C06"])
def _(c):
    cases(c)
    c.requires("err_ok(left) and err_ok(right) and right.value != 0")
    c.requires("right.error is None or (right.value - right.error != 0 and right.value + right.error != 0)")
    c.ensures("result.value == left.value / right.value", "value")
    c.ensures("(result.error is None) == (left.error is None and right.error is None)", "exact-iff-both-exact")
    c.ensures("err_ok(result)", "error-non-negative")
    c.ensures("((result.error == left.error / absv(right.value)) if (left.error is not None and right.error is None) else True)", "exact-divisor-scales-by-reciprocal-absolute-value")
    c.ensures("((result.error >= (left.value * right.error + right.value * left.error) / (right.value * right.value)) if (left.error is not None and right.error is not None and left.value > 0 and right.value > 0 and right.error < 2 * right.value and right.error != right.value) else True)", "first-order-lower-bound")
    c.fresh("result")
    c.no_raise()
    c.modifies()


@contract(f"{MAG}.__neg__", ["C08", "C06"])
def _(c):
    for e in (True, False):
        c.scenario("err" if e else "exact", (lambda e: lambda b: dict(args=[mag(b, "a", e)]))(e))
    c.requires("err_ok(self)")
    c.ensures("result.value == -self.value", "value")
    c.ensures("result.error == self.error if self.error is not None else result.error is None", "error-kept")
    c.fresh("result")
    c.no_raise()
    c.modifies()


@contract(f"{MAG}.__pow__", ["C08"])
def _(c):
    for e in (True, False):
        for p in (2, 3, -1, -2, 1):
            c.scenario(f"{'err' if e else 'exact'}-pow{p}", (lambda e, p: lambda b: dict(args=[mag(b, "a", e), p]))(e, p))
    c.requires("err_ok(self) and self.value != 0")
    c.ensures("(result.error is None) == (self.error is None)", "exact-iff-exact")
    c.ensures("err_ok(result)", "error-non-negative")
    c.fresh("result")
    c.no_raise()
    c.modifies()


@contract(f"{MAG}.__init__", ["C08", "C06"])
def _(c):
    c.scenario("value", lambda b: dict(args=[b.obj(MAG), b.real("v")]))
    c.scenario("value-abse", lambda b: dict(args=[b.obj(MAG), b.real("v"), b.real("e")]))
    c.scenario("value-rele", lambda b: dict(args=[b.obj(MAG), b.real("v"), None, b.real("r")]))
    c.requires("(abse is None or abse >= 0) and (rele is None or rele >= 0)")
    c.ensures("self.value == value", "value")
    c.ensures("self.error is None if (abse is None and rele is None) else (self.error == abse if abse is not None else self.error == absv(value) * rele / 100)", "error")
    c.ensures("err_ok(self)", "error-non-negative")
    c.no_raise()
    c.modifies("self.value", "self.error")


@contract(f"{MAG}.rele", ["C08"])
def _(c):
    c.scenario("set", lambda b: dict(args=[mag(b, "a", False), b.real("r")]))
    c.requires("rele >= 0")
    c.ensures("err_ok(self) and self.error == absv(self.value) * rele / 100", "absolute-error-from-relative")
    c.no_raise()
    c.modifies("self.error")


# ---- a plain number as the other operand (an int or a float, of either sign): the same rules as for an exact magnitude -----------------------
for meth, sym in (("__mul__", "*"), ("__rmul__", "*"), ("__truediv__", "/")):
    @contract(f"{MAG}.{meth}", ["C08", "C06"], name=f"Magnitude.{meth}[plain-number]")
    def _(c, meth=meth, sym=sym):
        for err in (True, False):
            for kind in ("real", "int"):
                c.scenario(f"{'err' if err else 'exact'}-{kind}", (lambda err, kind: lambda b: dict(args=[mag(b, "a", err), getattr(b, kind)("k")]))(err, kind))
        c.requires("err_ok(self)" + (" and other != 0" if sym == "/" else ""))
        c.ensures(f"result.value == self.value {sym} other", "value")
        c.ensures("(result.error is None) == (self.error is None)", "exact-iff-exact")
        c.ensures("result.error is None or result.error == " + ("self.error * absv(other)" if sym == "*" else "self.error / absv(other)"), "uncertainty-scaled-by-the-absolute-number")
        c.ensures("err_ok(result)", "error-non-negative")
        c.no_raise()
