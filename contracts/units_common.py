"""specification helpers shared by the Quantity contracts"""
from fractions import Fraction as PF

from pyvc.contract import spec
from contracts import unitdata as U


@spec
def absv(x):
    return x if x >= 0 else -x


@spec
def near(a, b):
    """a == b up to the float rounding of table constants (relative 1e-11)"""
    return absv(a - b) <= absv(b) / 100000000000


@spec
def obs(q):
    """what a quantity reports and computes with: value and its number type, units as text, uncertainty, and the unit list itself
    (exponent per unit, factor)"""
    return (q.magnitude.value, typename(q.magnitude.value), q.baseunits.expression, q.magnitude.error,
            [(k, f.num / f.den) for k, f in q.baseunits.baseunits.items()], q.baseunits.magnitude)


def T(s):
    """'k:g m s-2' -> term list"""
    out = []
    for tok in s.split():
        sym, _, e = tok.partition("^")
        p, _, u = sym.rpartition(":")
        n, d = (1, 1)
        if e:
            n, _, d = e.partition("/")
            n, d = int(n), int(d or 1)
        out.append((p, u, n, d))
    return out


def merge(ta, tb, sign):
    """exponent-wise sum (sign=+1) or difference (sign=-1), left operand's order first, zeros dropped"""
    out = []
    for (p, u, n, d) in ta:
        out.append([p, u, PF(n, d)])
    for (p, u, n, d) in tb:
        for o in out:
            if o[0] == p and o[1] == u:
                o[2] += sign * PF(n, d)
                break
        else:
            out.append([p, u, sign * PF(n, d)])
    return [(p, u, e.numerator, e.denominator) for p, u, e in out if e != 0]


def fold(terms):
    """units whose dimensions cancel in a result are dropped and their factors folded into the number"""
    if any(U.dims(terms)):
        return terms, 1.0
    keep = [t for t in terms if not any(U.dims([t]))]
    gone = [t for t in terms if any(U.dims([t]))]
    return keep, U.factor(gone)


