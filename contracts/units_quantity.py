"""C06 (arithmetic agrees with base-dimension arithmetic), C07 (operands are not altered, results do not
share mutable state), C08 (uncertainty of results) for the Quantity operators.

Unit structure is concrete (pairs from the published tables), magnitudes and uncertainties are symbolic."""
import itertools
import os
from fractions import Fraction as PF

from pyvc.contract import contract, spec, lemma
from contracts import unitdata as U

Q = "units/quantity.py::Quantity"
FR = "units/fraction.py::Fraction"
TIER = os.environ.get("PYVC_TIER", "quick")


from contracts.units_common import absv, near, obs, T, merge, fold


ADD_PAIRS = [("m", "m"), ("m", "c:m"), ("k:m", "in"), ("c:m", "k:m"), ("J", "erg"), ("k:g m s^-2", "N"), ("N", "k:g m s^-2"),
             ("m^2", "c:m^2"), ("k:m h^-1", "m s^-1"), ("g c:m^-3", "k:g m^-3"), ("s", "min"), ("m^1/2", "c:m^1/2"), ("Hz", "k:Hz"),
             ("rad", "deg"), ("%", "ppth"), ("eV", "J"), ("l", "m^3"), ("atm", "Pa"), ("W", "J s^-1")]
BAD_ADD = [("m", "s"), ("m", "m^2"), ("J", "W"), ("k:g", "m"), ("Hz", "s"), ("Ohm", "S"), ("m", "c:m^-1"), ("rad", "m"), ("mol", "rad")]
MUL_PAIRS = [("m", "s"), ("k:m", "m"), ("m", "m^-1"), ("k:m", "c:m^-1"), ("k:g", "g^-1"), ("N", "m"), ("J", "s^-1"), ("m^2", "m"),
             ("m^1/2", "m^1/2"), ("k:m h^-1", "h"), ("m s^-1", "s m^-1"), ("k:m", "k:m"), ("rad", "rad"), ("%", "m"), ("m", "k:m^-1"),
             ("g c:m^-3", "c:m^3"), ("eV", "eV^-1"), ("J", "erg^-1")]
# dimensions cancel while a dimensionless table unit stays: only the factors of the dropped units are folded in
KEPT_PAIRS = [("% m", "k:m^-1"), ("ppth c:m", "m^-1"), ("rad s", "min^-1"), ("% k:g", "g^-1")]
if TIER != "thorough":
    ADD_PAIRS, MUL_PAIRS = ADD_PAIRS[:10], MUL_PAIRS[:12] + KEPT_PAIRS[:2]
else:
    MUL_PAIRS = MUL_PAIRS + KEPT_PAIRS


def two(bd, ua, ub, errs=False):
    ea = bd.real("ea") if errs else None
    eb = bd.real("eb") if errs else None
    a = bd.new(Q, bd.real("a"), U.render(T(ua)), **(dict(abse=ea) if errs else {}))
    b = bd.new(Q, bd.real("b"), U.render(T(ub)), **(dict(abse=eb) if errs else {}))
    return a, b, dict(a=bd.getattr(bd.getattr(a, "magnitude"), "value"), b=bd.getattr(bd.getattr(b, "magnitude"), "value"), ea=ea, eb=eb)


for opname, sym in (("__add__", "+"), ("__sub__", "-")):
    @contract(f"{Q}.{opname}", ["C06", "C07", "C08"], name=f"Quantity.{opname}[same-dimension]")
    def _(c, sym=sym):
        for ua, ub in ADD_PAIRS:
            def pre(bd, ua=ua, ub=ub):
                a, b, env = two(bd, ua, ub, errs=True)
                env.update(fa=U.factor(T(ua)), fb=U.factor(T(ub)), ua=U.render(T(ua)), qa=a, qb=b)
                return dict(args=[a, b], env=env)
            c.scenario(f"{ua} {sym} {ub}", pre)
        c.requires("ea >= 0 and eb >= 0")
        c.ensures(f"near(result.magnitude.value * fa, a * fa {sym} b * fb)", "base-value-is-the-sum" if sym == "+" else "base-value-is-the-difference")
        c.ensures("result.baseunits.expression == ua", "left-operand-units")
        c.ensures("near(result.magnitude.error * fa, ea * fa + eb * fb) and result.magnitude.error >= 0", "uncertainties-add")
        c.ensures("obs(qa) == old(obs(qa)) and obs(qb) == old(obs(qb))", "operands-report-the-same")
        c.fresh("result.magnitude", "result-magnitude-is-fresh")
        c.no_raise()
        c.modifies()

    @contract(f"{Q}.{opname}", ["C06", "C07"], name=f"Quantity.{opname}[different-dimension]")
    def _(c, sym=sym):
        for ua, ub in BAD_ADD:
            def pre(bd, ua=ua, ub=ub):
                a, b, env = two(bd, ua, ub)
                env.update(qa=a, qb=b)
                return dict(args=[a, b], env=env)
            c.scenario(f"{ua} {sym} {ub}", pre)
        c.raises("True", label="refused")
        c.on_raise("obs(qa) == old(obs(qa)) and obs(qb) == old(obs(qb))", "operands-report-the-same")
        c.modifies()


for opname, sym, sign in (("__mul__", "*", 1), ("__truediv__", "/", -1)):
    @contract(f"{Q}.{opname}", ["C06", "C07", "C08"], name=f"Quantity.{opname}")
    def _(c, sym=sym, sign=sign):
        for ua, ub in MUL_PAIRS:
            def pre(bd, ua=ua, ub=ub):
                a, b, env = two(bd, ua, ub)
                terms, folded = fold(merge(T(ua), T(ub), sign))
                env.update(fa=U.factor(T(ua)), fb=U.factor(T(ub)), fr=U.factor(terms), ur=U.render(terms) or None, qa=a, qb=b)
                return dict(args=[a, b], env=env)
            c.scenario(f"{ua} {sym} {ub}", pre)
        if sym == "/":
            c.requires("b != 0")
        c.ensures(f"near(result.magnitude.value * fr, (a * fa) {sym} (b * fb))", "base-value-is-the-product" if sym == "*" else "base-value-is-the-quotient")
        c.ensures("result.baseunits.expression == ur", "exponents-add" if sym == "*" else "exponents-subtract")
        c.ensures("result.magnitude.error is None", "exact-operands-give-exact-result")
        c.ensures("obs(qa) == old(obs(qa)) and obs(qb) == old(obs(qb))", "operands-report-the-same")
        c.fresh("result.magnitude", "result-magnitude-is-fresh")
        c.fresh("result.baseunits", "result-units-are-fresh")
        c.no_raise()
        c.modifies()


# plain numbers on either side
@contract(f"{Q}.__mul__", ["C06", "C07", "C08"], name="Quantity.__mul__[number]")
def _(c):
    for u in ["m", "k:g m s^-2"]:
        c.scenario(f"{u} * k", (lambda u: lambda bd: _num(bd, u, False))(u))
    c.requires("e >= 0")
    c.ensures("result.magnitude.value == x * k and result.baseunits.expression == ux", "scaled")
    c.ensures("result.magnitude.error == e * absv(k)", "uncertainty-scaled-by-absolute-value")
    c.ensures("obs(q) == old(obs(q))", "operand-reports-the-same")
    c.no_raise()
    c.modifies()


@contract(f"{Q}.__rmul__", ["C06", "C07"], name="Quantity.__rmul__[number]")
def _(c):
    for u in ["m", "k:g m s^-2"]:
        c.scenario(f"k * {u}", (lambda u: lambda bd: _num(bd, u, False))(u))
    c.requires("e >= 0")
    c.ensures("result.magnitude.value == k * x and result.baseunits.expression == ux", "scaled")
    c.ensures("obs(q) == old(obs(q))", "operand-reports-the-same")
    c.no_raise()
    c.modifies()


@contract(f"{Q}.__truediv__", ["C06", "C07", "C08"], name="Quantity.__truediv__[number]")
def _(c):
    for u in ["m", "k:g m s^-2"]:
        c.scenario(f"{u} / k", (lambda u: lambda bd: _num(bd, u, False))(u))
    c.requires("e >= 0 and k != 0")
    c.ensures("result.magnitude.value == x / k and result.baseunits.expression == ux", "scaled")
    c.ensures("result.magnitude.error == e / absv(k)", "uncertainty-scaled-by-reciprocal-absolute-value")
    c.ensures("obs(q) == old(obs(q))", "operand-reports-the-same")
    c.no_raise()
    c.modifies()


@contract(f"{Q}.__rtruediv__", ["C06", "C07"], name="Quantity.__rtruediv__[number]")
def _(c):
    for u, inv in [("m", "m-1"), ("k:g m s^-2", "kg-1*m-1*s2")]:
        c.scenario(f"k / {u}", (lambda u, inv: lambda bd: _num(bd, u, False, inv=inv))(u, inv))
    c.requires("e >= 0 and x != 0 and x - e != 0 and x + e != 0")
    c.ensures("result.magnitude.value == k / x and result.baseunits.expression == inv", "reciprocal-units")
    c.ensures("obs(q) == old(obs(q))", "operand-reports-the-same")
    c.no_raise()
    c.modifies()


def _num(bd, u, dimensionless, inv=None):
    e = bd.real("e")
    q = bd.new(Q, bd.real("x"), U.render(T(u)), abse=e)
    k = bd.real("k")
    return dict(args=[q, k], env=dict(x=bd.getattr(bd.getattr(q, "magnitude"), "value"), k=k, e=e, q=q, ux=U.render(T(u)), inv=inv))


@contract(f"{Q}.__add__", ["C06"], name="Quantity.__add__[number]")
def _(c):
    c.scenario("number + k", lambda bd: (lambda q, k: dict(args=[q, k], env=dict(x=bd.getattr(bd.getattr(q, "magnitude"), "value"), k=k)))(bd.new(Q, bd.real("x")), bd.real("k")))
    c.ensures("result.magnitude.value == x + k and result.baseunits.expression is None", "plain-sum")
    c.no_raise()
    c.modifies()


@contract(f"{Q}.__radd__", ["C06"], name="Quantity.__radd__[number-and-unit]")
def _(c):
    c.scenario("k + m", lambda bd: dict(args=[bd.new(Q, bd.real("x"), "m"), bd.real("k")]))
    c.raises("True", label="refused")
    c.modifies()


@contract(f"{Q}.__neg__", ["C06", "C07", "C08"], name="Quantity.__neg__")
def _(c):
    for u in ["m", "k:g m s^-2", "d:B"]:
        def pre(bd, u=u):
            e = bd.real("e")
            q = bd.new(Q, bd.real("x"), U.render(T(u)), abse=e)
            return dict(args=[q], env=dict(x=bd.getattr(bd.getattr(q, "magnitude"), "value"), e=e, q=q, ux=U.render(T(u))))
        c.scenario(f"-{u}", pre)
    c.requires("e >= 0")
    c.ensures("result.magnitude.value == -x and result.baseunits.expression == ux and result.magnitude.error == e", "negated")
    c.ensures("obs(q) == old(obs(q))", "operand-reports-the-same")
    c.fresh("result.magnitude", "result-magnitude-is-fresh")
    c.no_raise()
    c.modifies()


# powers: integer, (num, den) pair, Fraction, float
POWERS = [("1", 1, (1, 1)), ("1.0", 1.0, (1, 1)), ("(2,2)", (2, 2), (1, 1)), ("2", 2, (2, 1)), ("3", 3, (3, 1)), ("-1", -1, (-1, 1)), ("(1,2)", (1, 2), (1, 2)), ("(3,2)", (3, 2), (3, 2)),
          ("Fraction(1,2)", "F12", (1, 2)), ("0.5", 0.5, (1, 2)), ("1.5", 1.5, (3, 2)), ("2.0", 2.0, (2, 1)), ("-0.5", -0.5, (-1, 2)),
          ("0.25", 0.25, (1, 4))]


@contract(f"{Q}.__pow__", ["C06", "C07"], name="Quantity.__pow__")
def _(c):
    for u in ["m", "k:m s^-1", "m^2", "%", "[pi]", "ppth rad^-1"]:   # the last three: dimensionless table units stay units
        for label, p, (pn, pd) in POWERS:
            def pre(bd, u=u, p=p, pn=pn, pd=pd):
                q = bd.new(Q, bd.real("x"), U.render(T(u)))
                pw = bd.new(FR, 1, 2) if p == "F12" else p
                terms = [(pp, uu, PF(n, d) * PF(pn, pd)) for (pp, uu, n, d) in T(u)]
                terms = [(pp, uu, e.numerator, e.denominator) for pp, uu, e in terms]
                x = bd.getattr(bd.getattr(q, "magnitude"), "value")
                return dict(args=[q, pw], env=dict(x=x, q=q, ur=U.render(terms), pf=pn / pd))
            c.scenario(f"{u} ** {label}", pre)
    c.requires("x > 0")
    c.ensures("result.baseunits.expression == ur", "exponents-multiplied-by-the-power")
    c.ensures("result.magnitude.value == x ** pf", "value-raised-to-the-power")
    c.ensures("obs(q) == old(obs(q))", "operand-reports-the-same")
    c.fresh("result.magnitude", "result-magnitude-is-fresh")
    c.no_raise()
    c.modifies()


# the product lemma behind "base value of a product = product of base values"
lemma("base-value/product", "C06",
      lambda b: dict(env=dict(a=b.real("a"), b=b.real("b"), fa=b.real("fa"), fb=b.real("fb"))),
      "(a * b) * (fa * fb) == (a * fa) * (b * fb) and (a / b) * (fa / fb) == (a * fa) / (b * fb)",
      assumes=["fa > 0 and fb > 0 and b != 0"], ns=globals())


# ---- array magnitudes: element-wise, operands' arrays not written to, results do not share arrays with operands -----------------
import numpy as _np


def _arrq(bd, p, unit, n=3, err=None):
    xs = [bd.real(f"{p}{i}") for i in range(n)]
    arr = bd.call(bd.const(_np.array), bd.list(list(xs)))
    kw = dict(abse=err) if err is not None else {}
    return xs, arr, bd.new(Q, arr, U.render(T(unit)), **kw)


@spec
def elems(a):
    return [v for v in a]


for opname, sym in (("__add__", "+"), ("__sub__", "-")):
    @contract(f"{Q}.{opname}", ["C06", "C07", "C08"], name=f"Quantity.{opname}[array-magnitudes]")
    def _(c, sym=sym):
        c.bound = "arrays of three elements (values and the common uncertainty symbolic)"
        for ua, ub in [("m", "k:m"), ("k:m", "c:m"), ("J", "erg"), ("m", "m")]:
            def pre(bd, ua=ua, ub=ub):
                ea, eb = bd.real("ea"), bd.real("eb")
                xs, arra, a = _arrq(bd, "x", ua, err=ea)
                ys, arrb, b = _arrq(bd, "y", ub, err=eb)
                return dict(args=[a, b], env=dict(xs=xs, ys=ys, fa=U.factor(T(ua)), fb=U.factor(T(ub)), qa=a, qb=b, arra=arra, arrb=arrb, ea=ea, eb=eb,
                                                  erra=bd.getattr(bd.getattr(a, "magnitude"), "error"), errb=bd.getattr(bd.getattr(b, "magnitude"), "error")))
            c.scenario(f"{ua} {sym} {ub}", pre)
        c.requires("ea >= 0 and eb >= 0")
        c.ensures(f"all([near(r * fa, x * fa {sym} y * fb) for r, x, y in zip(elems(result.magnitude.value), xs, ys)]) and len(elems(result.magnitude.value)) == len(xs)", "element-wise-in-base-dimensions")
        c.ensures("all([near(r * fa, ea * fa + eb * fb) and r >= 0 for r in elems(result.magnitude.error)])", "uncertainties-add")
        c.ensures("elems(qa.magnitude.value) == xs and elems(qb.magnitude.value) == ys and elems(arra) == xs and elems(arrb) == ys", "operands-keep-their-elements")
        c.ensures("elems(erra) == [ea for x in xs] and elems(errb) == [eb for y in ys]", "operands-keep-their-uncertainties")
        c.fresh("result.magnitude.value", "result-array-is-fresh")
        c.fresh("result.magnitude.error", "result-uncertainty-array-is-fresh")
        c.no_raise()


@contract(f"{Q}.__neg__", ["C07", "C08"], name="Quantity.__neg__[array-magnitude]")
def _(c):
    c.bound = "arrays of three elements with a common uncertainty"
    for u in ["m", "k:g m s^-2"]:
        def pre(bd, u=u):
            e = bd.real("e")
            xs, arr, q = _arrq(bd, "x", u, err=e)
            return dict(args=[q], env=dict(xs=xs, e=e, q=q, err0=bd.getattr(bd.getattr(q, "magnitude"), "error")))
        c.scenario(f"-{u}", pre)
    c.requires("e >= 0")
    c.ensures("elems(result.magnitude.value) == [-x for x in xs] and elems(result.magnitude.error) == [e for x in xs]", "negated-with-the-same-uncertainty")
    c.ensures("elems(q.magnitude.value) == xs and elems(err0) == [e for x in xs]", "operand-keeps-elements-and-uncertainties")
    c.fresh("result.magnitude.value", "result-array-is-fresh")
    c.fresh("result.magnitude.error", "result-uncertainty-array-is-fresh")
    c.no_raise()


# ---- uncertainties when the units of a result cancel and their factors are folded into the number --------------------------------
@contract(f"{Q}.__truediv__", ["C06", "C08"], name="Quantity.__truediv__[uncertain-over-exact-units-fold]")
def _(c):
    for ua, ub in [("c:m", "m"), ("k:m", "m"), ("g", "k:g"), ("m", "m")]:
        def pre(bd, ua=ua, ub=ub):
            e = bd.real("e")
            a = bd.new(Q, bd.real("x"), U.render(T(ua)), abse=e)
            b = bd.new(Q, bd.real("k"), U.render(T(ub)))
            return dict(args=[a, b], env=dict(x=bd.getattr(bd.getattr(a, "magnitude"), "value"), k=bd.getattr(bd.getattr(b, "magnitude"), "value"), e=e, f=U.factor(T(ua)) / U.factor(T(ub))))
        c.scenario(f"{ua} / {ub}", pre)
    c.requires("e >= 0 and k != 0")
    c.ensures("near(result.magnitude.value, x * f / k) and result.baseunits.expression is None", "units-cancel-factor-folded-into-the-number")
    c.ensures("near(result.magnitude.error, e * f / absv(k)) and result.magnitude.error >= 0", "uncertainty-folded-with-the-same-factor")
    c.no_raise()


@contract(f"{Q}.__init__", ["C06", "C08"], name="Quantity.__init__[uncertain-units-fold]")
def _(c):
    for expr, f in [("cm/m", 0.01), ("km*m-1", 1000.0), ("g/kg", 0.001), ("%*cm/m", 0.01)]:
        def pre(bd, expr=expr, f=f):
            return dict(args=[bd.obj(Q), bd.real("x"), expr], kwargs=dict(abse=bd.real("e")), env=dict(f=f, kept="%" if "%" in expr else None))
        c.scenario(expr, pre)
    c.requires("abse >= 0")
    c.ensures("near(self.magnitude.value, magnitude * f) and near(self.magnitude.error, abse * f)", "value-and-uncertainty-folded-with-the-same-factor")
    c.ensures("self.baseunits.expression == kept", "cancelled-units-dropped")
    c.no_raise()


# ---- integer-valued arrays: the magnitude is held as floats, so an uncertainty that is not a whole number survives ----------------------
def _intarrq(bd, p, unit, err):
    xs = [bd.int(f"{p}{i}") for i in range(3)]
    arr = bd.call(bd.const(_np.array), bd.list(list(xs)))
    return xs, arr, bd.new(Q, arr, U.render(T(unit)), abse=err)


@contract(f"{Q}.__init__", ["C08"], name="Quantity.__init__[integer-array-with-uncertainty]")
def _(c):
    c.bound = "arrays of three integers (symbolic) with a real uncertainty"

    def pre(bd):
        xs = [bd.int(f"x{i}") for i in range(3)]
        arr = bd.call(bd.const(_np.array), bd.list(list(xs)))
        return dict(args=[bd.obj(Q), arr, "m"], kwargs=dict(abse=bd.real("e")), env=dict(xs=xs))
    c.scenario("int-array", pre)
    c.requires("abse >= 0")
    c.ensures("elems(self.magnitude.value) == xs and elems(self.magnitude.error) == [abse for x in xs]", "values-and-the-uncertainty-as-given")
    c.no_raise()


for opname, sym in (("__add__", "+"), ("__sub__", "-")):
    @contract(f"{Q}.{opname}", ["C08"], name=f"Quantity.{opname}[integer-arrays-with-uncertainty]")
    def _(c, sym=sym):
        c.bound = "arrays of three integers (symbolic) with real uncertainties"

        def pre(bd):
            ea, eb = bd.real("ea"), bd.real("eb")
            xs, arra, a = _intarrq(bd, "x", "m", ea)
            ys, arrb, b = _intarrq(bd, "y", "c:m", eb)
            return dict(args=[a, b], env=dict(xs=xs, ys=ys, ea=ea, eb=eb))
        c.scenario("m-cm", pre)
        c.requires("ea >= 0 and eb >= 0")
        c.ensures(f"all([near(r, x {sym} y / 100) for r, x, y in zip(elems(result.magnitude.value), xs, ys)])", "element-wise")
        c.ensures("all([near(r, ea + eb / 100) and r >= 0 for r in elems(result.magnitude.error)])", "uncertainties-add")
        c.no_raise()


@contract(f"{Q}.__mul__", ["C08"], name="Quantity.__mul__[integer-array-by-number]")
def _(c):
    c.bound = "arrays of three integers (symbolic) with a real uncertainty, multiplied by a real number"

    def pre(bd):
        e = bd.real("e")
        xs, arr, a = _intarrq(bd, "x", "m", e)
        return dict(args=[a, bd.real("k")], env=dict(xs=xs, e=e))
    c.scenario("int-array * k", pre)
    c.requires("e >= 0")
    c.ensures("all([near(r, x * other) for r, x in zip(elems(result.magnitude.value), xs)]) and all([near(r, e * absv(other)) for r in elems(result.magnitude.error)])", "scaled-with-the-uncertainty")
    c.no_raise()


# ---- an operand shown in a composite unit whose dimensions cancel (a number converted with to('m/km')): results are built from it,
#      the operand itself -- text, value AND its unit list -- stays as it is, so the same operation twice gives the same --------------------
CANCELLING = [("m/km", 1e-3), ("cm/m", 1e-2), ("s*min-1", 1 / 60)]
USES = [("__neg__", []), ("__add__", ["k"]), ("__sub__", ["k"]), ("__mul__", ["k"]), ("__eq__", ["other"])]


for meth, extra in USES:
    @contract(f"{Q}.{meth}", ["C07", "C06"], name=f"Quantity.{meth}[operand-shown-in-a-cancelling-unit]")
    def _(c, meth=meth, extra=extra):
        c.bound = "a number converted in place to one of the listed composite units whose dimensions cancel"
        for u, f in CANCELLING:
            def pre(bd, u=u, f=f):
                q = bd.new(Q, bd.real("x"))
                bd.call(bd.getattr(q, "to"), u)
                k = bd.real("k")
                args = [q] + [(k if a == "k" else bd.new(Q, k)) for a in extra]
                return dict(args=args, env=dict(q=q, k=k, f=f, v=bd.getattr(bd.getattr(q, "magnitude"), "value")))
            c.scenario(u, pre)
            if meth == "__eq__":
                c.scenario(u + "[as-right-operand]", (lambda pre: lambda bd: (lambda d: dict(args=d["args"][::-1], env=d["env"]))(pre(bd)))(pre))
        c.ensures("obs(q) == old(obs(q))", "operand-reports-the-same")
        if meth == "__neg__":
            c.ensures("near(result.value(), -v * f)", "base-value-negated")
        elif meth in ("__add__", "__sub__"):
            c.ensures(f"near(result.value() , v * f {'+' if meth == '__add__' else '-'} k)", "base-value-of-the-result")
        elif meth == "__mul__":
            c.ensures("near(result.value(), v * f * k)", "base-value-of-the-result")
        elif meth == "__eq__":
            c.ensures("implies(v * f == k and k != 0, result == True)", "equal-base-values-compare-equal")
        c.no_raise()


# ---- a plain number on the left of + or -: the result is in the units of the LEFT operand (none), its value the sum / difference of the
#      base values; the quantity on the right may be in a dimensionless table unit with a factor ----------------------------------------------
DIMLESS = [("%", 0.01), ("ppth", 0.001), ("[pi]", 3.141592653589793), (None, 1.0)]


for meth, sign in (("__radd__", "+"), ("__rsub__", "-")):
    @contract(f"{Q}.{meth}", ["C06", "C07"], name=f"Quantity.{meth}[number-and-dimensionless-quantity]")
    def _(c, meth=meth, sign=sign):
        c.bound = "quantities in %, ppth, [pi] and without unit; both numbers symbolic"
        for u, f in DIMLESS:
            def pre(bd, u=u, f=f):
                q = bd.new(Q, bd.real("x"), u) if u else bd.new(Q, bd.real("x"))
                k = bd.real("k")
                return dict(args=[q, k], env=dict(x=bd.getattr(bd.getattr(q, "magnitude"), "value"), k=k, f=f, q=q))
            c.scenario(f"k {sign} {u or 'number'}", pre)
        c.ensures("result.baseunits.expression is None", "units-of-the-left-operand")
        c.ensures(f"near(result.magnitude.value, k {sign} x * f)" if sign == "+" else "near(result.magnitude.value, k - x * f)", "base-value-is-the-sum" if sign == "+" else "base-value-is-the-difference")
        c.ensures("obs(q) == old(obs(q))", "operand-reports-the-same")
        c.no_raise()

    @contract(f"{Q}.{meth}", ["C06"], name=f"Quantity.{meth}[number-and-dimensional-quantity]")
    def _(c, meth=meth, sign=sign):
        for u in ("m", "k:g m s^-2"):
            c.scenario(f"k {sign} {u}", (lambda u: lambda bd: dict(args=[bd.new(Q, bd.real("x"), U.render(T(u))), bd.real("k")]))(u))
        c.raises("True", label="refused")


# ---- operands of different number kinds (a Decimal magnitude next to a float one): the product / quotient is computed from copies, each
#      operand keeps its value AND its number type ---------------------------------------------------------------------------------------------
from decimal import Decimal as _Dec

MIXED = [("decimal*float", _Dec("2"), 3.0, "__mul__"), ("float*decimal", 3.0, _Dec("2"), "__mul__"), ("decimal/float", _Dec("3"), 2.0, "__truediv__"), ("float/decimal", 3.0, _Dec("2"), "__truediv__")]


for label, va, vb, meth in MIXED:
    @contract(f"{Q}.{meth}", ["C07"], name=f"Quantity.{meth}[{label}]")
    def _(c, va=va, vb=vb, meth=meth):
        c.bound = "one Decimal and one float magnitude (concrete values), as quantities and with the second operand a bare number"
        for bare in (False, True):
            def pre(bd, bare=bare):
                a = bd.new(Q, bd.const(va), "m")
                b = bd.const(vb) if bare else bd.new(Q, bd.const(vb), "s")
                return dict(args=[a, b], env=dict(qa=a, qb=bd.new(Q, 1.0, "s") if bare else b))
            c.scenario("bare-number" if bare else "two-quantities", pre)
        c.ensures("obs(qa) == old(obs(qa)) and obs(qb) == old(obs(qb))", "operands-keep-value-and-number-type")
        c.no_raise()


# ---- an exact number times an uncertain array: every element's uncertainty is scaled by |number| -- its own uncertainty, not the largest ------
for meth in ("__rmul__", "__mul__"):
    @contract(f"{Q}.{meth}", ["C08"], name=f"Quantity.{meth}[number-and-array-with-elementwise-uncertainties]")
    def _(c, meth=meth):
        c.bound = "arrays of three elements with one uncertainty per element (all symbolic), multiplied by a real number"

        def pre(bd):
            es = [bd.real(f"e{i}") for i in range(3)]
            for e in es:
                bd.assume_rel(e, ">=", 0)
            xs, arr, a = _arrq(bd, "x", "m", err=bd.call(bd.const(_np.array), bd.list(list(es))))
            return dict(args=[a, bd.real("k")], env=dict(xs=xs, es=es))
        c.scenario("k * array", pre)
        c.ensures("all([near(r, x * other) for r, x in zip(elems(result.magnitude.value), xs)])", "values-scaled")
        c.ensures("len(elems(result.magnitude.error)) == 3 and all([near(r, e * absv(other)) for r, e in zip(elems(result.magnitude.error), es)])", "each-uncertainty-scaled-by-the-absolute-number")
        c.no_raise()


# ---- the augmented forms  q += r,  q -= r: the same sums and the same refusals as  q + r,  q - r; the object that q named before keeps
#      its value (the statement binds q to the result) ---------------------------------------------------------------------------------------
AUG_OK = [("m", "c:m", 0.01), ("k:m", "m", 0.001), ("s", "min", 60.0), ("J", "erg", 1e-7)]
AUG_BAD = [("s", "Hz"), ("Ohm", "S"), ("m", "m^-1"), ("J", "erg^-1"), ("m", "s"), ("rad", None)]


for op in ("+", "-"):
    @contract(f"{Q}.value", ["C06", "C07"], name=f"Quantity.value[after-augmented-{'sum' if op == '+' else 'difference'}]")
    def _(c, op=op):
        c.bound = "the listed unit pairs; both numbers symbolic"
        for ua, ub, f in AUG_OK:
            def pre(bd, ua=ua, ub=ub, f=f):
                a, b = bd.new(Q, bd.real("a"), U.render(T(ua))), bd.new(Q, bd.real("b"), U.render(T(ub)))
                av, bv = bd.getattr(bd.getattr(a, "magnitude"), "value"), bd.getattr(bd.getattr(b, "magnitude"), "value")
                r, exc = bd.aug_catching(op, a, b)
                bd.assume(exc is None)
                return dict(args=[r, U.render(T(ua))], env=dict(a=av, b=bv, f=f, qa=a, qb=b, r=r))
            c.scenario(f"{ua} {op}= {ub}", pre)
        c.ensures(f"near(result, a {op} b * f)", "base-value-is-the-sum" if op == "+" else "base-value-is-the-difference")
        c.ensures("qa.magnitude.value == a and qb.magnitude.value == b and not same_object(r, qa)", "the-objects-named-before-keep-their-values")
        c.no_raise()

    @contract(f"{Q}.value", ["C06"], name=f"Quantity.value[after-refused-augmented-{'sum' if op == '+' else 'difference'}]")
    def _(c, op=op):
        c.bound = "the listed pairs of different (also reciprocal) dimensions and an angle with a plain number"
        for ua, ub in AUG_BAD:
            def pre(bd, ua=ua, ub=ub):
                a = bd.new(Q, bd.real("a"), U.render(T(ua)))
                b = bd.new(Q, bd.real("b"), U.render(T(ub))) if ub else bd.real("b")
                av = bd.getattr(bd.getattr(a, "magnitude"), "value")
                r, exc = bd.aug_catching(op, a, b)
                return dict(args=[a, U.render(T(ua))], env=dict(a=av, refused=exc is not None))
            c.scenario(f"{ua} {op}= {ub or 'number'}", pre)
        c.ensures("refused", "refused-like-the-binary-operator")
        c.ensures("result == a", "left-operand-keeps-its-value")
        c.no_raise()


# ---- an operand that results from a fractional power landing on whole exponents (sqrt of an area is a length): sums and differences
#      with it are ordinary sums of lengths, on either side, at the FIRST use of the operand as well as later -------------------------------
for opname, sym in (("__add__", "+"), ("__sub__", "-")):
    @contract(f"{Q}.{opname}", ["C06"], name=f"Quantity.{opname}[operand-from-a-fractional-power]")
    def _(c, opname=opname, sym=sym):
        c.bound = "sqrt of an area and cube root of a volume (exponent as float, pair) as left or right operand of a sum with a length; magnitudes symbolic"
        for unit, p, label in (("m^2", 0.5, "m2**0.5"), ("c:m^2", (1, 2), "cm2**(1,2)"), ("m^3", (1, 3), "m3**(1,3)")):
            for side in ("left", "right"):
                def pre(bd, unit=unit, p=p, side=side):
                    x, y = bd.real("x"), bd.real("y")
                    bd.assume_rel(x, ">", 0)
                    root = bd.call(bd.getattr(bd.new(Q, x, U.render(T(unit))), "__pow__"), p)
                    f = U.factor(T(unit)) ** (0.5 if p in (0.5, (1, 2)) else 1.0 / 3)
                    other = bd.new(Q, y, "mm")
                    rv = bd.getattr(bd.getattr(root, "magnitude"), "value")
                    a, b = (root, other) if side == "left" else (other, root)
                    return dict(args=[a, b], env=dict(rv=rv, y=y, f=f, side=side))
                c.scenario(f"{label} {sym} mm [{side}]" if side == "left" else f"mm {sym} {label}", pre)
        op = "+" if sym == "+" else "-"
        c.ensures(f"near(result.magnitude.value, (rv {op} y * 0.001 / f) if side == 'left' else (y {op} rv * f / 0.001))", "base-value-is-the-sum-of-base-values-in-the-left-units")
        c.no_raise()
