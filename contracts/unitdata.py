"""Independent reading of the published unit tables (data only) for use in specifications.

A unit term is (prefix, symbol, num, den); an expression is a list of terms.  Its meaning is computed
here directly from the table rows -- prefix factor times unit factor, raised to the exponent, multiplied
across terms; dimension vectors added -- without going through any parsing or arithmetic code of the
library.  The library's tables are imported as data (they are what the property calls "the published
tables")."""
from fractions import Fraction as Q
import math

from scinumtools.units.settings import UNIT_PREFIXES, UNIT_STANDARD

PREFIX = {k: v.magnitude for k, v in UNIT_PREFIXES.items()}
UNITS = {}
for _k, _v in UNIT_STANDARD.items():
    _dims = tuple(Q(d[0], d[1]) if isinstance(d, tuple) else Q(d) for d in _v.dimensions)
    UNITS[_k] = dict(factor=float(_v.magnitude), dims=_dims, prefixes=_v.prefixes, definition=_v.definition)

TEMPERATURE = {'Cel', 'degF', 'degR'}
LOGARITHMIC = {'Np', 'B', 'Bm', 'BmW', 'BW', 'BV', 'BuV', 'BA', 'BuA', 'BOhm', 'BSPL', 'BSIL', 'BSWL', 'PR', 'AR'}


def admits(symbol, prefix):
    p = UNITS[symbol]["prefixes"]
    if prefix == "":
        return True
    if p is True:
        return prefix in PREFIX
    if isinstance(p, list):
        return prefix in p
    return False


def render(terms):
    out = []
    for (p, s, n, d) in terms:
        e = "" if (n, d) == (1, 1) else (str(n) if d == 1 else f"{n}:{d}")
        out.append(f"{p}{s}{e}")
    return "*".join(out)


def factor(terms):
    f = 1.0
    for (p, s, n, d) in terms:
        f *= ((PREFIX[p] if p else 1.0) * UNITS[s]["factor"]) ** (n / d)
    return f


def dims(terms):
    v = [Q(0)] * 8
    for (p, s, n, d) in terms:
        for i in range(8):
            v[i] += UNITS[s]["dims"][i] * Q(n, d)
    return tuple(v)


def linear_symbols():
    return [s for s in UNITS if s not in TEMPERATURE and s not in LOGARITHMIC]


def by_dimension(symbols=None):
    groups = {}
    for s in (symbols or linear_symbols()):
        groups.setdefault(UNITS[s]["dims"], []).append(s)
    return groups
