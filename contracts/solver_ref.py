"""Reference reading of the expression grammar, written from the property statement and the documented
operator / step tables (docs/source/solver/index.rst) -- NOT from the solver's code.

Precedence levels (documented evaluation order: what is evaluated earlier binds tighter):
  parentheses/functions > unary signs > ** > * / > + - > comparisons > ! > && > ||
operators of one step associate left to right."""
import itertools
import random
import re

PREC = {"||": 1, "&&": 2, "==": 4, "!=": 4, "<=": 4, ">=": 4, "<": 4, ">": 4, "+": 5, "-": 5, "*": 6, "/": 6, "**": 7}
NOT_PREC = 3
FUNCS = {"sin": 1, "cos": 1, "tan": 1, "sqrt": 1, "exp": 1, "log": 1, "log10": 1, "pow": 2, "logb": 2}


def parse(tokens):
    """precedence climbing over a token list -> AST; raises ValueError on ill-formed input"""
    pos = [0]

    def peek():
        return tokens[pos[0]] if pos[0] < len(tokens) else None

    def take():
        t = peek()
        pos[0] += 1
        return t

    def primary():
        t = take()
        if t is None:
            raise ValueError("operand expected")
        if t == "(":
            e = expr(0)
            if take() != ")":
                raise ValueError("unclosed parenthesis")
            return ("par", e)
        if isinstance(t, tuple) and t[0] == "fn":
            args = []
            if peek() != ")":
                args.append(expr(0))
                while peek() == ",":
                    take()
                    args.append(expr(0))
            if take() != ")":
                raise ValueError("unclosed function call")
            if len(args) != FUNCS[t[1]]:
                raise ValueError("wrong number of arguments")
            return ("fn", t[1]) + tuple(args)
        if isinstance(t, tuple) and t[0] == "num":
            return t
        raise ValueError("operand expected, got %r" % (t,))

    def unary():
        t = peek()
        if t in ("+", "-"):
            take()
            return ("neg" if t == "-" else "pos", unary())
        return primary()

    def expr(minp):
        # '!' sits between the comparisons and '&&'
        if peek() == "!" and minp <= NOT_PREC:
            take()
            left = ("not", expr(NOT_PREC + 1))
        else:
            left = unary()
        while True:
            op = peek()
            if op in PREC and PREC[op] >= minp:
                take()
                right = expr_rhs(PREC[op] + 1)
                left = ("bin", op, left, right)
            else:
                return left

    def expr_rhs(minp):
        return expr(minp)
    e = expr(0)
    if pos[0] != len(tokens):
        raise ValueError("unexpected token %r" % (peek(),))
    return e


def render(tokens, rng=None, blanks=0):
    out = []
    for t in tokens:
        if isinstance(t, tuple) and t[0] == "num":
            s = t[1]
        elif isinstance(t, tuple) and t[0] == "fn":
            s = t[1] + "("
        else:
            s = t
        pad = " " * (rng.randint(0, blanks) if rng else blanks)
        out.append(pad + s + (" " * (rng.randint(0, blanks) if rng else blanks)))
    text = "".join(out)
    return text


def safe_adjacent(tokens):
    """without blanks two adjacent tokens must not fuse into another operator symbol ('*' '*' -> '**',
    '<' '=' ..., '!' '=' -> '!=', a sign after 'e' of a function name is impossible here)"""
    for a, b in zip(tokens, tokens[1:]):
        if isinstance(a, str) and isinstance(b, str) and (a + b) in ("**", "<=", ">=", "==", "!=", "&&", "||"):
            return False
    return True


def operand_pool(names):
    return [("num", n) for n in names]


def gen_token_sequences(names, tier, seed=0):
    """well-formed token sequences from the stratified grammar, grouped so that every pair of binary
    operators, every sign pattern and every function occurs"""
    rng = random.Random(seed)
    ops = list(PREC)
    A, B, C, D = [("num", n) for n in names[:4]]
    seqs = []
    # single operator, all sign patterns on the right operand and on the left
    signs = [[], ["-"], ["+"], ["-", "-"], ["-", "+"], ["+", "-"], ["+", "+"]]
    for op in ops:
        for sl in ([], ["-"], ["+"]):
            for sr in signs:
                seqs.append(sl + [A, op] + sr + [B])
    # every ordered pair of binary operators, with and without a sign before the middle / last operand
    for o1, o2 in itertools.product(ops, ops):
        seqs.append([A, o1, B, o2, C])
        seqs.append([A, o1, "-", B, o2, C])
        seqs.append([A, o1, B, o2, "-", C])
        seqs.append(["-", A, o1, B, o2, C])
    seqs.append(["-", A]); seqs.append(["+", A]); seqs.append([A]); seqs.append(["-", "-", A]); seqs.append(["-", "+", "-", A])
    # negation
    for o in ("&&", "||"):
        seqs += [["!", A, o, B], [A, o, "!", B], ["!", A, o, "!", B], ["!", A, "<", B, o, C], [A, o, "!", B, "==", C]]
    seqs += [["!", A], ["!", A, "<", B], ["!", "(", A, ")"], ["!", "(", A, "<", B, ")"], ["!", A, "+", B, ">", C]]
    # parentheses and functions
    for o1, o2 in itertools.product(["+", "*", "**", "-", "/", "<", "&&"], repeat=2):
        seqs.append([A, o1, "(", B, o2, C, ")"])
        seqs.append(["(", A, o1, B, ")", o2, C])
        seqs.append(["-", "(", A, o1, B, ")", o2, C])
    for f, n in FUNCS.items():
        if n == 1:
            seqs += [[("fn", f), A, ")"], [("fn", f), A, "+", B, ")", "*", C], ["-", ("fn", f), A, ")"], [A, "*", ("fn", f), B, ")", "**", C],
                     [("fn", f), ("fn", f), A, ")", ")"], [("fn", f), "(", A, ")", ")"], [("fn", f), "-", A, ")"]]
        else:
            seqs += [[("fn", f), A, ",", B, ")"], [("fn", f), A, "+", B, ",", C, "*", D, ")"], [("fn", f), "(", A, ")", ",", ("fn", "sin"), B, ")", ")"],
                     [C, "-", ("fn", f), A, ",", B, ")"], [("fn", f), ("fn", f), A, ",", B, ")", ",", C, ")"]]
    seqs += [["(", "(", A, ")", ")"], ["(", A, ")", "*", "(", B, ")"], ["(", "(", A, "+", B, ")", "*", C, ")", "-", D],
             [A, "-", "(", "-", B, ")"], [A, "**", "(", "-", B, ")"]]
    # longer chains (sampled)
    n_long = 150 if tier != "thorough" else 3000
    for _ in range(n_long):
        k = rng.randint(3, 5)
        toks = []
        for j in range(k):
            if j:
                toks.append(rng.choice(ops))
            if rng.random() < 0.3:
                toks += rng.choice(signs[1:])
            r = rng.random()
            if r < 0.12:
                toks += ["(", rng.choice([A, B, C, D]), rng.choice(ops), rng.choice([A, B, C, D]), ")"]
            elif r < 0.2:
                toks += [("fn", rng.choice(["sin", "cos", "sqrt", "log"])), rng.choice([A, B, C, D]), ")"]
            else:
                toks.append(rng.choice([A, B, C, D]))
        seqs.append(toks)
    out, seen = [], set()
    for s in seqs:
        key = render(s)
        if key in seen:
            continue
        seen.add(key)
        try:
            ast = parse(s)
        except ValueError:
            continue
        out.append((s, ast))
    return out


def ill_formed(names):
    A, B, C = [("num", n) for n in names[:3]]
    return [["(", A, "+", B], [A, "+", B, ")"], ["(", "(", A, ")"], [("fn", "sin"), A], [("fn", "sin"), A, ",", B, ")"], [("fn", "pow"), A, ")"],
            [("fn", "logb"), A, ",", B, ",", C, ")"], [A, "*"], ["*", A], [A, "*", "/", B], [A, "<"], ["&&", A], [A, "||"], [A, B],
            [A, "+", "*", B], [A, "**"], ["/", A, "+", B], [A, "(", B, ")"], ["(", A, ")", B], [("fn", "sin"), ")"], [A, "==", "==", B],
            [A, "-"], [A, "+", "-"], ["!"], [A, "&&", "!"],
            # a comparison operator without one of its operands
            [A, "=="], ["==", A], [A, "!="], ["!=", A], ["(", A, "+", B, ")", "=="], [A, "<", B, "&&", C, "!="], [A, ">="], ["<=", A]]


def read_doc_tables(path=None):
    """the 'List of operators' abbreviations and the 'Operation steps' rows of the documentation"""
    import os
    if path is None:
        root = os.path.dirname(os.environ["PYVC_SRC"].rstrip("/")) if os.environ.get("PYVC_SRC") else "/repo"
        path = os.path.join(root, "docs/source/solver/index.rst")
    text = open(path).read()
    m = re.search(r"csv-table:: Operation steps.*?\n\s*Type,\s*Operators\n(.*?)\n\s*\n", text, re.S)
    steps = []
    for line in m.group(1).splitlines():
        line = line.strip()
        if not line:
            continue
        typ, _, opsx = line.partition(",")
        names = [x.strip() for x in opsx.strip().strip('"').split(",")]
        steps.append((typ.strip(), names))
    m = re.search(r"csv-table:: List of operators.*?\n\s*Name,.*?\n(.*?)\n\s*\n", text, re.S)
    abbr = []
    for line in m.group(1).splitlines():
        cols = re.findall(r'"[^"]*"|[^,]+', line.strip())
        if len(cols) >= 2:
            abbr += [x.strip() for x in cols[1].strip().strip('"').split(",")]
    return steps, abbr
