"""Further DIP functions under contract: dimension bounds (C16), request routing and counts (C17), the
unit-aware numerical operators and templates (C18), declared-type tables of the exports (C19), and the DIP
call sites of the unit scope (C09)."""
import itertools

from pyvc.contract import contract, spec

FN = "dip/nodes/node_float.py::FloatNode"
IN = "dip/nodes/node_integer.py::IntegerNode"
FT = "dip/datatypes/type_float.py::FloatType"
IT = "dip/datatypes/type_integer.py::IntegerType"
ST = "dip/datatypes/type_string.py::StringType"
BT = "dip/datatypes/type_boolean.py::BooleanType"
NL = "dip/lists/list_nodes.py::NodeList"
ENV = "dip/environment.py::Environment"
QTY = "units/quantity.py::Quantity"
TOK = "solver/tokens.py::Tokens"
NS = "dip/solvers/numerical_solver.py::"
US = "units/settings.py::UNIT_STANDARD"
UT = "units/settings.py::UNIT_TYPES"


@spec
def absv(x):
    return x if x >= 0 else -x


# ---- C16: declared array dimensions ----------------------------------------------------------------------------
@contract("dip/nodes/node_base.py::BaseNode.cast_value", ["C16"], name="BaseNode.cast_value[dimension-bounds]")
def _(c):
    c.bound = "1-D values of 1-4 elements and 2-D values up to 3x3; the declared bounds are symbolic integers or open"
    for n in range(1, 5):
        for lo_open, hi_open in itertools.product([False, True], repeat=2):
            def pre(b, n=n, lo_open=lo_open, hi_open=hi_open):
                lo = None if lo_open else b.int("lo")
                hi = None if hi_open else b.int("hi")
                node = b.obj(FN, code="x", name="x", keyword="float", units_raw=None, precision=64, options=b.list([]), value=None, value_slice=None, dtype_prop=b.list([None]),
                             value_raw="[" + ",".join(str(i + 1) for i in range(n)) + "]", dimension=b.list([(lo, hi)]))
                return dict(args=[node], env=dict(n=n, lo=lo, hi=hi))
            c.scenario(f"n{n}-lo{'open' if lo_open else 'sym'}-hi{'open' if hi_open else 'sym'}", pre)
    c.raises("(lo is not None and n < lo) or (hi is not None and n > hi)", label="refused-iff-outside-the-declared-bounds")
    c.modifies()


@contract("dip/nodes/node_base.py::BaseNode.cast_value", ["C16"], name="BaseNode.cast_value[dimension-bounds-2d]")
def _(c):
    c.bound = "2-D values 1x1 .. 3x3; bounds of both dimensions symbolic"
    for r, k in itertools.product([1, 2, 3], repeat=2):
        def pre(b, r=r, k=k):
            raw = "[" + ",".join("[" + ",".join("1" for _ in range(k)) + "]" for _ in range(r)) + "]"
            node = b.obj(FN, code="x", name="x", keyword="float", units_raw=None, precision=64, options=b.list([]), value=None, value_slice=None, dtype_prop=b.list([None]),
                         value_raw=raw, dimension=b.list([(b.int("lo0"), b.int("hi0")), (b.int("lo1"), b.int("hi1"))]))
            return dict(args=[node], env=dict(r=r, k=k))
        c.scenario(f"{r}x{k}", pre)
    c.raises("r < self.dimension[0][0] or r > self.dimension[0][1] or k < self.dimension[1][0] or k > self.dimension[1][1]", label="refused-iff-some-dimension-is-outside-its-bounds")
    c.modifies()


# ---- C17: request routing and count rules ---------------------------------------------------------------------------
def env_with_nodes(b, names):
    env = b.new(ENV)
    nl = b.getattr(env, "nodes")
    for i, n in enumerate(names):
        node = b.obj(FN, code=n, name=n, keyword="float", units_raw="cm", precision=64, options=b.list([]), value_raw="1", tags=None, value=b.new(FT, b.real(f"v{i}"), "cm"))
        b.call(b.getattr(nl, "append"), node)
    return env


@contract(ENV + ".request", ["C17"], name="Environment.request[local]")
def _(c):
    c.bound = "environments of 4 named nodes"
    names = ["a", "g.x", "g.y", "h"]
    for path, count, nsel in [("?a", 1, 1), ("?zz", 1, 0), ("?*", 1, 4), ("?g.*", 1, 2), ("?g.x", 1, 1), ("?g.*", None, 2), ("?zz.*", None, 0), ("?a", [0, 1], 1), ("?zz", [0, 1], 0), ("?*", [0, 1], 4)]:
        c.scenario(f"{path} count={count}", (lambda path, count, nsel: lambda b: dict(args=[env_with_nodes(b, names), path], kwargs=dict(count=b.const(count)), env=dict(nsel=nsel, cnt=count)))(path, count, nsel))
    c.ensures("len(result) == nsel", "selects-exactly-the-matching-nodes")
    c.raises("cnt is not None and ((nsel not in cnt) if typename(cnt) == 'list' else nsel != cnt)", label="rejected-iff-the-number-of-selected-nodes-is-not-the-requested-one")
    c.modifies()


# ---- C18: unit-aware additive operators of the numerical solver ---------------------------------------------------
LEN = {"m": 1.0, "cm": 0.01, "mm": 0.001, "km": 1000.0}


def qtokens(b, ua, ub):
    return b.obj(TOK, atom=None, left=b.list([b.new(QTY, b.real("x"), ua)]), right=b.list([b.new(QTY, b.real("y"), ub)]))


for cls, sym in (("CustomOperatorAdd", "+"), ("CustomOperatorSub", "-")):
    @contract(f"{NS}{cls}.operate_binary", ["C18"], name=f"{cls}.operate_binary")
    def _(c, cls=cls, sym=sym):
        c.bound = "pairs of length units; magnitudes symbolic"
        for ua, ub in itertools.product(LEN, repeat=2):
            c.scenario(f"{ua} {sym} {ub}", (lambda ua, ub: lambda b: dict(args=[b.obj(NS + cls), qtokens(b, ua, ub)], env=dict(fa=LEN[ua], fb=LEN[ub], ua=ua)))(ua, ub))
        c.ensures(f"len(tokens.left) == 1 and len(tokens.right) == 0 and tokens.left[0].baseunits.expression == ua", "result-in-the-unit-of-the-left-operand")
        c.ensures(f"(lambda r, x, y: absv(r * fa - (x * fa {sym} y * fb)) <= absv(x * fa {sym} y * fb) / 100000000000)(tokens.left[0].magnitude.value, old(tokens.left[0].magnitude.value), old(tokens.right[0].magnitude.value))", "base-value-is-the-sum" if sym == "+" else "base-value-is-the-difference")
        c.no_raise()

    @contract(f"{NS}{cls}.operate_binary", ["C18"], name=f"{cls}.operate_binary[different-dimension]")
    def _(c, cls=cls, sym=sym):
        c.bound = "m with s, m with kg"
        for ua, ub in [("m", "s"), ("kg", "m"), ("m", "m2")]:
            c.scenario(f"{ua} {sym} {ub}", (lambda ua, ub: lambda b: dict(args=[b.obj(NS + cls), qtokens(b, ua, ub)]))(ua, ub))
        c.raises("True", label="operands-of-different-dimension-cannot-be-added")


@contract("dip/solvers/template_solver.py::TemplateSolver.solve", ["C18"], name="TemplateSolver.solve")
def _(c):
    c.bound = "the listed templates over a 3-node environment (concrete values)"

    def mkenv(b):
        env = b.new(ENV)
        nl = b.getattr(env, "nodes")
        for name, kw, val in [("id", "int", b.new(IT, 345)), ("w", "float", b.new(FT, 62.3, "kg")), ("name", "str", b.new(ST, "Will Smith"))]:
            b.call(b.getattr(nl, "append"), b.obj(FN, code=name, name=name, keyword=kw, units_raw=None, options=b.list([]), value_raw="", tags=None, value=val, precision=64))
        return env
    for t, want in [("{{?id}:05d}", format(345, "05d")), ("{{?id}}", "345"), ("{{?w}:.3e}", format(62.3, ".3e")), ("{{?name}[5:]}", "Smith"), ("a{b}c", "a{b}c"), ("x={{?id}:d};y={{?w}:.1f}", "x=345;y=62.3")]:
        c.scenario(t, (lambda t, want: lambda b: dict(args=[b.obj("dip/solvers/template_solver.py::TemplateSolver", env=mkenv(b), filename="x"), t], env=dict(want=want)))(t, want))
    c.ensures("result == want", "reference-replaced-by-the-formatted-value")
    c.no_raise()
    c.modifies()


# ---- C19: declared types ------------------------------------------------------------------------------------------------
C_TYPES = {("int", 16, False): "short int", ("int", 32, False): "int", ("int", 64, False): "long long int", ("int", 16, True): "unsigned short int",
           ("int", 32, True): "unsigned int", ("int", 64, True): "unsigned long long int", ("float", 32, None): "float", ("float", 64, None): "double",
           ("float", 128, None): "long double", ("bool", None, None): "bool", ("str", None, None): "char*"}
RUST_TYPES = {("int", 16, False): "i16", ("int", 32, False): "i32", ("int", 64, False): "i64", ("int", 16, True): "u16", ("int", 32, True): "u32", ("int", 64, True): "u64",
              ("float", 32, None): "f32", ("float", 64, None): "f64", ("bool", None, None): "bool", ("str", None, None): "&str"}
F_TYPES = {("int", 16, False): "integer(kind=2)", ("int", 32, False): "integer", ("int", 64, False): "integer(kind=8)", ("float", 32, None): "real", ("float", 64, None): "real(kind=8)",
           ("float", 128, None): "real(kind=16)", ("bool", None, None): "logical"}


def typed(b, key):
    kw, prec, uns = key
    if kw == "int":
        return b.new(IT, 1, None, precision=prec, unsigned=uns)
    if kw == "float":
        return b.new(FT, 1.5, None, precision=prec)
    if kw == "bool":
        return b.new(BT, True)
    return b.new(ST, "x")


for target, table, extra in (("dip/config/export_c.py::ExportConfigC", C_TYPES, 0), ("dip/config/export_cpp.py::ExportConfigCPP", C_TYPES, 0),
                             ("dip/config/export_rust.py::ExportConfigRust", RUST_TYPES, 1), ("dip/config/export_fortran.py::ExportConfigFortran", F_TYPES, 1)):
    @contract(target + "._parse_dtype", ["C19"], name=target.split("::")[1] + "._parse_dtype")
    def _(c, target=target, table=table, extra=extra):
        c.bound = "every data type x width x signedness the DIP parser can produce"
        for key, want in table.items():
            c.scenario("/".join(map(str, key)), (lambda key, want: lambda b: dict(args=[b.obj(target, includes=b.list([]), rename=True), typed(b, key)] + (["1"] if extra else []), env=dict(want=want)))(key, want))
        c.ensures("result == want", "declared-type-matches-data-type-width-and-signedness")
        c.no_raise()


# ---- C09: DIP call sites of the unit scope ---------------------------------------------------------------------------
@spec
def gkeys(us, ut):
    return (list(us._keys), list(us._data.keys()), list(ut))


def env_with_unit(b):
    env = b.new(ENV)
    ul = b.getattr(env, "units")
    q = b.new(QTY, 2.0, "cm")
    b.call(b.getattr(ul, "append"), "length", "2", "cm", q, ("s", 1))
    return env


@contract("dip/datatypes/type_number.py::NumberType.convert", ["C09", "C14"], name="NumberType.convert[with-custom-units]")
def _(c):
    c.bound = "one custom unit [length] = 2 cm; value symbolic"
    for ua, ub, f in [("[length]", "cm", 2.0), ("cm", "[length]", 0.5), ("m", "cm", 100.0), ("cm", "cm", 1.0)]:
        c.scenario(f"{ua}->{ub}", (lambda ua, ub, f: lambda b: dict(args=[b.new(FT, b.real("v"), ua), ub, env_with_unit(b)], env=dict(us=b.glob(US), ut=b.glob(UT), f=f, v0=None)))(ua, ub, f))
    c.ensures("absv(self.value - old(self.value) * f) <= absv(old(self.value) * f) / 100000000000 and self.unit == unit", "value-converted-with-the-custom-unit-in-scope")
    c.ensures("gkeys(us, ut) == old(gkeys(us, ut))", "global-tables-as-before-the-scope")
    c.no_raise()


@contract("dip/datatypes/type_number.py::NumberType.convert", ["C09", "C14"], name="NumberType.convert[refused]")
def _(c):
    c.bound = "conversion to a unit of another dimension / an unknown unit, with a custom unit in scope"
    for ua, ub in [("[length]", "s"), ("cm", "kg"), ("cm", "[nolength]")]:
        c.scenario(f"{ua}->{ub}", (lambda ua, ub: lambda b: dict(args=[b.new(FT, b.real("v"), ua), ub, env_with_unit(b)], env=dict(us=b.glob(US), ut=b.glob(UT))))(ua, ub))
    c.raises("True", label="refused")
    c.on_raise("gkeys(us, ut) == old(gkeys(us, ut))", "global-tables-as-before-the-scope-although-the-body-raised")


# ---- C16: a value of lower rank than declared is outside the declared dimensions ----------------------------------------------------
@contract("dip/nodes/node_base.py::BaseNode.cast_value", ["C16"], name="BaseNode.cast_value[dimension-rank]")
def _(c):
    c.bound = "1-D values of 1-3 elements given to nodes declared with two or three dimensions (bounds symbolic)"
    for n in (1, 2, 3):
        for rank in (2, 3):
            def pre(b, n=n, rank=rank):
                dims = [(b.int(f"lo{d}"), b.int(f"hi{d}")) for d in range(rank)]
                node = b.obj(FN, code="x", name="x", keyword="float", units_raw=None, precision=64, options=b.list([]), value=None, value_slice=None, dtype_prop=b.list([None]),
                             value_raw="[" + ",".join(str(i + 1) for i in range(n)) + "]", dimension=b.list(dims))
                return dict(args=[node])
            c.scenario(f"n{n}-declared-rank-{rank}", pre)
    c.raises("True", label="refused-whatever-the-bounds")
    c.modifies()


# ---- C13: integer literals are the integers written, digit for digit ---------------------------------------------------------------
@contract("dip/nodes/node_base.py::BaseNode.cast_value", ["C13"], name="BaseNode.cast_value[integer-literals]")
def _(c):
    c.bound = "the listed literals (small, negative, beyond 2**53, leading zero)"
    for lit in ["0", "7", "-42", "1302", "9007199254740993", "-12345678901234567", "18446744073709551615", "007"]:
        def pre(b, lit=lit):
            node = b.obj(IN, code="x", name="x", keyword="int", units_raw=None, precision=64, unsigned=False, options=b.list([]), value=None, value_slice=None, dtype_prop=b.list([None]),
                         value_raw=lit, dimension=b.list([]))
            return dict(args=[node], env=dict(want=int(lit)))
        c.scenario(lit, pre)
    c.ensures("result == want", "the-integer-written")
    c.no_raise()
    c.modifies()


# ---- C13: nodes produced by one line enter the queue in the order the line gives them ---------------------------------------------------
@contract(NL + ".prepend", ["C13"], name="NodeList.prepend")
def _(c):
    def pre(b):
        return dict(args=[b.obj(NL, nodes=b.seq("ys", "int")), b.seq("xs", "int")])
    c.scenario("lists-of-any-length", pre)
    for k, m in ((0, 2), (1, 0), (2, 3), (3, 1)):
        def pre_n(b, k=k, m=m):
            return dict(args=[b.obj(NL, nodes=b.list([b.int(f"y{i}") for i in range(m)])), b.list([b.int(f"x{i}") for i in range(k)])])
        c.scenario(f"{k}-in-front-of-{m}", pre_n)
    c.ensures("list(self.nodes) == list(nodes) + old(list(self.nodes))", "given-order-in-front-of-the-queue")
    c.ensures("list(nodes) == old(list(nodes))", "argument-unchanged")
    c.no_raise()
