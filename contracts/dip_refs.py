"""C17 (references and imports) and C19 (exports): query, injection and rendering functions under contract."""
import itertools

from pyvc.contract import contract, spec

NL = "dip/lists/list_nodes.py::NodeList"
FN = "dip/nodes/node_float.py::FloatNode"
SN = "dip/nodes/node_string.py::StringNode"
BN = "dip/nodes/node_boolean.py::BooleanNode"
FT = "dip/datatypes/type_float.py::FloatType"
IT = "dip/datatypes/type_integer.py::IntegerType"
ST = "dip/datatypes/type_string.py::StringType"
BT = "dip/datatypes/type_boolean.py::BooleanType"
ENV = "dip/environment.py::Environment"
IMP = "dip/nodes/node_import.py::ImportNode"
BOUND = "node lists of at most 6 named nodes; values symbolic"
NAMES = ["a", "box.x", "box.y", "box.inner.z", "boxer", "c"]


def nodes(b):
    out = []
    for i, n in enumerate(NAMES):
        out.append(b.obj(FN, code=n, name=n, keyword="float", units_raw="cm", precision=64, options=b.list([]), value_raw="1", tags=None,
                         value=b.new(FT, b.real(f"v{i}"), "cm")))
    return b.obj(NL, nodes=b.list(out))


@spec
def names_values(nl):
    return [(n.name, n.value.value, n.value.unit) for n in (nl.nodes if typename(nl) == 'NodeList' else nl)]


QUERIES = [("*", [(n, i) for i, n in enumerate(NAMES)]), ("box.*", [("x", 1), ("y", 2), ("inner.z", 3)]), ("box.inner.*", [("z", 3)]), ("a", [("a", 0)]), ("box.x", [("x", 1)]),
           ("box.inner.z", [("z", 3)]), ("box", []), ("zz.*", []), ("zz", []), ("boxer", [("boxer", 4)]), ("bo.*", [])]


@contract(NL + ".query", ["C17", "C19"], name="NodeList.query")
def _(c):
    c.bound = BOUND
    for q, want in QUERIES:
        c.scenario(q, (lambda q, want: lambda b: dict(args=[nodes(b), q], env=dict(want=want)))(q, want))
    c.ensures("names_values(result) == [(nm, self.nodes[i].value.value, 'cm') for nm, i in want]", "exactly-the-selected-nodes-re-rooted-with-unchanged-value-and-unit")
    c.ensures("all([not same_object(r, n) for r in (result.nodes if typename(result) == 'NodeList' else result) for n in self.nodes])", "copies-not-the-stored-nodes")
    c.ensures("names_values(self) == old(names_values(self))", "list-unchanged")
    c.no_raise()
    c.modifies()


def envwith(b, ref_node):
    env = b.new(ENV)
    nl = b.getattr(env, "nodes")
    b.call(b.getattr(nl, "append"), ref_node)
    return env


@contract("dip/nodes/node_base.py::BaseNode.inject_value", ["C17"], name="BaseNode.inject_value[float]")
def _(c):
    c.bound = "host with / without its own unit; referenced value symbolic"
    for host_unit in (None, "m"):
        def pre(b, host_unit=host_unit):
            ref = b.obj(FN, code="a float = 34 cm", name="a", keyword="float", units_raw="cm", precision=64, options=b.list([]), value_raw="34", tags=None,
                        value=b.new(FT, b.real("cur"), "cm"))
            host = b.obj(FN, code="b float = {?a}", name="b", keyword="float", units_raw=host_unit, precision=64, options=b.list([]), value_raw="", value_ref="?a", tags=None, value=None)
            return dict(args=[host, envwith(b, ref)], env=dict(host_unit=host_unit, ref=ref))
        c.scenario(f"host-unit-{host_unit}", pre)
    c.ensures("self.units_raw == (host_unit if host_unit else 'cm')", "keeps-its-own-unit-or-adopts-the-referenced-one")
    c.ensures("ref.value.value == old(ref.value.value) and ref.value_raw == '34'", "referenced-node-unchanged")
    c.no_raise()
    c.modifies("self.value_raw", "self.units_raw")


@contract("dip/nodes/node_base.py::BaseNode.inject_value", ["C17"], name="BaseNode.inject_value[current-value]")
def _(c):
    c.bound = "float / int / bool / str / none / array current values (concrete; the raw definition text differs from the current value)"
    cases = [("float", FN, FT, 50.0, "50.0"), ("float", FN, FT, 0.0, "0.0"), ("float", FN, FT, None, "none"), ("bool", BN, BT, False, "false"), ("bool", BN, BT, True, "true"),
             ("str", SN, ST, "second", "second"), ("str", SN, ST, "", ""), ("float", FN, FT, [1.5, 2.0], "[1.5, 2.0]")]
    for kw, ncls, tcls, cur, raw in cases:
        def pre(b, kw=kw, ncls=ncls, tcls=tcls, cur=cur, raw=raw):
            val = b.new(tcls, b.const(cur), "cm") if kw == "float" else b.new(tcls, b.const(cur))
            ref = b.obj(ncls, code="a", name="a", keyword=kw, units_raw=("cm" if kw == "float" else None), options=b.list([]), value_raw="definition-text", tags=None, value=val, precision=64)
            host = b.obj(ncls, code="b", name="b", keyword=kw, units_raw=None, options=b.list([]), value_raw="", value_ref="?a", tags=None, value=None, precision=64)
            return dict(args=[host, envwith(b, ref)], env=dict(raw=raw))
        c.scenario(f"{kw}={cur!r}", pre)
    c.ensures("self.value_raw == raw", "raw-text-of-the-current-value-not-of-the-definition")
    c.no_raise()


@contract(IMP + ".parse", ["C17"], name="ImportNode.parse")
def _(c):
    c.bound = BOUND
    for q, want in [("?box.*", ["h.x", "h.y", "h.inner.z"]), ("?a", ["h.a"]), ("?*", ["h." + n for n in NAMES]), ("?zz.*", []), ("?zz", [])]:
        def pre2(b, q=q, want=want):
            env = b.new(ENV)
            nl = nodes(b)
            b.ctx.setattr(env, "nodes", nl) if not b.native else setattr(env, "nodes", nl)
            imp = b.obj(IMP, code="h {" + q + "}", name="h.{" + q + "}", keyword="import", value_ref=q, indent=2, source=("s", 1))
            return dict(args=[imp, env], env=dict(want=want, nl=nl))
        c.scenario(q, pre2)
    c.ensures("[n.name for n in result] == want and all([n.indent == 2 for n in result])", "re-created-below-the-importing-node")
    c.ensures("names_values(nl) == old(names_values(nl))", "source-nodes-unchanged")
    c.no_raise()


# ---- C19: rendering ---------------------------------------------------------------------------------------------
EXC = "dip/config/export_c.py::ExportConfigC"
EXR = "dip/config/export_rust.py::ExportConfigRust"
EXF = "dip/config/export_fortran.py::ExportConfigFortran"
EX = "dip/config/export.py::ExportConfig"
SHAPES = [(1,), (3,), (2, 2), (2, 3), (1, 2, 2)]


def nested(b, shape, prefix="e"):
    cnt = [0]

    def rec(shp):
        if not shp:
            cnt[0] += 1
            return b.int(f"{prefix}{cnt[0]}")
        return b.list([rec(shp[1:]) for _ in range(shp[0])])
    return rec(shape)


@spec
def render(v, lb, rb, sep):
    """reference rendering of a nested list: brackets around comma-separated items, depth first"""
    if typename(v) == 'list':
        return lb + sep.join([render(x, lb, rb, sep) for x in v]) + rb
    return str(v)


@spec
def flat(v):
    if typename(v) == 'list':
        out = []
        for x in v:
            out = out + flat(x)
        return out
    return [v]


for cls, lb, rb, nm in ((EXC, "{", "}", "C"), (EXR, "[", "]", "Rust")):
    @contract(cls + "._parse_array", ["C19"], name=f"ExportConfig{nm}._parse_array")
    def _(c, cls=cls, lb=lb, rb=rb):
        c.bound = "array shapes (1), (3), (2,2), (2,3), (1,2,2); integer elements symbolic"
        for shape in SHAPES:
            def pre(b, shape=shape):
                vals = nested(b, shape)
                return dict(args=[b.obj(cls, rename=True), b.new(IT, 0, None), vals], env=dict(shape=list(shape), lb=lb, rb=rb))
            c.scenario("x".join(map(str, shape)), pre)
        c.ensures("result[1] == shape", "shape-is-the-nesting-shape")
        c.ensures("result[0] == render(values, lb, rb, ', ')", "nested-brackets-in-row-major-order")
        c.no_raise()
        c.modifies()


@contract(EXF + "._parse_array", ["C19"], name="ExportConfigFortran._parse_array")
def _(c):
    c.bound = "array shapes (1), (3), (2,2), (2,3), (1,2,2); integer elements symbolic"
    for shape in SHAPES:
        c.scenario("x".join(map(str, shape)), (lambda shape: lambda b: dict(args=[b.obj(EXF, rename=True), b.new(IT, 0, None), nested(b, shape)], env=dict(shape=list(shape))))(shape))
    c.ensures("result[1] == shape", "shape-is-the-nesting-shape")
    c.ensures("result[0] == ', '.join([str(x) for x in flat(values)])", "elements-listed-with-the-last-index-varying-fastest")
    c.no_raise()
    c.modifies()


@contract(EX + "._rename", ["C19"], name="ExportConfig._rename")
def _(c):
    c.bound = "the listed names"
    for name, want in [("box.height", "BOX_HEIGHT"), ("num_cells", "NUM_CELLS"), ("a.b.c-d", "A_B_C-D"), ("x", "X")]:
        c.scenario(name, (lambda name, want: lambda b: dict(args=[b.obj(EX, rename=True), name], env=dict(want=want)))(name, want))
        c.scenario(name + "[rename off]", (lambda name: lambda b: dict(args=[b.obj(EX, rename=False), name], env=dict(want=name)))(name))
    c.ensures("result == want", "documented-name-mapping")
    c.no_raise()
    c.modifies()


# ---- string literals of the C-like targets: quotes and backslashes escaped, every other printable character verbatim -------------------
STRINGS = ["plain", "Configuration test", 'say "hi"', "back\\slash", "Ångström café", "µm", "a_b-c", "tab\\tliteral", "ünï©ode ✓"]


@spec
def c_like_literal(v):
    return '"' + v.replace('\\', '\\\\').replace('"', '\\"') + '"'


for cls, nm in ((EXC, "C"), (EXR, "Rust")):
    @contract(cls + "._parse_scalar", ["C19"], name=f"ExportConfig{nm}._parse_scalar[strings]")
    def _(c, cls=cls):
        c.bound = "the listed strings (quotes, backslashes, blanks, non-ASCII letters and symbols)"
        for v in STRINGS:
            c.scenario(repr(v), (lambda v: lambda b: dict(args=[b.obj(cls, rename=True), b.new(ST, v), v], env=dict(v=v)))(v))
        c.ensures("result == c_like_literal(v)", "quoted-with-quotes-and-backslashes-escaped-everything-else-verbatim")
        c.no_raise()
        c.modifies()
