"""Which contract modules and bounded harnesses decide which property."""
UNITS_CORE = ["contracts.units_fraction", "contracts.units_magnitude", "contracts.units_convert"]
UNITS_ALL = UNITS_CORE + ["contracts.units_quantity", "contracts.units_frames", "contracts.units_nonlinear"]
PROPS = {
    "C03": dict(contracts=["contracts.units_fraction", "contracts.units_parse"], bounded="bounded.c03", level="proof",
                assumptions=["the regular expressions of AtomParser (number literal, exponent suffix) are executed by CPython's re on concrete strings; their behaviour on all strings is covered only by the enumerated grammar and the bounded stand-in",
                             "float ** float for table factors is CPython's"]),
    "C09": dict(contracts=["contracts.units_environment"], bounded="bounded.c09", level="proof",
                assumptions=["the number and kind of units registered by a scope is enumerated by the scenarios (0-3 units: plain, prefixed, quantity-valued, with existing/new conversion type, duplicate, prefixed clash, malformed); magnitudes are symbolic",
                             "the six DIP call sites are `with UnitEnvironment(env.units):` blocks and are covered through the constructor/exit contracts plus the bounded stand-in (DIP texts)"]),
    "C06": dict(contracts=UNITS_ALL, bounded="bounded.c06", level="proof",
                assumptions=["pow(x,y) for a non-integer exponent is an uninterpreted real function; 'base value of a power = power of the base value' additionally needs pow(x*f,p)=pow(x,p)*pow(f,p), which is assumed, not proved",
                             "unit structure is enumerated (pairs from the published tables), magnitudes are symbolic"]),
    "C07": dict(contracts=UNITS_ALL, bounded="bounded.c07", level="proof",
                assumptions=["numpy-array magnitudes are covered by the bounded stand-in only (the proof is for scalar magnitudes)",
                             "frame conditions are checked on the explicit heap of the executor: every write to an object that existed at entry is recorded and must be listed in `modifies` or restore the entry value"]),
    "C08": dict(contracts=UNITS_ALL, bounded="bounded.c08", level="proof",
                assumptions=["array uncertainties (np.max over two arrays) are covered by the bounded stand-in only"]),
    "C05": dict(contracts=["contracts.units_nonlinear"], bounded="bounded.c05", level="proof",
                assumptions=["log10/pow10/ln/exp are uninterpreted real functions with exactly the axioms: pow10(log10 y)=y and exp(ln y)=y for y>0, log10(pow10 x)=x, ln(exp x)=x, pow10 x>0, exp x>0",
                             "numeric coefficients inside log10/ln/exp/pow10 arguments are rounded to 13 significant digits (float rounding of table constants)"]),
    "C04": dict(contracts=UNITS_CORE, bounded="bounded.c04", level="proof"),
    "C20": dict(contracts=["contracts.c20_grid", "contracts.c20_tables"], bounded="bounded.c20", level="proof"),
}
