"""Which contract modules and bounded harnesses decide which property."""
PROPS = {
    "C20": dict(contracts=["contracts.c20_grid", "contracts.c20_tables"], bounded="bounded.c20", level="proof"),
}
