"""Which contract modules and bounded harnesses decide which property."""
PROPS = {
    "C20": dict(contracts=["contracts.c20_grid"], bounded=None, level="proof"),
}
