"""Which contract modules and bounded harnesses decide which property."""
UNITS_CORE = ["contracts.units_fraction", "contracts.units_magnitude", "contracts.units_convert"]
PROPS = {
    "C05": dict(contracts=["contracts.units_nonlinear"], bounded="bounded.c05", level="proof",
                assumptions=["log10/pow10/ln/exp are uninterpreted real functions with exactly the axioms: pow10(log10 y)=y and exp(ln y)=y for y>0, log10(pow10 x)=x, ln(exp x)=x, pow10 x>0, exp x>0",
                             "numeric coefficients inside log10/ln/exp/pow10 arguments are rounded to 13 significant digits (float rounding of table constants)"]),
    "C04": dict(contracts=UNITS_CORE, bounded="bounded.c04", level="proof"),
    "C20": dict(contracts=["contracts.c20_grid", "contracts.c20_tables"], bounded="bounded.c20", level="proof"),
}
