"""C05: temperature and logarithmic conversions follow their formulas and invert.

The formula table below is written from the property statement (standard affine temperature scales;
level = k*log10(X/X_ref) with k=1 for power-like and k=2 for amplitude-like quantities; Np = ln(amplitude
ratio) = 1/2 ln(power ratio); Np = B*ln(10)/2), not from the library's conversion table.  One scenario per
ordered unit pair, the value x symbolic.  log10/ln/exp/pow10 are uninterpreted with the inverse axioms."""
import math
import os

from pyvc.contract import contract, spec, lemma
from contracts import unitdata as U

Q = "units/quantity.py::Quantity"
TIER = os.environ.get("PYVC_TIER", "quick")


@spec
def absv(x):
    return x if x >= 0 else -x


@spec
def near(a, b, scale):
    """a == b up to float rounding of the constants: |a-b| <= 1e-11*(|b| + scale)"""
    return absv(a - b) <= (absv(b) + scale) / 100000000000


# ---- temperature -------------------------------------------------------------------------------------------
@spec
def to_kelvin(u, x):
    return x if u == 'K' else (x + 273.15 if u == 'Cel' else ((x + 459.67) * 5 / 9 if u == 'degF' else x * 5 / 9))


@spec
def from_kelvin(u, k):
    return k if u == 'K' else (k - 273.15 if u == 'Cel' else (k * 9 / 5 - 459.67 if u == 'degF' else k * 9 / 5))


TEMPS = [("", "K"), ("", "Cel"), ("", "degF"), ("", "degR"), ("k", "K"), ("m", "K")]


@contract(Q + ".value", ["C05"], name="Quantity.value[temperature]")
def _(c):
    for (pa, a) in TEMPS:
        for (pb, b) in TEMPS:
            def pre(bd, pa=pa, a=a, pb=pb, b=b):
                q = bd.new(Q, bd.real("x"), pa + a)
                return dict(args=[q, pb + b], env=dict(x=bd.getattr(bd.getattr(q, "magnitude"), "value"), ua=a, ub=b,
                                                      fa=U.PREFIX[pa] if pa else 1.0, fb=U.PREFIX[pb] if pb else 1.0))
            c.scenario(f"{pa}{a}->{pb}{b}", pre)
    c.ensures("near(result, from_kelvin(ub, to_kelvin(ua, x * fa)) / fb, 1000)", "standard-affine-formula")
    c.no_raise()
    c.modifies()


lemma("temperature/inverse", "C05",
      lambda b: dict(env=dict(x=b.real("x"))),
      "all([from_kelvin(u, to_kelvin(u, x)) == x and to_kelvin(u, from_kelvin(u, x)) == x for u in ['K', 'Cel', 'degF', 'degR']])",
      ns=globals())

# ---- levels ------------------------------------------------------------------------------------------------
# level unit -> (k, linear unit, X_ref expressed in that linear unit)
LEVELS = {
    "Bm": (1, "W", 1e-3), "BmW": (1, "W", 1e-3), "BW": (1, "W", 1.0), "BSWL": (1, "W", 1e-12),
    "BV": (2, "V", 1.0), "BuV": (2, "V", 1e-6), "BA": (2, "A", 1.0), "BuA": (2, "A", 1e-6),
    "BOhm": (2, "Ohm", 1.0), "BSPL": (2, "Pa", 20e-6), "BSIL": (1, "W/m2", 1e-12),
}
LIN_PREFIX = {"W": ["", "m", "k"], "V": ["", "u", "k"], "A": ["", "u"], "Ohm": ["", "k"], "Pa": ["", "m"], "W/m2": [""]}


def _lin_level_pairs():
    out = []
    for lv, (k, lin, xref) in LEVELS.items():
        for pl in LIN_PREFIX[lin]:
            for pv in ("", "d"):
                fl = U.PREFIX[pl] if pl else 1.0
                fv = U.PREFIX[pv] if pv else 1.0
                out.append((pl + lin, pv + lv, k, fl / xref, fv))
    return out


@contract(Q + ".value", ["C05"], name="Quantity.value[linear->level]")
def _(c):
    for (ul, uv, k, ratio, fv) in _lin_level_pairs():
        def pre(bd, ul=ul, uv=uv, k=k, ratio=ratio, fv=fv):
            q = bd.new(Q, bd.real("x"), ul)
            return dict(args=[q, uv], env=dict(x=bd.getattr(bd.getattr(q, "magnitude"), "value"), k=k, ratio=ratio, fv=fv))
        c.scenario(f"{ul}->{uv}", pre)
    c.requires("x > 0")
    c.ensures("near(result, k * log10(x * ratio) / fv, 0)", "level-is-k-log10-of-ratio-to-reference")
    c.no_raise()
    c.modifies()


@contract(Q + ".value", ["C05"], name="Quantity.value[level->linear]")
def _(c):
    for (ul, uv, k, ratio, fv) in _lin_level_pairs():
        def pre(bd, ul=ul, uv=uv, k=k, ratio=ratio, fv=fv):
            q = bd.new(Q, bd.real("x"), uv)
            return dict(args=[q, ul], env=dict(x=bd.getattr(bd.getattr(q, "magnitude"), "value"), k=k, ratio=ratio, fv=fv))
        c.scenario(f"{uv}->{ul}", pre)
    c.ensures("near(result, pow10(x * fv / k) / ratio, 0)", "linear-is-reference-times-10^(L/k)")
    c.no_raise()
    c.modifies()


# ratios: B <-> PR (k=1), B <-> AR (k=2), Np <-> AR (ln), Np <-> PR (1/2 ln), B <-> Np
RATIOS = [("PR", 1, 0.5), ("AR", 2, 1.0)]


@contract(Q + ".value", ["C05"], name="Quantity.value[ratio<->level]")
def _(c):
    for (ru, k, knp) in RATIOS:
        for pv in ("", "d"):
            fv = U.PREFIX[pv] if pv else 1.0
            c.scenario(f"{ru}->{pv}B", (lambda ru, pv, k, fv: lambda bd: _rq(bd, ru, pv + "B", dict(k=k, fv=fv, mode="r2b")))(ru, pv, k, fv))
            c.scenario(f"{pv}B->{ru}", (lambda ru, pv, k, fv: lambda bd: _rq(bd, pv + "B", ru, dict(k=k, fv=fv, mode="b2r")))(ru, pv, k, fv))
            c.scenario(f"{ru}->{pv}Np", (lambda ru, pv, knp, fv: lambda bd: _rq(bd, ru, pv + "Np", dict(k=knp, fv=fv, mode="r2n")))(ru, pv, knp, fv))
            c.scenario(f"{pv}Np->{ru}", (lambda ru, pv, knp, fv: lambda bd: _rq(bd, pv + "Np", ru, dict(k=knp, fv=fv, mode="n2r")))(ru, pv, knp, fv))
    c.requires("mode in ('b2r', 'n2r') or x > 0")
    c.ensures("near(result, (k * log10(x) / fv) if mode == 'r2b' else ((pow10(x * fv / k)) if mode == 'b2r' else ((k * ln(x) / fv) if mode == 'r2n' else exp(x * fv / k))), 0)", "documented-definition")
    c.no_raise()
    c.modifies()


def _rq(bd, ua, ub, env):
    q = bd.new(Q, bd.real("x"), ua)
    env = dict(env)
    env["x"] = bd.getattr(bd.getattr(q, "magnitude"), "value")
    return dict(args=[q, ub], env=env)


LN10_HALF = math.log(10) / 2


@contract(Q + ".value", ["C05"], name="Quantity.value[B<->Np]")
def _(c):
    for pa in ("", "d"):
        for pb in ("", "d", "c"):
            fa = U.PREFIX[pa] if pa else 1.0
            fb = U.PREFIX[pb] if pb else 1.0
            c.scenario(f"{pa}B->{pb}Np", (lambda pa, pb, fa, fb: lambda bd: _rq(bd, pa + "B", pb + "Np", dict(fa=fa, fb=fb, m=LN10_HALF)))(pa, pb, fa, fb))
            c.scenario(f"{pb}Np->{pa}B", (lambda pa, pb, fa, fb: lambda bd: _rq(bd, pb + "Np", pa + "B", dict(fa=fb, fb=fa, m=1 / LN10_HALF)))(pa, pb, fa, fb))
    c.ensures("near(result, x * fa * m / fb, 0)", "neper-is-bel-times-ln10/2")
    c.no_raise()
    c.modifies()


ALL_LOG = ["Np", "B"] + list(LEVELS)


@contract(Q + ".value", ["C05"], name="Quantity.value[same-unit-identity]")
def _(c):
    for u in ["Cel", "degF", "degR", "K"] + ALL_LOG + ["d" + s for s in ALL_LOG] + ["PR", "AR"]:
        c.scenario(f"{u}->{u}", (lambda u: lambda bd: _rq(bd, u, u, {}))(u))
    c.ensures("near(result, x, 0)", "identity")
    c.no_raise()
    c.modifies()


# dB-type units with a common linear unit differ by a constant offset k*log10(ref1/ref2)
@contract(Q + ".value", ["C05"], name="Quantity.value[level->level]")
def _(c):
    for a, (ka, la, ra) in LEVELS.items():
        for b, (kb, lb, rb) in LEVELS.items():
            if la != lb or a == b or ka != kb or la == "W" and ("SWL" in a + b):
                continue
            for pa in ("", "d"):
                for pb in ("", "d"):
                    fa = U.PREFIX[pa] if pa else 1.0
                    fb = U.PREFIX[pb] if pb else 1.0
                    off = ka * math.log10(ra / rb)
                    c.scenario(f"{pa}{a}->{pb}{b}", (lambda a, b, pa, pb, fa, fb, off: lambda bd: _rq(bd, pa + a, pb + b, dict(fa=fa, fb=fb, off=off)))(a, b, pa, pb, fa, fb, off))
    # the property names level<->linear conversions; a direct level->level conversion need not exist
    # (BA<->BuA has none), but where the library offers one it must be the constant offset
    c.ensures("near(result, (x * fa + off) / fb, 1)", "constant-offset-between-references")
    c.modifies()


# ---- adding and subtracting levels -------------------------------------------------------------------------
for opname, sign in (("__add__", "+"), ("__sub__", "-")):
    @contract(f"{Q}.{opname}", ["C05", "C07"], name=f"Quantity.{opname}[levels]")
    def _(c, sign=sign):
        for u in ["dB", "B", "dBm", "dBA", "dBV", "dBSPL"]:
            fv = 0.1 if u.startswith("d") else 1.0

            def pre(bd, u=u, fv=fv):
                a = bd.new(Q, bd.real("a"), u)
                b = bd.new(Q, bd.real("b"), u)
                return dict(args=[a, b], env=dict(a=bd.getattr(bd.getattr(a, "magnitude"), "value"),
                                                  b=bd.getattr(bd.getattr(b, "magnitude"), "value"), fv=fv, u=u))
            c.scenario(u, pre)

            def pre_same(bd, u=u, fv=fv):
                a = bd.new(Q, bd.real("a"), u)
                v = bd.getattr(bd.getattr(a, "magnitude"), "value")
                return dict(args=[a, a], env=dict(a=v, b=v, fv=fv, u=u))
            if sign == "+":
                c.scenario(u + "-same-object-twice", pre_same)
        if sign == "-":
            c.requires("a > b")
        c.ensures(f"near(result.magnitude.value, log10(pow10(a * fv) {sign} pow10(b * fv)) / fv, 0)", "power-sum")
        c.ensures("result.baseunits.expression == u", "same-unit")
        c.modifies()   # the operands are not touched: the same sum can be formed again from them
        c.no_raise()


def _lv(b):
    return dict(env=dict(x=b.real("x"), k=b.real("k"), r=b.real("r"), f=b.real("f")))


lemma("level/level-of-linear-of-level", "C05", _lv, "k * log10((pow10(x * f / k) / r) * r) / f == x",
      assumes=["k > 0 and r > 0 and f > 0"], ns=globals())
lemma("level/linear-of-level-of-linear", "C05", _lv, "pow10((k * log10(x * r) / f) * f / k) / r == x",
      assumes=["k > 0 and r > 0 and f > 0 and x > 0"], ns=globals())
lemma("neper/inverse", "C05", _lv, "exp((k * ln(x) / f) * f / k) == x and k * ln(exp(x * f / k)) / f == x",
      assumes=["k > 0 and f > 0 and x > 0"], ns=globals())


# ---- a conversion the library does not offer is refused and leaves the quantity as it was (so that a later valid
#      conversion of the same object still follows its formula) -------------------------------------------------------------------
REFUSED = [("dBuA", "dBA"), ("dBm", "dBSPL"), ("Cel", "eV/[k_B]"), ("K", "dB"), ("dB", "m"), ("Cel", "m"), ("degF", "s"), ("Np", "kg"), ("dBV", "W"), ("m", "dB"), ("m", "Cel")]


@contract(Q + ".to", ["C05"], name="Quantity.to[refused-nonlinear]")
def _(c):
    for ua, ub in REFUSED:
        def pre(bd, ua=ua, ub=ub):
            q = bd.new(Q, bd.real("x"), ua)
            return dict(args=[q, ub], env=dict(x=bd.getattr(bd.getattr(q, "magnitude"), "value"), ua=ua))
        c.scenario(f"{ua}->{ub}", pre)
    c.raises("True", label="refused")
    c.on_raise("self.magnitude.value == x and self.baseunits.expression == ua", "quantity-unchanged")


@contract(Q + ".value", ["C05"], name="Quantity.value[after-a-refused-conversion]")
def _(c):
    for ua, bad, ub in [("dBuA", "dBA", "uA"), ("dBm", "dBSPL", "W"), ("Cel", "m", "K"), ("dBV", "W", "V")]:
        def pre(bd, ua=ua, bad=bad, ub=ub):
            x = bd.real("x")
            q = bd.new(Q, x, ua)
            r, exc = bd.call_catching(bd.getattr(q, "to"), bad)
            return dict(args=[q, ub], env=dict(fresh=bd.new(Q, x, ua), ua=ua, ub=ub))
        c.scenario(f"{ua}-x->{bad}-then->{ub}", pre)
    c.ensures("near(result, fresh.value(ub), 0)", "same-as-a-quantity-that-was-never-refused")
    c.ensures("self.baseunits.expression == ua", "still-in-its-own-unit")


# ---- the augmented forms  a += b,  a -= b  of two levels are the same power sum / difference ------------------------------------
for opname, sign in (("iadd", "+"), ("isub", "-")):
    @contract(Q + ".value", ["C05"], name=f"Quantity.value[after-augmented-level-{'sum' if sign == '+' else 'difference'}]")
    def _(c, opname=opname, sign=sign):
        for u in ["dB", "B", "dBm", "dBV"]:
            fv = 0.1 if u.startswith("d") else 1.0

            def pre(bd, u=u, fv=fv, opname=opname):
                a = bd.new(Q, bd.real("a"), u)
                b = bd.new(Q, bd.real("b"), u)
                av, bv = bd.getattr(bd.getattr(a, "magnitude"), "value"), bd.getattr(bd.getattr(b, "magnitude"), "value")
                r = getattr(bd, opname)(a, b)
                return dict(args=[r, u], env=dict(a=av, b=bv, fv=fv, qb=b))
            c.scenario(u, pre)
        if sign == "-":
            c.requires("a > b")
        c.ensures(f"near(result, log10(pow10(a * fv) {sign} pow10(b * fv)) / fv, 0)", "power-sum" if sign == "+" else "power-difference")
        c.ensures("qb.magnitude.value == b", "right-operand-unchanged")
        c.no_raise()


# ---- array magnitudes through the non-linear conversions: element-wise, and the quantity keeps its own array --------------------
import numpy as _np


@spec
def elems(a):
    return [v for v in a]


@contract(Q + ".value", ["C05"], name="Quantity.value[temperature-arrays]")
def _(c):
    c.bound = "arrays of three elements (values symbolic)"
    for a, b in [("K", "Cel"), ("Cel", "K"), ("K", "K"), ("Cel", "degF"), ("degF", "Cel"), ("K", "degR"), ("degR", "K"), ("Cel", "Cel")]:
        def pre(bd, a=a, b=b):
            xs = [bd.real(f"x{i}") for i in range(3)]
            arr = bd.call(bd.const(_np.array), bd.list(list(xs)))
            q = bd.new(Q, arr, a)
            return dict(args=[q, b], env=dict(xs=xs, ua=a, ub=b, q=q, arr=arr))
        c.scenario(f"{a}->{b}", pre)
    c.ensures("all([near(r, from_kelvin(ub, to_kelvin(ua, x)), 1000) for r, x in zip(elems(result), xs)]) and len(elems(result)) == 3", "standard-affine-formula-element-wise")
    c.ensures("elems(q.magnitude.value) == xs and elems(arr) == xs and q.baseunits.expression == ua", "the-quantity-keeps-its-values")
    c.no_raise()


# typed numpy data: the formulas are evaluated on the NUMBERS the array holds (in double precision), not in the array's own narrow integer
# type -- 25 Cel handed over as an int8 array is 77 degF, not 25*9 wrapped around in eight bits
@contract(Q + ".value", ["C05"], name="Quantity.value[temperature-arrays-of-fixed-width-integers]")
def _(c):
    c.bound = "arrays of two elements of dtype int8 / uint8 / int16 (values symbolic in the dtype's range); units given as text, as a dict and as BaseUnits"
    for dt in ("int8", "uint8", "int16"):
        for a, b in [("Cel", "degF"), ("degF", "Cel"), ("Cel", "K"), ("K", "degR")]:
            for form in ("text", "dict"):
                def pre(bd, a=a, b=b, dt=dt, form=form):
                    info = _np.iinfo(dt)
                    xs = [bd.int(f"x{i}") for i in range(2)]
                    for x in xs:
                        bd.assume_rel(x, ">=", int(info.min)); bd.assume_rel(x, "<=", int(info.max))
                    arr = bd.call(bd.const(_np.array), bd.list(list(xs)), dtype=bd.const(getattr(_np, dt)))
                    q = bd.new(Q, arr, a if form == "text" else bd.dict({a: 1}))
                    return dict(args=[q, b], env=dict(xs=xs, ua=a, ub=b, q=q, arr=arr))
                c.scenario(f"{dt} {a}->{b} units-as-{form}", pre)
    c.ensures("all([near(r, from_kelvin(ub, to_kelvin(ua, x)), 1000) for r, x in zip(elems(result), xs)]) and len(elems(result)) == 2", "standard-affine-formula-element-wise")
    c.ensures("elems(arr) == xs", "the-array-handed-in-keeps-its-values")
    c.no_raise()


@contract(Q + ".value", ["C05"], name="Quantity.value[level-arrays]")
def _(c):
    c.bound = "arrays of three elements (values symbolic)"
    for a, b in [("dBm", "W"), ("dB", "B"), ("Np", "dB"), ("dBV", "V")]:
        def pre(bd, a=a, b=b):
            xs = [bd.real(f"x{i}") for i in range(3)]
            arr = bd.call(bd.const(_np.array), bd.list(list(xs)))
            q = bd.new(Q, arr, a)
            fresh = [bd.new(Q, x, a) for x in xs]
            return dict(args=[q, b], env=dict(xs=xs, ua=a, ub=b, q=q, arr=arr, fresh=fresh))
        c.scenario(f"{a}->{b}", pre)
    c.ensures("all([near(r, f.value(ub), 0) for r, f in zip(elems(result), fresh)]) and len(elems(result)) == 3", "same-as-the-scalar-conversion-of-each-element")
    c.ensures("elems(q.magnitude.value) == xs and elems(arr) == xs", "the-quantity-keeps-its-values")
    c.no_raise()


# ---- a temperature that results from arithmetic (a unit cancelled on the way) converts by the same affine formulas --------------------
@contract(Q + ".value", ["C05"], name="Quantity.value[temperature-after-arithmetic]")
def _(c):
    for ua, ub, how, tu, target in [("K/s", "s", "mul", "K", "Cel"), ("Cel*s", "s", "div", "Cel", "K"), ("degF/m", "m", "mul", "degF", "Cel"), ("K*m", "m", "div", "K", "degF")]:
        def pre(bd, ua=ua, ub=ub, how=how, tu=tu, target=target):
            x, y = bd.real("x"), bd.real("y")
            a, b = bd.new(Q, x, ua), bd.new(Q, y, ub)
            r, exc = bd.call_catching(bd.getattr(a, "__mul__" if how == "mul" else "__truediv__"), b)
            bd.assume(exc is None)   # the path on which the quotient itself fails (y == 0) is not a pre-state
            return dict(args=[r, target], env=dict(x=x, y=y, how=how, tu=tu, target=target, r=r))
        c.scenario(f"{ua} {'*' if how == 'mul' else '/'} {ub} -> {target}", pre)
    c.requires("y != 0")
    c.ensures("near(result, from_kelvin(target, to_kelvin(tu, x * y if how == 'mul' else x / y)), 1000)", "standard-affine-formula")
    c.ensures("r.baseunits.expression == tu", "the-operand-is-a-plain-temperature")
    c.no_raise()


# ---- the conversions do not depend on custom-unit scopes that came and went: a scope whose unit names one of the built-in
#      conversion classes (as the library's own table does) leaves the dispatch to those classes as it was ----------------------------
UE = "units/unit_environment.py::UnitEnvironment"
BUILTIN_TYPES = {"level": "units/unit_types.py::LogarithmicUnitType", "temperature": "units/unit_types.py::TemperatureUnitType"}
AFTER_SCOPE = [("dB", "PR", "pow10(x / 10)"), ("Cel", "K", "x + 273.15"), ("dBm", "mW", "pow10(x / 10)"), ("degF", "K", "(x + 459.67) * 5 / 9")]


@contract(Q + ".value", ["C05"], name="Quantity.value[after-a-scope-naming-a-built-in-conversion-type]")
def _(c):
    c.bound = "one scope with one custom unit defined by a built-in conversion class; closed by close(), by leaving a with-block, or never opened because the registration failed"
    for kind, tname in BUILTIN_TYPES.items():
        for how in ("closed", "with-block-left", "registration-failed", "still-open"):
            for ua, ub, formula in AFTER_SCOPE:
                def pre(bd, tname=tname, how=how, ua=ua, ub=ub, formula=formula):
                    units = {"xq1": bd.dict(dict(magnitude=2.0, dimensions=bd.list([0, 0, 0, 0, 0, 0, 0, 0]), definition=bd.glob(tname)))}
                    if how == "registration-failed":
                        units["m"] = bd.dict(dict(magnitude=1.0, dimensions=bd.list([1, 0, 0, 0, 0, 0, 0, 0])))
                        e, exc = bd.call_catching(bd.cls(UE), bd.dict(units))
                        bd.assume(exc is not None)
                    else:
                        e = bd.new(UE, bd.dict(units))
                        if how == "closed":
                            bd.call(bd.getattr(e, "close"))
                        elif how == "with-block-left":
                            bd.call(bd.getattr(e, "__enter__"))
                            bd.call(bd.getattr(e, "__exit__"), None, None, None)
                    q = bd.new(Q, bd.real("x"), ua)
                    return dict(args=[q, ub], env=dict(x=bd.getattr(bd.getattr(q, "magnitude"), "value"), formula=formula))
                c.scenario(f"{kind}-scope-{how}:{ua}->{ub}", pre)
    c.ensures("near(result, (pow10(x / 10) if formula == 'pow10(x / 10)' else (x + 273.15 if formula == 'x + 273.15' else (x + 459.67) * 5 / 9)), 1000)", "same-formula-as-without-the-scope")
    c.no_raise()


# ---- the same quantity object asked for a value, converted in place, and asked again (same target text): the second answer is the one a
#      quantity created directly in the new unit gives -- nothing about the first conversion is remembered ------------------------------------
AGAIN = [("Cel", "K", "degF"), ("K", "degF", "Cel"), ("m:W", "d:Bm", "W"), ("d:Bm", "m:W", "d:BW"), ("d:B", "PR", "Np"), ("V", "d:BV", "m:V"), ("d:BuV", "V", "d:BV")]


@contract(Q + ".value", ["C05"], name="Quantity.value[asked-again-after-an-in-place-conversion]")
def _(c):
    c.bound = "the listed (unit, asked unit, unit converted to in place) triples; the value symbolic"
    for ua, target, ub in AGAIN:
        def pre(bd, ua=ua, target=target, ub=ub):
            from contracts.units_common import T
            ra, rt, rb = U.render(T(ua)), U.render(T(target)), U.render(T(ub))
            q = bd.new(Q, bd.real("x"), ra)
            first, exc = bd.call_catching(bd.getattr(q, "value"), rt)
            bd.assume(exc is None)
            r, exc = bd.call_catching(bd.getattr(q, "to"), rb)
            bd.assume(exc is None)
            twin = bd.new(Q, bd.getattr(bd.getattr(q, "magnitude"), "value"), rb)
            return dict(args=[q, rt], env=dict(twin=twin, rt=rt, first=first))
        c.scenario(f"{ua}: value({target}), to({ub}), value({target})", pre)
    c.ensures("near(result, twin.value(rt), 1000)", "same-as-a-quantity-created-in-the-new-unit")
    c.no_raise()


# ---- a quantity that carries an uncertainty converts by the same formulas (the uncertainty does not select another conversion) ----------------
WITH_ERR = [("Cel", "K", "x + 273.15"), ("K", "Cel", "x - 273.15"), ("degF", "K", "(x + 459.67) * 5 / 9"), ("d:Bm", "m:W", "pow10(x / 10)"), ("d:B", "PR", "pow10(x / 10)"), ("Np", "AR", "exp(x)"),
            ("m:W", "d:Bm", "10 * log10(x)"), ("k:K", "Cel", "1000 * x - 273.15")]


for how in ("value", "to"):
    @contract(Q + "." + how, ["C05"], name=f"Quantity.{how}[nonlinear-with-an-uncertainty]")
    def _(c, how=how):
        c.bound = "the listed unit pairs; value and absolute uncertainty symbolic; uncertainty given to the constructor or set afterwards"
        for ua, ub, formula in WITH_ERR:
            for late in (False, True):
                def pre(bd, ua=ua, ub=ub, formula=formula, late=late):
                    from contracts.units_common import T
                    e = bd.real("e")
                    bd.assume_rel(e, ">=", 0)
                    q = bd.new(Q, bd.real("x"), U.render(T(ua)), **({} if late else dict(abse=e)))
                    if late:
                        bd.call(bd.getattr(q, "abse"), e)
                    return dict(args=[q, U.render(T(ub))], env=dict(x=bd.getattr(bd.getattr(q, "magnitude"), "value"), formula=formula, how=how))
                c.scenario(f"{ua}->{ub}" + ("[uncertainty-set-afterwards]" if late else ""), pre)
        c.requires("x > 0")
        c.ensures("near(result if how == 'value' else result.magnitude.value, "
                  "(x + 273.15) if formula == 'x + 273.15' else ((x - 273.15) if formula == 'x - 273.15' else (((x + 459.67) * 5 / 9) if formula == '(x + 459.67) * 5 / 9' else "
                  "(pow10(x / 10) if formula == 'pow10(x / 10)' else (exp(x) if formula == 'exp(x)' else ((10 * log10(x)) if formula == '10 * log10(x)' else (1000 * x - 273.15)))))), 1000)",
                  "same-formula-as-without-an-uncertainty")
        c.no_raise()


# ---- units named through attributes of a Unit() object: every access is a unit quantity of its own (converting one in place, as
#      Quantity.to does, changes nothing for the next access) -------------------------------------------------------------------------------
UNITC = "units/unit.py::Unit"


@contract(UNITC + ".__getattr__", ["C05", "C07"], name="Unit.__getattr__")
def _(c):
    c.bound = "the listed unit names; one earlier access of the same name that was converted in place"
    for name, target in [("Cel", "K"), ("dBm", "mW"), ("K", "degF"), ("m", "cm"), ("Np", "dB")]:
        def pre(b, name=name, target=target):
            u = b.new(UNITC)
            first = b.call(b.getattr(u, "__getattr__"), name)
            b.call(b.getattr(first, "to"), target)
            return dict(args=[u, name], env=dict(first=first, name=name, u=u))
        c.scenario(f"{name} after {name}.to({target})", pre)
    c.ensures("result.magnitude.value == 1 and result.baseunits.expression == name and not same_object(result, first)", "one-of-this-unit-and-an-object-of-its-own")
    c.no_raise()
    c.modifies()
