"""C04: linear unit conversion is exact, reversible and dimension-safe (plus the error-scaling clause of
C08 and the no-mutation clause of C07 for value()).

One scenario per ordered pair of units (concrete structure, from the published tables), magnitude symbolic:
the obligations hold for every value x.  The expected factor is computed from the table rows by
contracts/unitdata.py, not by the library.  Equalities are stated up to a relative 1e-12 because the
library and the specification may multiply the same table constants in a different order."""
import itertools
import os
import random

from pyvc.contract import contract, spec, lemma
from contracts import unitdata as U

Q = "units/quantity.py::Quantity"
TIER = os.environ.get("PYVC_TIER", "quick")


@spec
def absv(x):
    return x if x >= 0 else -x


@spec
def close(a, b):
    """equal up to the rounding of a handful of float multiplications (relative 1e-12)"""
    return absv(a - b) <= absv(b) / 1000000000000


def _pairs():
    groups = U.by_dimension()
    rng = random.Random(20260928)
    same, recip, other = [], [], []
    for dv, syms in groups.items():
        if not any(dv):
            continue
        terms = [[("", s, 1, 1)] for s in syms]
        # prefixed and powered variants of the group's first symbols
        for s in syms[:3]:
            for p in ("k", "m", "da", "u"):
                if U.admits(s, p):
                    terms.append([(p, s, 1, 1)])
        for a, b in itertools.permutations(terms, 2):
            same.append((a, b))
        for a in terms:
            same.append((a, a))
    # products / powers / quotients
    comp = [([("k", "g", 1, 1), ("", "m", 1, 1), ("", "s", -2, 1)], [("", "N", 1, 1)]),
            ([("", "N", 1, 1)], [("", "dyn", 1, 1)]),
            ([("k", "m", 2, 1)], [("", "m", 2, 1)]),
            ([("c", "m", 3, 1)], [("", "l", 1, 1)]),
            ([("", "m", 1, 2)], [("c", "m", 1, 2)]),
            ([("", "J", 1, 1), ("", "s", -1, 1)], [("", "W", 1, 1)]),
            ([("k", "m", 1, 1), ("", "h", -1, 1)], [("", "m", 1, 1), ("", "s", -1, 1)]),
            ([("", "m", -3, 1)], [("c", "m", -3, 1)]),
            ([("", "g", 1, 1), ("c", "m", -3, 1)], [("k", "g", 1, 1), ("", "m", -3, 1)])]
    same += comp + [(b, a) for a, b in comp]
    recip = [([("", "Hz", 1, 1)], [("", "s", 1, 1)]), ([("", "s", 1, 1)], [("k", "Hz", 1, 1)]),
             ([("", "Ohm", 1, 1)], [("", "S", 1, 1)]), ([("", "m", 1, 1)], [("c", "m", -1, 1)]),
             ([("", "m", 2, 1)], [("", "m", -2, 1)]), ([("m", "s", 1, 1)], [("", "Hz", 1, 1)])]
    other = [([("", "m", 1, 1)], [("", "s", 1, 1)]), ([("", "J", 1, 1)], [("", "W", 1, 1)]),
             ([("k", "g", 1, 1)], [("", "m", 2, 1)]), ([("", "m", 1, 1)], [("", "m", 2, 1)]),
             ([("", "N", 1, 1)], [("", "Pa", 1, 1)]), ([("", "mol", 1, 1)], [("", "rad", 1, 1)]),
             ([("", "m", 1, 1)], [("", "rad", 1, 1)]), ([("", "C", 1, 1)], [("", "K", 1, 1)]),
             # only a bare number converts to radians: a dimensionless table unit does not
             ([("", "%", 1, 1)], [("", "rad", 1, 1)]), ([("", "ppth", 1, 1)], [("m", "rad", 1, 1)]), ([("", "[pi]", 1, 1)], [("", "rad", 1, 1)])]
    if TIER != "thorough":
        rng.shuffle(same)
        same = same[:160] + comp
    return same, recip, other


SAME, RECIP, OTHER = _pairs()


def _scen(a, b):
    ua, ub = U.render(a), U.render(b)
    fa, fb = U.factor(a), U.factor(b)
    return ua, ub, fa, fb


def _add(c, kind, pairs, method, err=False):
    for a, b in pairs:
        ua, ub, fa, fb = _scen(a, b)

        def pre(bd, ua=ua, ub=ub, fa=fa, fb=fb):
            e = bd.real("e") if err else None
            kw = dict(abse=e) if err else {}
            q = bd.new(Q, bd.real("x"), ua, **kw)
            return dict(args=[q, ub], env=dict(x=q_value(bd, q), fa=fa, fb=fb, q=q, e=e))
        c.scenario(f"{kind}:{ua}->{ub}", pre)


def q_value(bd, q):
    return bd.getattr(bd.getattr(q, "magnitude"), "value")


@contract(Q + ".value", ["C04", "C07"], name="Quantity.value[same-dimension]")
def _(c):
    _add(c, "same", SAME, "value")
    c.ensures("close(result, x * fa / fb)", "value-is-x-times-factor-ratio")
    c.no_raise()
    c.modifies()


@contract(Q + ".value", ["C04", "C07"], name="Quantity.value[reciprocal-dimension]")
def _(c):
    _add(c, "recip", RECIP, "value")
    c.requires("x != 0")
    c.ensures("close(result, 1 / (x * fa) / fb)", "value-is-reciprocal")
    c.no_raise()
    c.modifies()


for _meth in ("value", "to"):
    @contract(Q + "." + _meth, ["C04", "C07"], name=f"Quantity.{_meth}[reciprocal-dimension-with-uncertainty]")
    def _(c, meth=_meth):
        _add(c, "recip", RECIP, meth, err=True)
        c.requires("x != 0 and e >= 0")
        if meth == "value":
            c.ensures("close(result, 1 / (x * fa) / fb)", "value-is-reciprocal-whether-or-not-an-uncertainty-is-attached")
            c.modifies()
        else:
            c.ensures("close(self.magnitude.value, 1 / (x * fa) / fb)", "value-is-reciprocal-whether-or-not-an-uncertainty-is-attached")
        c.no_raise()


@contract(Q + ".value", ["C04", "C07"], name="Quantity.value[other-dimension]")
def _(c):
    _add(c, "other", OTHER, "value")
    c.raises("True", label="refused")
    c.on_raise("q.magnitude.value == x and q.baseunits.expression == old(q.baseunits.expression)", "quantity-unchanged")
    c.modifies()


@contract(Q + ".to", ["C04", "C07", "C08"], name="Quantity.to[same-dimension]")
def _(c):
    _add(c, "same", SAME[:60] if TIER != "thorough" else SAME, "to", err=True)
    c.requires("e >= 0")
    c.ensures("close(self.magnitude.value, x * fa / fb)", "value-is-x-times-factor-ratio")
    c.ensures("close(self.magnitude.error, e * fa / fb)", "uncertainty-scales-like-the-value")
    c.ensures("self.magnitude.error >= 0", "uncertainty-non-negative")
    c.ensures("self.baseunits.expression == units", "carries-target-units")
    c.ensures("same_object(result, self)", "returns-self")
    c.no_raise()
    c.modifies("self.magnitude", "self.baseunits")


@contract(Q + ".to", ["C04", "C07"], name="Quantity.to[other-dimension]")
def _(c):
    _add(c, "other", OTHER, "to")
    c.raises("True", label="refused")
    c.on_raise("self.magnitude.value == x and self.baseunits.expression == old(self.baseunits.expression)", "quantity-unchanged")
    c.modifies()


@contract(Q + ".value", ["C04"], name="Quantity.value[number-to-radian]")
def _(c):
    c.scenario("number->rad", lambda bd: dict(args=[bd.new(Q, bd.real("x")), "rad"], env=dict(x=None)))
    c.ensures("result == self.magnitude.value", "unchanged")
    c.no_raise()
    c.modifies()


def _fac(b):
    return dict(env=dict(x=b.real("x"), fu=b.real("fu"), fv=b.real("fv"), fw=b.real("fw")))


lemma("conversion/round-trip", "C04", _fac, "(x * fu / fv) * fv / fu == x", assumes=["fu > 0 and fv > 0"], ns=globals())
lemma("conversion/through-intermediate", "C04", _fac, "(x * fu / fw) * fw / fv == x * fu / fv",
      assumes=["fu > 0 and fv > 0 and fw > 0"], ns=globals())
lemma("conversion/reciprocal-twice", "C04", _fac, "1 / ((1 / (x * fu) / fv) * fv) / fu == x",
      assumes=["fu > 0 and fv > 0 and x != 0"], ns=globals())
lemma("conversion/relative-uncertainty-kept", "C08",
      lambda b: dict(env=dict(x=b.real("x"), e=b.real("e"), fu=b.real("fu"), fv=b.real("fv"))),
      "(e * fu / fv) / (x * fu / fv) == e / x", assumes=["fu > 0 and fv > 0 and x != 0"], ns=globals())


# ---- array magnitudes: element-wise, and the operand's array is not written to ---------------------------------------
import numpy as _np

ARRAY_PAIRS = [([("k", "m", 1, 1)], [("", "m", 1, 1)]), ([("", "in", 1, 1)], [("c", "m", 1, 1)]), ([("", "J", 1, 1)], [("", "erg", 1, 1)]),
               ([("k", "m", 1, 1), ("", "h", -1, 1)], [("", "m", 1, 1), ("", "s", -1, 1)])]


def _arr(bd, n=3):
    xs = [bd.real(f"x{i}") for i in range(n)]
    return xs, bd.call(bd.const(_np.array), bd.list(list(xs)))


@spec
def elems(a):
    return [v for v in a]


for meth in ("value", "to"):
    @contract(f"{Q}.{meth}", ["C04", "C07"], name=f"Quantity.{meth}[array-magnitude]")
    def _(c, meth=meth):
        c.bound = "arrays of three elements (element values symbolic)"
        for a, b in ARRAY_PAIRS:
            ua, ub, fa, fb = _scen(a, b)

            def pre(bd, ua=ua, ub=ub, fa=fa, fb=fb):
                xs, arr = _arr(bd)
                q = bd.new(Q, arr, ua)
                return dict(args=[q, ub], env=dict(xs=xs, fa=fa, fb=fb, q=q, arr=arr))
            c.scenario(f"{ua}->{ub}", pre)
        if meth == "value":
            c.ensures("all([close(r, x * fa / fb) for r, x in zip(elems(result), xs)]) and len(elems(result)) == len(xs)", "element-wise-x-times-factor-ratio")
            c.ensures("elems(q.magnitude.value) == xs", "the-quantity-keeps-its-elements")
        else:
            c.ensures("all([close(r, x * fa / fb) for r, x in zip(elems(self.magnitude.value), xs)]) and len(elems(self.magnitude.value)) == len(xs)", "element-wise-x-times-factor-ratio")
        c.ensures("elems(arr) == xs", "the-array-handed-in-is-not-written-to")
        c.no_raise()


for meth in ("value", "to"):
    @contract(f"{Q}.{meth}", ["C04", "C07"], name=f"Quantity.{meth}[array-magnitude-reciprocal-dimension]")
    def _(c, meth=meth):
        c.bound = "arrays of three non-zero elements (element values symbolic); units of exactly reciprocal dimension"
        for a, b in RECIP[:4]:
            ua, ub, fa, fb = _scen(a, b)

            def pre(bd, ua=ua, ub=ub, fa=fa, fb=fb):
                xs, arr = _arr(bd)
                q = bd.new(Q, arr, ua)
                return dict(args=[q, ub], env=dict(xs=xs, fa=fa, fb=fb, q=q, arr=arr))
            c.scenario(f"{ua}->{ub}", pre)
        c.requires("all([x != 0 for x in xs])")
        if meth == "value":
            c.ensures("all([close(r, 1 / (x * fa) / fb) for r, x in zip(elems(result), xs)]) and len(elems(result)) == len(xs)", "element-wise-reciprocal")
            c.ensures("elems(q.magnitude.value) == xs", "the-quantity-keeps-its-elements")
        else:
            c.ensures("all([close(r, 1 / (x * fa) / fb) for r, x in zip(elems(self.magnitude.value), xs)]) and len(elems(self.magnitude.value)) == len(xs)", "element-wise-reciprocal")
        c.ensures("elems(arr) == xs", "the-array-handed-in-is-not-written-to")
        c.no_raise()


@contract(f"{Q}.value", ["C04", "C07", "C08"], name="Quantity.value[array-magnitude-with-uncertainty]")
def _(c):
    c.bound = "arrays of three elements with one absolute uncertainty for all (element values and uncertainty symbolic)"
    for a, b in ARRAY_PAIRS[:3]:
        ua, ub, fa, fb = _scen(a, b)

        def pre(bd, ua=ua, ub=ub, fa=fa, fb=fb):
            xs, arr = _arr(bd)
            e = bd.real("e")
            q = bd.new(Q, arr, ua, abse=e)
            return dict(args=[q, ub], env=dict(xs=xs, fa=fa, fb=fb, q=q, arr=arr, e=e))
        c.scenario(f"{ua}->{ub}", pre)
    c.requires("e >= 0")
    c.ensures("all([close(r, x * fa / fb) for r, x in zip(elems(result), xs)])", "element-wise-x-times-factor-ratio")
    c.ensures("elems(q.magnitude.value) == xs and elems(q.magnitude.error) == [e for x in xs]", "the-quantity-keeps-its-elements-and-uncertainties")
    c.no_raise()


@contract(f"{Q}.to", ["C04", "C08"], name="Quantity.to[array-magnitude-with-uncertainty]")
def _(c):
    c.bound = "arrays of three elements with one absolute uncertainty for all (element values and uncertainty symbolic)"
    for a, b in ARRAY_PAIRS[:3]:
        ua, ub, fa, fb = _scen(a, b)

        def pre(bd, ua=ua, ub=ub, fa=fa, fb=fb):
            xs, arr = _arr(bd)
            e = bd.real("e")
            q = bd.new(Q, arr, ua, abse=e)
            other = bd.new(Q, arr, ua, abse=e)
            return dict(args=[q, ub], env=dict(xs=xs, fa=fa, fb=fb, q=q, arr=arr, e=e, err0=bd.getattr(bd.getattr(q, "magnitude"), "error")))
        c.scenario(f"{ua}->{ub}", pre)
    c.requires("e >= 0")
    c.ensures("all([close(r, x * fa / fb) for r, x in zip(elems(self.magnitude.value), xs)])", "element-wise-x-times-factor-ratio")
    c.ensures("all([close(r, e * fa / fb) and r >= 0 for r in elems(self.magnitude.error)]) and len(elems(self.magnitude.error)) == len(xs)", "uncertainties-scale-like-the-values")
    c.ensures("elems(err0) == [e for x in xs]", "the-uncertainty-array-held-before-is-not-written-to")
    c.no_raise()


# ---- a Quantity as conversion target: the value is expressed in multiples of it; a refusal leaves the operand alone ---------------
@contract(f"{Q}.to", ["C04", "C07"], name="Quantity.to[quantity-target]")
def _(c):
    for a, b in [([("k", "m", 1, 1)], [("", "m", 1, 1)]), ([("", "J", 1, 1)], [("", "erg", 1, 1)]), ([("", "min", 1, 1)], [("", "s", 1, 1)])]:
        ua, ub, fa, fb = _scen(a, b)

        def pre(bd, ua=ua, ub=ub, fa=fa, fb=fb):
            q = bd.new(Q, bd.real("x"), ua)
            t = bd.new(Q, bd.real("k"), ub)
            return dict(args=[q, t], env=dict(x=q_value(bd, q), k=q_value(bd, t), fa=fa, fb=fb, t=t, ub=ub))
        c.scenario(f"{ua}->k*{ub}", pre)
    c.requires("k != 0")
    c.ensures("close(self.magnitude.value * k, x * fa / fb)", "value-in-multiples-of-the-target")
    c.ensures("t.magnitude.value == k and t.baseunits.expression == ub", "target-unchanged")
    c.no_raise()


@contract(f"{Q}.to", ["C04", "C07"], name="Quantity.to[quantity-target-of-other-dimension]")
def _(c):
    for a, b in OTHER[:5]:
        ua, ub, fa, fb = _scen(a, b)

        def pre(bd, ua=ua, ub=ub):
            q = bd.new(Q, bd.real("x"), ua, abse=bd.real("e"))
            t = bd.new(Q, bd.real("k"), ub)
            return dict(args=[q, t], env=dict(x=q_value(bd, q), k=q_value(bd, t), t=t, e0=bd.getattr(bd.getattr(q, "magnitude"), "error")))
        c.scenario(f"{ua}->k*{ub}", pre)
    c.requires("k != 0")
    c.raises("True", label="refused")
    c.on_raise("self.magnitude.value == x and self.magnitude.error == e0 and self.baseunits.expression == old(self.baseunits.expression)", "quantity-unchanged")
    c.on_raise("t.magnitude.value == k", "target-unchanged")



# ---- a plain number read as radians: the prefixed target scales the uncertainty like the value ----------------------------------
@contract(Q + ".to", ["C04", "C08"], name="Quantity.to[number-to-radians]")
def _(c):
    for ub, fb in [("rad", 1.0), ("mrad", 1e-3)]:
        def pre(bd, ub=ub, fb=fb):
            e = bd.real("e")
            q = bd.new(Q, bd.real("x"), abse=e)
            return dict(args=[q, ub], env=dict(x=q_value(bd, q), e=e, fb=fb))
        c.scenario(f"number->{ub}", pre)
    c.requires("e >= 0")
    c.ensures("close(self.magnitude.value, x / fb)", "value-unchanged-up-to-the-prefix")
    c.ensures("close(self.magnitude.error, e / fb) and self.magnitude.error >= 0", "uncertainty-scales-like-the-value")
    c.no_raise()


# ---- a quantity built from an array holds its own copy: what the caller does to the array later does not reach the quantity ------------
@contract(f"{Q}.__init__", ["C04", "C07"], name="Quantity.__init__[array-is-copied]")
def _(c):
    c.bound = "arrays of three elements (float and integer elements)"
    for kind in ("real", "int"):
        def pre(bd, kind=kind):
            xs = [getattr(bd, kind)(f"x{i}") for i in range(3)]
            arr = bd.call(bd.const(_np.array), bd.list(list(xs)))
            return dict(args=[bd.obj(Q), arr, "km"], env=dict(xs=xs, arr=arr))
        c.scenario(f"{kind}-array", pre)

        def pre_plain(bd, kind=kind):
            xs = [getattr(bd, kind)(f"x{i}") for i in range(3)]
            arr = bd.call(bd.const(_np.array), bd.list(list(xs)))
            return dict(args=[bd.obj(Q), arr], env=dict(xs=xs, arr=arr))
        c.scenario(f"{kind}-array-without-units", pre_plain)
    c.ensures("elems(self.magnitude.value) == xs and elems(arr) == xs", "values-as-given")
    c.ensures("not same_object(self.magnitude.value, arr)", "own-array")
    c.no_raise()
