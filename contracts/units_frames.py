"""C07: comparisons, NumPy functions and value queries leave their operands as they were; only the
explicitly in-place methods (to, rebase, abse, rele) change the object they are called on, and only that."""
import numpy as np

from pyvc.contract import contract, spec
from contracts import unitdata as U
from contracts.units_common import T, obs, absv, near

Q = "units/quantity.py::Quantity"


def one(bd, u, err=True, name="x"):
    e = bd.real("e" + name) if err else None
    q = bd.new(Q, bd.real(name), U.render(T(u)), **(dict(abse=e) if err else {}))
    return q, bd.getattr(bd.getattr(q, "magnitude"), "value"), e


@contract(f"{Q}.__eq__", ["C07"], name="Quantity.__eq__")
def _(c):
    for ua, ub in [("m", "c:m"), ("m", "m"), ("k:m", "in"), ("J", "erg"), ("d:B", "d:B"), ("Cel", "K")]:
        def pre(bd, ua=ua, ub=ub):
            a, x, _ = one(bd, ua, name="a")
            b, y, _ = one(bd, ub, name="b")
            return dict(args=[a, b], env=dict(qa=a, qb=b))
        c.scenario(f"{ua} == {ub}", pre)
    c.ensures("obs(qa) == old(obs(qa)) and obs(qb) == old(obs(qb))", "operands-report-the-same")
    c.no_raise()
    c.modifies()


@contract(f"{Q}.__eq__", ["C07"], name="Quantity.__eq__[different-dimension]")
def _(c):
    def pre(bd):
        a, x, _ = one(bd, "m", name="a")
        b, y, _ = one(bd, "s", name="b")
        return dict(args=[a, b], env=dict(qa=a, qb=b, y=y))
    c.scenario("m == s", pre)
    c.requires("y != 0")
    c.raises("True", label="refused")
    c.on_raise("obs(qa) == old(obs(qa)) and obs(qb) == old(obs(qb))", "operands-report-the-same")
    c.modifies()


UFUNCS = [("sin", np.sin, "deg"), ("cos", np.cos, "rad"), ("tan", np.tan, "deg"), ("sqrt", np.sqrt, "m^2"), ("cbrt", np.cbrt, "m^3"),
          ("arcsin", np.arcsin, "%"), ("arctan", np.arctan, "ppth"), ("absolute", np.absolute, "m")]


@contract(f"{Q}.__array_ufunc__", ["C07"], name="Quantity.__array_ufunc__")
def _(c):
    for name, fn, u in UFUNCS:
        def pre(bd, fn=fn, u=u):
            q, x, _ = one(bd, u)
            return dict(args=[q, bd.const(fn), "__call__", q], env=dict(q=q))
        c.scenario(f"np.{name}({u})", pre)
    c.ensures("obs(q) == old(obs(q))", "argument-reports-the-same")
    c.fresh("result.magnitude", "result-magnitude-is-fresh")
    c.no_raise()
    c.modifies()


@contract(f"{Q}.__array_ufunc__", ["C07", "C06"], name="Quantity.__array_ufunc__[power]")
def _(c):
    for p, ur in [(2, "m2"), (0.5, "m1:2"), (3, "m3")]:
        def pre(bd, p=p, ur=ur):
            q, x, _ = one(bd, "m", err=False)
            return dict(args=[q, bd.const(np.power), "__call__", q, p], env=dict(q=q, ur=ur))
        c.scenario(f"np.power(m, {p})", pre)
    c.ensures("result.baseunits.expression == ur", "exponents-multiplied-by-the-power")
    c.ensures("obs(q) == old(obs(q))", "argument-reports-the-same")
    c.no_raise()
    c.modifies()


# in-place methods: exactly the object they are called on
@contract(f"{Q}.abse", ["C07", "C08"], name="Quantity.abse[set]")
def _(c):
    def pre(bd):
        q, x, e = one(bd, "m")
        other, y, _ = one(bd, "m", name="y")
        return dict(args=[q, bd.real("new")], env=dict(other=other, x=x))
    c.scenario("m", pre)
    c.ensures("self.magnitude.error == error and self.magnitude.value == x and same_object(result, self)", "uncertainty-set")
    c.ensures("obs(other) == old(obs(other))", "other-quantities-unaffected")
    c.no_raise()
    c.modifies("self.magnitude.error")


@contract(f"{Q}.rele", ["C07", "C08"], name="Quantity.rele[set]")
def _(c):
    def pre(bd):
        q, x, e = one(bd, "m")
        return dict(args=[q, bd.real("new")], env=dict(x=x))
    c.scenario("m", pre)
    c.requires("error >= 0")
    c.ensures("self.magnitude.error == absv(x) * error / 100 and self.magnitude.error >= 0", "absolute-from-relative")
    c.no_raise()
    c.modifies("self.magnitude.error")


@contract(f"{Q}.rebase", ["C07", "C06"], name="Quantity.rebase")
def _(c):
    for u, ur, f in [("k:m c:m", "km2", 1e-5), ("m s^-1 k:m^-1 h", "m0"[:0] or None, None), ("J erg^-1", "J0"[:0] or None, None), ("k:g m s^-2", "kg*m*s-2", 1.0)]:
        def pre(bd, u=u, ur=ur, f=f):
            q, x, e = one(bd, u, err=False)
            fa = U.factor(T(u))
            return dict(args=[q], env=dict(x=x, fa=fa, ur=ur))
        c.scenario(u, pre)
    c.ensures("same_object(result, self)", "returns-self")
    c.ensures("implies(ur is not None, self.baseunits.expression == ur)", "merged-units")
    c.no_raise()
    c.modifies("self.magnitude", "self.baseunits")


# ---- np.linspace / np.logspace between two quantities: the end points are read, never rewritten -------------------------------------
import numpy as _np

for fname in ("linspace", "logspace"):
    @contract(f"units/quantity.py::{fname}", ["C07"], name=f"numpy.{fname}[quantities]")
    def _(c, fname=fname):
        c.bound = "three grid points; end points in the same and in different units, with and without uncertainty"
        for ua, ub, f in [("m", "km", 1000.0), ("km", "m", 0.001), ("m", "m", 1.0), ("J", "erg", 1e-7)]:
            def pre(bd, ua=ua, ub=ub, f=f):
                ea, eb = bd.real("ea"), bd.real("eb")
                a = bd.new(Q, bd.real("x"), ua, abse=ea)
                b = bd.new(Q, bd.real("y"), ub, abse=eb)
                return dict(args=[a, b, 3], env=dict(qa=a, qb=b, ea=ea, eb=eb, x=bd.getattr(bd.getattr(a, "magnitude"), "value"), y=bd.getattr(bd.getattr(b, "magnitude"), "value"), f=f, ua=ua))
            c.scenario(f"{ua}..{ub}", pre)
        c.requires("ea >= 0 and eb >= 0")
        c.ensures("obs(qa) == old(obs(qa)) and obs(qb) == old(obs(qb))", "end-points-report-the-same")
        c.ensures("result.baseunits.expression == ua and len([v for v in result.magnitude.value]) == 3", "grid-in-the-units-of-the-first-end-point")
        if fname == "linspace":
            c.ensures("(lambda g: near(g[0], x) and near(g[2], y * f) and near(g[1] * 2, x + y * f))([v for v in result.magnitude.value])", "evenly-spaced-between-the-end-points")
        c.no_raise()
        c.modifies()


# ---- the in-place methods of a RESULT (rebase, to) change that result only: the operands it was computed from keep their value, text,
#      unit list and factor, and convert afterwards as before ---------------------------------------------------------------------------
DERIVED = [("mul", "c:m", "m", "m:m"), ("mul", "k:m", "c:m", "m"), ("div", "m^2", "c:m", "m:m^2"), ("mul", "g", "k:g", "m:g"), ("div", "k:m", "m", "c:m")]


for meth in ("rebase", "to"):
    @contract(f"{Q}.{meth}", ["C04", "C07"], name=f"Quantity.{meth}[of-a-product-or-quotient]")
    def _(c, meth=meth):
        c.bound = "products and quotients of two quantities of the same dimension in different units"
        for how, ua, ub, target in DERIVED:
            def pre(bd, how=how, ua=ua, ub=ub, target=target):
                a, x, _ = one(bd, ua, err=False, name="a")
                b, y, _ = one(bd, ub, err=False, name="b")
                p, exc = bd.call_catching(bd.getattr(a, "__mul__" if how == "mul" else "__truediv__"), b)
                bd.assume(exc is None)    # the quotient by zero is not a pre-state
                ta = merge_terms(T(ua), T(ub), 1 if how == "mul" else -1)
                args = [p] if meth == "rebase" else [p, U.render(rebased(ta))]
                return dict(args=args, env=dict(qa=a, qb=b, x=x, fa=U.factor(T(ua)), target=U.render(T(target)), ft=U.factor(T(target))))
            c.scenario(f"{ua} {'*' if how == 'mul' else '/'} {ub}", pre)
        c.ensures("obs(qa) == old(obs(qa)) and obs(qb) == old(obs(qb))", "operands-of-the-product-report-the-same")
        c.ensures("near((5 * qa).value(target) * ft, 5 * x * fa)", "a-multiple-of-the-operand-converts-as-before")


def merge_terms(ta, tb, sign):
    from contracts.units_common import merge
    return merge(ta, tb, sign)


def rebased(terms):
    """one unit per dimension: the first unit of each base symbol, exponents added"""
    from fractions import Fraction as PF
    out = []
    for p, u, n, d in terms:
        for o in out:
            if o[1] == u:
                o[2] += PF(n, d)
                break
        else:
            out.append([p, u, PF(n, d)])
    return [(p, u, e.numerator, e.denominator) for p, u, e in out if e != 0] or [("", "m", 0, 1)]
