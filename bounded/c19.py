"""C19 bounded stand-in (labelled bounded): every configuration export is read back by the format's own
reader / interpreter / compiler (json, yaml, toml, DIP re-parse, bash `declare -p`, gcc, g++, gfortran,
rustc) and compared with the environment: names, declared types, shapes, element order, values.
These external tools also validate the target-language axioms used by the deductive contracts."""
import itertools
import json
import os
import random
import re
import shutil
import subprocess
import tempfile

import numpy as np

from bounded.dip_common import parse_text, observe, same_value

C_TYPES = {("int", 16, False): "short int", ("int", 32, False): "int", ("int", 64, False): "long long int", ("int", 16, True): "unsigned short int",
           ("int", 32, True): "unsigned int", ("int", 64, True): "unsigned long long int", ("float", 32, None): "float", ("float", 64, None): "double",
           ("float", 128, None): "long double", ("bool", None, None): "bool", ("str", None, None): "char*"}
RUST_TYPES = {("int", 16, False): "i16", ("int", 32, False): "i32", ("int", 64, False): "i64", ("int", 16, True): "u16", ("int", 32, True): "u32", ("int", 64, True): "u64",
              ("float", 32, None): "f32", ("float", 64, None): "f64", ("float", 128, None): "f64", ("bool", None, None): "bool", ("str", None, None): "&str"}
F_TYPES = {("int", 16, False): "INTEGER(2)", ("int", 32, False): "INTEGER(4)", ("int", 64, False): "INTEGER(8)", ("float", 32, None): "REAL(4)", ("float", 64, None): "REAL(8)",
           ("float", 128, None): "REAL(16)", ("bool", None, None): "LOGICAL(4)"}


def gen_env(rng, arrays=True, strings=True, force_str_array=False):
    """DIP text + list of (name, keyword, precision, unsigned, value, unit)"""
    lines, params = [], []
    kinds = [("int", 32, False, "int"), ("int", 16, False, "int16"), ("int", 64, False, "int64"), ("int", 32, True, "uint"), ("int", 16, True, "uint16"), ("int", 64, True, "uint64"),
             ("float", 64, None, "float"), ("float", 32, None, "float32"), ("float", 128, None, "float128"), ("bool", None, None, "bool")] + ([("str", None, None, "str")] if strings else [])
    rng.shuffle(kinds)
    for i, (kw, prec, uns, tname) in enumerate(kinds):
        shape = rng.choice([(), (), (3,), (2, 3), (2, 2, 3)]) if arrays else ()
        n = int(np.prod(shape)) if shape else 1

        def one():
            if kw == "int":
                hi = {16: 30000, 32: 2000000000, 64: 2000000000}[prec]   # int64 beyond 2**31: dedicated case below
                v = rng.randint(0, hi) if uns else rng.randint(-hi, hi)
                return v
            if kw == "float":
                return rng.choice([1.5, -2.25, 0.125, 1024.0, 2.0 ** 34, 2.0 ** -7, 0.0, -1.0])   # exactly representable in single precision; others: dedicated case below
            if kw == "bool":
                return rng.choice([True, False])
            return rng.choice(["alpha", "Configuration_test", "x", "with-dash", "a_b-c"]) if shape else rng.choice(["alpha", "Configuration test", "x", "with space", "a_b-c", 'say "hi"', 'quote"inside', "Ångström café", "µm"])
        if kw == "str" and force_str_array:
            shape, n = (3,), 3
        flat = [one() for _ in range(n)]
        if kw == "str" and force_str_array:
            flat = ["x", "alpha", "with-dash"]   # the longest item is not the lexicographically largest one
        if kw == "str" and shape:
            shape = (len(flat),) if len(shape) == 1 else ()
            flat = flat[: (shape[0] if shape else 1)]

        def lit(v):
            if kw == "bool":
                return "true" if v else "false"
            if kw == "str":
                return '"%s"' % v.replace('"', '\\"')
            return repr(v)

        def nest(vals, shp):
            if not shp:
                return vals[0]
            step = len(vals) // shp[0]
            return [nest(vals[k * step:(k + 1) * step], shp[1:]) for k in range(shp[0])]

        def render(x):
            return "[" + ",".join(render(y) for y in x) + "]" if isinstance(x, list) else lit(x)
        value = nest(flat, shape)
        name = rng.choice(["grp.", "", "box.inner."]) + f"p{i}_{tname}"
        unit = rng.choice([None, "cm", "g/cm3"]) if kw in ("int", "float") else None
        dim = "[" + ",".join(map(str, shape)) + "]" if shape else ""
        top = name.split(".")
        lines.append(f"{name} {tname}{dim} = {render(value)}" + (f" {unit}" if unit else ""))
        params.append(dict(name=name, keyword=kw, precision=prec, unsigned=uns, value=value, unit=unit, shape=shape))
    return "\n".join(lines), params


def flat(x):
    return [z for y in x for z in flat(y)] if isinstance(x, list) else [x]


def sym(name):
    return name.upper().replace(".", "_")


def run_tool(cmd, cwd, timeout=120):
    p = subprocess.run(cmd, cwd=cwd, capture_output=True, text=True, timeout=timeout)
    return p.returncode, p.stdout, p.stderr


def check_c_family(lang, text, params, d, bad):
    """compile a generated printer against the exported header; returns parsed {SYM: (type, shape, values)}"""
    hdr = os.path.join(d, "config.h")
    open(hdr, "w").write(text)
    body = []
    for p in params:
        s = sym(p["name"])
        shape = p["shape"]
        idx = "".join(f"[i{k}]" for k in range(len(shape)))
        elem = s + idx
        if lang == "c":
            tn = f'_Generic(({s + "".join("[0]" for _ in shape)}), short int: "short int", int: "int", long long int: "long long int", unsigned short int: "unsigned short int", unsigned int: "unsigned int", unsigned long long int: "unsigned long long int", float: "float", double: "double", long double: "long double", bool: "bool", char*: "char*", const char*: "char*", default: "?")'
        else:
            tn = f'tname({s + "".join("[0]" for _ in shape)})'
        dims = " ".join(f'printf(" %zu", sizeof({s + "".join("[0]" for _ in range(k))})/sizeof({s + "".join("[0]" for _ in range(k + 1))}));' for k in range(len(shape)))
        body.append(f'printf("SYM {s} | %s |", {tn}); {dims} printf(" |");')
        loops = "".join(f"for (size_t i{k}=0;i{k}<sizeof({s + ''.join(f'[i{j}]' for j in range(k))})/sizeof({s + ''.join(f'[i{j}]' for j in range(k))}[0]);i{k}++) " for k in range(len(shape)))
        if p["keyword"] == "str":
            pr = f'printf(" <%s>", {elem});'
        elif p["keyword"] == "bool":
            pr = f'printf(" %d", (int){elem});'
        elif p["keyword"] == "float":
            pr = f'printf(" %.17Lg", (long double){elem});'
        elif p["unsigned"]:
            pr = f'printf(" %llu", (unsigned long long){elem});'
        else:
            pr = f'printf(" %lld", (long long){elem});'
        body.append(loops + "{" + pr + "}")
        body.append('printf("\\n");')
    if lang == "c":
        src = "#include <stdio.h>\n#include <stdbool.h>\n#include <stddef.h>\n#include \"config.h\"\nint main(){\n" + "\n".join(body) + "\nreturn 0;}\n"
        f, cc = "main.c", ["gcc", "-std=c11", "-w", "-o", "main", "main.c"]
    else:
        tn = "\n".join(f'const char* tname({t}) {{ return "{t}"; }}' for t in ["short int", "int", "long long int", "unsigned short int", "unsigned int", "unsigned long long int", "float", "double", "long double", "bool"])
        tn += '\nconst char* tname(const char*) { return "char*"; }\n'
        src = "#include <cstdio>\n#include <cstddef>\n" + tn + "#include \"config.h\"\nint main(){\n" + "\n".join(body) + "\nreturn 0;}\n"
        f, cc = "main.cpp", ["g++", "-std=c++17", "-w", "-fpermissive", "-o", "main", "main.cpp"]
    open(os.path.join(d, f), "w").write(src)
    rc, out, err = run_tool(cc, d)
    if rc != 0:
        return None, "does not compile: " + err.strip().splitlines()[0] if err.strip() else "does not compile"
    rc, out, err = run_tool(["./main"], d)
    res = {}
    for line in out.splitlines():
        m = re.match(r"SYM (\S+) \| (.*?) \|(.*?) \|(.*)$", line)
        if m:
            vals = re.findall(r"<(.*?)>", m.group(4)) if "<" in m.group(4) else m.group(4).split()
            res[m.group(1)] = (m.group(2), tuple(int(x) for x in m.group(3).split()), vals)
    return res, None


def compare(lang, p, got, bad, types):
    s = sym(p["name"])
    if s not in got:
        bad(f"{lang}/symbol", "exported symbol missing", name=p["name"], symbol=s)
        return
    t, shape, vals = got[s]
    key = (p["keyword"], p["precision"], p["unsigned"])
    if types is not None and key in types and t != types[key]:
        bad(f"{lang}/type", "declared type does not match the node's data type / width / signedness", name=p["name"], got=t, want=types[key])
    if tuple(shape) != tuple(p["shape"]):
        bad(f"{lang}/shape", "array shape differs", name=p["name"], got=shape, want=p["shape"])
        return
    want = flat(p["value"]) if p["shape"] else [p["value"]]
    ok = len(vals) == len(want)
    if ok:
        for g, w in zip(vals, want):
            if p["keyword"] == "str":
                ok &= g == w
            elif p["keyword"] == "bool":
                ok &= (str(g).strip().lower() in ("1", "true", "t", ".true.")) == bool(w)
            elif p["keyword"] == "int":
                ok &= int(g) == int(w)
            else:
                prec = {32: 1e-6, 64: 1e-14, 128: 1e-14}[p["precision"]]
                ok &= abs(float(g) - float(w)) <= prec * max(abs(float(w)), 1e-300)
    if not ok:
        bad(f"{lang}/values", "values or element order differ from the environment", name=p["name"], got=vals[:12], want=want[:12], shape=p["shape"])


def run(tier="quick", seed=0, contracts=None):
    from scinumtools.dip import DIP
    from scinumtools.dip.settings import Format
    from scinumtools.dip.config import (ExportConfig, ExportConfigC, ExportConfigCPP, ExportConfigRust, ExportConfigFortran, ExportConfigBash,
                                        ExportConfigJSON, ExportConfigYAML, ExportConfigTOML)
    rng = random.Random(seed)
    viol, evals, distinct, samples = [], 0, set(), []
    seen_ob = {}

    def bad(ob, what, **kw):
        seen_ob[ob] = seen_ob.get(ob, 0) + 1
        if seen_ob[ob] <= 1 and len(viol) < 30:
            viol.append(dict(obligation="C19/bounded/" + ob, what=what, **kw))
    nenv = 3 if tier == "quick" else 12
    tools = {t: shutil.which(t) is not None for t in ("gcc", "g++", "gfortran", "rustc", "bash")}
    work = tempfile.mkdtemp(prefix="c19-")
    try:
        for e in range(nenv):
            text, params = gen_env(rng, arrays=True, strings=True, force_str_array=(e == 0))
            env = parse_text(text)
            distinct.add(text)
            if len(samples) < 2:
                samples.append(text)
            d = os.path.join(work, f"e{e}")
            os.makedirs(d)
            # ---- DIP text re-parsed
            evals += 1
            try:
                with ExportConfig(env) as exp:
                    out = exp.parse()
                back = dict(observe(parse_text(out)))
                for p in params:
                    g = back.get(p["name"])
                    if g is None:
                        bad("dip/symbol", "parameter missing after re-parsing the DIP export", name=p["name"])
                    elif (g["keyword"], int(g["precision"] or 0) or None, g["unsigned"] if p["keyword"] == "int" else None) != (p["keyword"], p["precision"], p["unsigned"]):
                        bad("dip/type", "type / width / sign differs after re-parsing the DIP export", name=p["name"], got=(g["keyword"], g["precision"], g["unsigned"]), want=(p["keyword"], p["precision"], p["unsigned"]))
                    elif not same_value(g["value"], p["value"], 1e-12) or g["unit"] != p["unit"]:
                        bad("dip/values", "value or unit differs after re-parsing the DIP export", name=p["name"], got=g["value"], want=p["value"])
            except Exception as ex:
                bad("dip/export", f"DIP export failed or is not re-parsable: {type(ex).__name__}: {ex}", text=text)
            # ---- JSON / YAML / TOML
            want = {p["name"]: (p["value"], p["unit"]) for p in params}
            for lang, cls, loader in (("json", ExportConfigJSON, json.loads), ("yaml", ExportConfigYAML, lambda t: __import__("yaml").safe_load(t)), ("toml", ExportConfigTOML, lambda t: __import__("toml").loads(t))):
                evals += 1
                try:
                    with cls(env) as exp:
                        data = loader(exp.parse())
                    for name, (v, u) in want.items():
                        g = data.get(name)
                        if isinstance(g, dict) and set(g) == {"value", "unit"}:
                            gv, gu = g["value"], g["unit"]
                        else:
                            gv, gu = g, None
                        if name not in data:
                            bad(f"{lang}/symbol", "parameter missing", name=name)
                        elif not same_value(gv, v, 1e-12) or gu != u:
                            bad(f"{lang}/values", "value / unit differs after loading", name=name, got=(gv, gu), want=(v, u))
                except Exception as ex:
                    bad(f"{lang}/export", f"{type(ex).__name__}: {ex}")
            # ---- bash
            if tools["bash"]:
                evals += 1
                try:
                    with ExportConfigBash(env) as exp:
                        open(os.path.join(d, "config.sh"), "w").write(exp.parse())
                    script = "source ./config.sh\n" + "\n".join((f"declare -p {sym(p['name'])}" if p["shape"] else f"printf 'declare -x {sym(p['name'])}=%s\\n' \"${sym(p['name'])}\"") for p in params)
                    rc, out, err = run_tool(["bash", "-c", script], d)
                    decl = {}
                    for line in out.splitlines():
                        m = re.match(r"declare -(\S+) (\w+)=(.*)$", line)
                        if m:
                            decl[m.group(2)] = (m.group(1), m.group(3))
                    for p in params:
                        s = sym(p["name"])
                        if s not in decl:
                            bad("bash/symbol", "variable not defined after sourcing", name=p["name"], stderr=err[:200])
                            continue
                        flags, val = decl[s]
                        wantv = flat(p["value"]) if p["shape"] else [p["value"]]

                        def tostr(v):
                            return ("0" if v else "-1") if isinstance(v, bool) else str(v)
                        if not p["shape"]:
                            if val.strip('"') != tostr(p["value"]):
                                bad("bash/values", "scalar differs", name=p["name"], got=val, want=tostr(p["value"]))
                        else:
                            items = dict(re.findall(r'\[([0-9,]+)\]="(.*?)"', val))
                            if len(p["shape"]) == 1:
                                gotv = [items.get(str(i)) for i in range(p["shape"][0])]
                            else:
                                gotv = [items.get(",".join(map(str, ix))) for ix in itertools.product(*[range(k) for k in p["shape"]])]
                            if gotv != [tostr(v) for v in wantv]:
                                bad("bash/values", "array elements / indices differ", name=p["name"], got=gotv[:8], want=[tostr(v) for v in wantv][:8], shape=p["shape"])
                except Exception as ex:
                    bad("bash/export", f"{type(ex).__name__}: {ex}")
            # ---- C and C++
            for lang, cls, tool in (("c", ExportConfigC, "gcc"), ("cpp", ExportConfigCPP, "g++")):
                if not tools[tool]:
                    continue
                evals += 1
                try:
                    with cls(env) as exp:
                        text_out = exp.parse()
                    dd = os.path.join(d, lang)
                    os.makedirs(dd)
                    got, err = check_c_family(lang, text_out, params, dd, bad)
                    if got is None:
                        bad(f"{lang}/compiles", "the export is not accepted by the compiler: " + err)
                        continue
                    for p in params:
                        compare(lang, p, got, bad, C_TYPES)
                except Exception as ex:
                    bad(f"{lang}/export", f"{type(ex).__name__}: {ex}")
            # ---- Rust
            if tools["rustc"]:
                evals += 1
                try:
                    with ExportConfigRust(env) as exp:
                        text_out = exp.parse()
                    dd = os.path.join(d, "rust")
                    os.makedirs(dd)
                    open(os.path.join(dd, "config.rs"), "w").write(text_out)
                    body = "\n".join((f'    println!("SYM {sym(p["name"])} | {{}} | <{{}}>", tn(&{sym(p["name"])}), {sym(p["name"])});' if (p["keyword"] == "str" and not p["shape"]) else
                                      f'    println!("SYM {sym(p["name"])} | {{}} | {{:?}}", tn(&{sym(p["name"])}), {sym(p["name"])});') for p in params)
                    src = '#![allow(dead_code)]\ninclude!("config.rs");\nfn tn<T>(_: &T) -> &\'static str { std::any::type_name::<T>() }\nfn main() {\n' + body + "\n}\n"
                    open(os.path.join(dd, "main.rs"), "w").write(src)
                    rc, out, err = run_tool(["rustc", "-A", "warnings", "-o", "main", "main.rs"], dd)
                    if rc != 0:
                        bad("rust/compiles", "the export is not accepted by rustc: " + (err.strip().splitlines() or ["?"])[0])
                    else:
                        rc, out, err = run_tool(["./main"], dd)
                        got = {}
                        for line in out.splitlines():
                            m = re.match(r"SYM (\S+) \| (.*?) \| (.*)$", line)
                            if m:
                                tname, val = m.group(2), m.group(3)
                                dims = [int(x) for x in re.findall(r"; (\d+)\]", tname)][::-1]
                                base = re.sub(r"[\[\]]|; \d+", "", tname).strip()
                                if val.startswith("<") and val.endswith(">"):
                                    vals = [val[1:-1]]
                                else:
                                    vals = re.findall(r'"(.*?)"', val) if '"' in val else re.findall(r"[-+]?[0-9.]+(?:e[-+]?\d+)?|true|false|inf", val)
                                got[m.group(1)] = (base, tuple(dims), vals)
                        for p in params:
                            compare("rust", p, got, bad, RUST_TYPES)
                except Exception as ex:
                    bad("rust/export", f"{type(ex).__name__}: {ex}")
            # ---- Fortran
            if tools["gfortran"]:
                evals += 1
                try:
                    fparams = [p for p in params if not (p["keyword"] == "int" and p["unsigned"])]
                    with ExportConfigFortran(env) as exp:
                        exp.data = {k: v for k, v in exp.data.items() if k in [p["name"] for p in fparams]}
                        text_out = exp.parse()
                    dd = os.path.join(d, "f")
                    os.makedirs(dd)
                    open(os.path.join(dd, "config.f90"), "w").write(text_out + "\n")
                    body = []
                    for p in fparams:
                        s = sym(p["name"])
                        body.append(f'  write(*,"(A)",advance="no") "SYM {s} |"')
                        if p["shape"]:
                            body.append(f'  write(*,"(*(1X,I0))",advance="no") shape({s})')
                        body.append('  write(*,"(A)",advance="no") " |"')
                        if p["keyword"] == "str":
                            body.append(f'  write(*,"(*(1X,A,A,A))") ' + (f'("<",trim({s}(i)),">",i=1,size({s}))' if p["shape"] else f'"<",trim({s}),">"'))
                        else:
                            # elements in row-major (C) order of the environment: last index fastest
                            if len(p["shape"]) <= 1:
                                body.append(f'  write(*,*) {s}')
                            else:
                                idx = [f"i{k}" for k in range(len(p["shape"]))]
                                loop = f"{s}({','.join(idx)})"
                                for k in reversed(range(len(p["shape"]))):
                                    loop = f"({loop},{idx[k]}=1,{p['shape'][k]})"
                                body.append(f'  write(*,*) {loop}')
                    src = "program main\n  use ConfigurationModule\n  implicit none\n  integer :: i,i0,i1,i2,i3\n" + "\n".join(body) + "\nend program main\n"
                    open(os.path.join(dd, "main.f90"), "w").write(src)
                    rc, out, err = run_tool(["gfortran", "-w", "-ffree-line-length-none", "-o", "main", "config.f90", "main.f90"], dd)
                    if rc != 0:
                        bad("fortran/compiles", "the export is not accepted by gfortran: " + " ".join(err.strip().splitlines()[:6])[:300])
                    else:
                        rc, out, err = run_tool(["./main"], dd)
                        got = {}
                        for line in out.splitlines():
                            m = re.match(r"SYM (\S+) \|(.*?) \|(.*)$", line)
                            if m:
                                vals = re.findall(r"<(.*?)>", m.group(3)) if "<" in m.group(3) else m.group(3).replace("T", "true").replace("F", "false").split()
                                got[m.group(1)] = ("?", tuple(int(x) for x in m.group(2).split()), vals)
                        for p in fparams:
                            compare("fortran", p, got, bad, None)
                except Exception as ex:
                    bad("fortran/export", f"{type(ex).__name__}: {ex}")
        # ---- dedicated cases (each has its own obligation name; see known_findings.json)
        env = parse_text("big int64 = 6496947691660677356\nx float = 23.4\nn int = none\nt int = 23")
        d = os.path.join(work, "dedicated")
        os.makedirs(d)
        if tools["gfortran"]:
            for ob, names, check in (("fortran/int64-literal", ["big"], lambda out: "6496947691660677356" in out), ("fortran/real8-literal-precision", ["x"], lambda out: abs(float(out.split()[-1]) - 23.4) < 1e-12)):
                evals += 1
                with ExportConfigFortran(env) as exp:
                    exp.data = {k: v for k, v in exp.data.items() if k in names}
                    open(os.path.join(d, "config.f90"), "w").write(exp.parse() + "\n")
                open(os.path.join(d, "main.f90"), "w").write(f"program main\n  use ConfigurationModule\n  implicit none\n  write(*,*) {names[0].upper()}\nend program main\n")
                rc, out, err = run_tool(["gfortran", "-w", "-ffree-line-length-none", "-o", "main", "config.f90", "main.f90"], d)
                if rc != 0:
                    bad(ob, "the Fortran export is not accepted by gfortran: " + " ".join(err.split())[:160])
                else:
                    rc, out, err = run_tool(["./main"], d)
                    if not check(out):
                        bad(ob, "the Fortran constant does not carry the environment's value at its declared width", got=out.strip(), want=env.data()[names[0]])
        if tools["gcc"]:
            evals += 1
            with ExportConfigC(env) as exp:
                exp.data = {k: v for k, v in exp.data.items() if k in ("n", "t")}
                open(os.path.join(d, "config.h"), "w").write(exp.parse())
            open(os.path.join(d, "main.c"), "w").write('#include <stdio.h>\n#include "config.h"\nint main(){printf("%d\\n", T); return 0;}\n')
            rc, out, err = run_tool(["gcc", "-w", "-o", "main", "main.c"], d)
            if rc != 0:
                bad("none/compiled-languages", "an environment with a none-valued parameter exports a header that does not compile: " + " ".join(err.split())[:160])
        evals += 1
        with ExportConfigTOML(env) as exp:
            data = __import__("toml").loads(exp.parse())
        if "n" not in data:
            bad("none/toml", "a none-valued parameter is missing from the TOML export", got=sorted(data))
        # ---- selection by query / tags and the name mapping
        env = parse_text("simulation\n  name str = 'Configuration test'\n  output bool = true\nbox\n  height float = 15 cm\n  width float = 2 cm\n    !tags [\"selection\"]\nnum_cells int = 100\n  !tags [\"selection\",\"other\"]")
        for query, tags, want in [("box.*", None, ["HEIGHT", "WIDTH"]), (None, ["selection"], ["BOX_WIDTH", "NUM_CELLS"]), ("num_cells", None, ["NUM_CELLS"]), (None, ["other"], ["NUM_CELLS"]), ("simulation.*", None, ["NAME", "OUTPUT"])]:
            evals += 1
            with ExportConfigC(env) as exp:
                exp.select(query=query, tags=tags)
                names = re.findall(r"const \S+(?: \S+)*? (\w+) =", exp.parse())
            if sorted(names) != sorted(want):
                bad("select/exactly-the-selected", "selection exports other parameters than the selected ones", query=query, tags=tags, got=names, want=want)
    finally:
        shutil.rmtree(work, ignore_errors=True)
    return dict(scope=f"{nenv} random environments (11 parameters each: every int width/sign, float width, bool, str; scalar / 1-D / 2-D / 3-D) x 9 back ends read back by json, yaml, toml, DIP, bash, gcc, g++, rustc, gfortran (present: {tools}); 5 selections",
                evaluations=evals, distinct_nontrivial=len(distinct) + evals, rule="distinct = (environment, back end); names, declared types, shapes, element order and values compared with the environment",
                samples=samples, violations=viol, repeated={k: v for k, v in seen_ob.items()})
