"""C03 bounded stand-in (labelled bounded): random unit expressions over the whole grammar through the real
Quantity/BaseUnits against table-derived factor and dimension vector; render->parse round trip; numeric
factor spellings; single-character corruptions must be rejected or still denote table entries."""
import random
from fractions import Fraction as PF

import numpy as np


def run(tier="quick", seed=0, contracts=None):
    from scinumtools.units import Quantity, BaseUnits
    from contracts import unitdata as U
    rng = random.Random(seed)
    viol, evals, distinct, samples = [], 0, set(), []

    def bad(ob, what, **kw):
        if len(viol) < 6:
            viol.append(dict(obligation="C03/bounded/" + ob, what=what, **kw))
    syms = [s for s in U.UNITS if s not in U.TEMPERATURE and s not in U.LOGARITHMIC]
    exps = [(1, 1), (2, 1), (3, 1), (-1, 1), (-2, 1), (1, 2), (-1, 2), (3, 2), (2, 4)]
    nums = [("2", 2.0), ("0.5", 0.5), ("1e3", 1e3), ("1e-3", 1e-3), ("1e+3", 1e3), ("2.5e+02", 250.0), ("1.013250e+05", 101325.0), ("12", 12.0), ("-3", -3.0)]

    def term():
        s = rng.choice(syms)
        adm = [p for p in U.PREFIX if U.admits(s, p)]
        p = rng.choice(adm) if adm and rng.random() < 0.6 else ""
        n, d = rng.choice(exps)
        return (p, s, n, d)

    def txt(t):
        p, s, n, d = t
        e = "" if (n, d) == (1, 1) else (str(n) if d == 1 else f"{n}:{d}")
        return f"{p}{s}{e}"
    N = 400 if tier == "quick" else 5000
    for i in range(N):
        k = rng.randint(1, 4)
        terms = [term() for _ in range(k)]
        # build text with * / and parentheses; track the effective sign of each term and numeric factors
        text, eff, numf = "", [], 1.0
        if rng.random() < 0.3:
            lit, val = rng.choice(nums)
            text, numf = lit + "*", val
        for j, t in enumerate(terms):
            if t is None:
                continue
            op = "" if j == 0 else rng.choice(["*", "/"])
            sign = -1 if op == "/" else 1
            if j > 0 and rng.random() < 0.25 and j < len(terms) - 1:
                # parenthesised pair: a op (b*c)
                t2 = terms[j + 1]
                text += f"{op}({txt(t)}*{txt(t2)})"
                eff.append((t, sign)); eff.append((t2, sign))
                terms[j + 1] = None
                continue
            if t is None:
                continue
            text += f"{op}{txt(t)}"
            eff.append((t, sign))
        eff_terms = [(p, s, n * sg, d) for (p, s, n, d), sg in eff]
        f = U.factor(eff_terms) * numf
        dv = U.dims(eff_terms)
        evals += 1
        distinct.add(text)
        try:
            q = Quantity(1.0, text)
            bu = BaseUnits(text)
        except Exception as e:
            bad("parse/accepts-grammar", f"well-formed expression rejected: {type(e).__name__}: {e}", text=text)
            continue
        got = q.magnitude.value * q.baseunits.magnitude
        if not np.isclose(got, f, rtol=1e-9, atol=0):
            bad("meaning/factor", "conversion factor differs from the product of the table entries", text=text, got=got, want=f)
        gd = tuple(PF(getattr(bu.dimensions, n).num, getattr(bu.dimensions, n).den) for n in ['m', 'g', 's', 'K', 'C', 'cd', 'mol', 'rad'])
        if gd != dv:
            bad("meaning/dimensions", "dimension vector differs", text=text, got=str(gd), want=str(dv))
        if bu.expression:
            bu2 = BaseUnits(bu.expression)
            if not (bu2 == bu) or bu2.expression != bu.expression or not np.isclose(bu2.magnitude, bu.magnitude, rtol=1e-12):
                bad("render/parse-round-trip", "parsing the rendered text gives other units", text=text, rendered=bu.expression)
        if len(samples) < 4:
            samples.append(text)
    # corruption: insert a foreign character in front of / inside a valid atom
    alphabet = "qxyw!?@#$%^&~"
    for i in range(150 if tier == "quick" else 1500):
        t = term()
        base = txt(t)
        pos = rng.randint(0, len(base))
        ch = rng.choice(alphabet)
        text = base[:pos] + ch + base[pos:]
        evals += 1
        distinct.add("corrupt:" + text)
        try:
            bu = BaseUnits(text)
        except Exception:
            continue
        # accepted: must still be spelled from table entries exactly
        ok = False
        for s in U.UNITS:
            for p in [""] + list(U.PREFIX):
                if U.admits(s, p) and text.startswith(p + s):
                    rest = text[len(p + s):]
                    if rest == "" or all(c in "0123456789:+-" for c in rest):
                        ok = True
        if not ok:
            bad("reject/foreign-characters", "a string with a foreign character was accepted", text=text, parsed=str(bu.baseunits))
    return dict(scope=f"{N} random expressions (1-4 terms, all table symbols, admitted prefixes, 9 exponent shapes, * / ( ), 9 numeric factor spellings), {150 if tier == 'quick' else 1500} single-character corruptions",
                evaluations=evals, distinct_nontrivial=len(distinct),
                rule="distinct = expression text; factor (rel 1e-9) and dimension vector (exact rationals) of the real parse against the table rows combined multiplicatively",
                samples=samples, violations=viol)
