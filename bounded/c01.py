"""C01 / C02 bounded stand-ins (labelled bounded) on the real ExpressionSolver with concrete numbers:
reference evaluation of generated token sequences (0-2 blanks), ill-formed strings must raise, histories of
solves on one instance against fresh instances, custom atom / operator subset / step order."""
import math
import random


def evaluate(ast, env):
    k = ast[0]
    if k == "num":
        return env[ast[1]]
    if k in ("par", "pos"):
        return evaluate(ast[1], env)
    if k == "neg":
        return -evaluate(ast[1], env)
    if k == "not":
        return not bool(evaluate(ast[1], env))
    if k == "fn":
        x = evaluate(ast[2], env)
        f = ast[1]
        if f in ("sin", "cos", "tan", "sqrt", "exp", "log10"):
            return getattr(math, f)(x)
        if f == "log":
            return math.log(x)
        y = evaluate(ast[3], env)
        return x ** y if f == "pow" else math.log(x) / math.log(y)
    a, b = evaluate(ast[2], env), evaluate(ast[3], env)
    o = ast[1]
    return {"+": lambda: a + b, "-": lambda: a - b, "*": lambda: a * b, "/": lambda: a / b, "**": lambda: a ** b, "==": lambda: a == b,
            "!=": lambda: a != b, "<": lambda: a < b, ">": lambda: a > b, "<=": lambda: a <= b, ">=": lambda: a >= b,
            "&&": lambda: a and b, "||": lambda: a or b}[o]()


def _same(x, y):
    if isinstance(x, bool) or isinstance(y, bool):
        return bool(x) == bool(y) and (isinstance(x, bool) == isinstance(y, bool) or float(x) == float(y))
    if isinstance(x, complex) or isinstance(y, complex):
        return False
    return math.isclose(float(x), float(y), rel_tol=1e-9, abs_tol=1e-12) or (math.isnan(float(x)) and math.isnan(float(y)))


def run(tier="quick", seed=0, contracts=None, prop="C01"):
    from scinumtools.solver import ExpressionSolver, AtomBase, OperatorAdd, OperatorMul, OperatorPar, OperatorSub, OperatorPow, Otype
    from contracts import solver_ref as R
    rng = random.Random(seed)
    viol, evals, distinct, samples = [], 0, set(), []

    def bad(ob, what, **kw):
        if len(viol) < 6:
            viol.append(dict(obligation=f"{prop}/bounded/" + ob, what=what, **kw))
    names = ["a", "b", "d", "f"]
    seqs = R.gen_token_sequences(names, tier, seed=seed + 1)

    def texts_of(toks, env):
        out = []
        for blanks in (0, 1, 2):
            if blanks == 0 and not R.safe_adjacent(toks):
                continue
            t = R.render(toks, rng if blanks else None, blanks)
            for n, v in env.items():
                t = __import__("re").sub(rf"\b{n}\b", repr(v), t)
            out.append(t)
        return out
    if prop == "C01":
        for toks, ast in seqs:
            env = {n: rng.choice([0.5, 1.0, 2.0, 3.0, 1.5, 4.0, 0.25]) for n in names}
            try:
                want = evaluate(ast, env)
            except (ZeroDivisionError, ValueError, OverflowError, TypeError):
                continue
            if isinstance(want, complex):
                continue
            for text in texts_of(toks, env):
                evals += 1
                distinct.add(text)
                try:
                    got = ExpressionSolver(AtomBase).solve(text)
                    got = got.value if hasattr(got, "value") else got
                except Exception as e:
                    bad("well-formed/accepted", f"well-formed expression rejected: {type(e).__name__}: {e}", text=text, want=repr(want))
                    continue
                if not _same(got, want):
                    bad("well-formed/value", "value differs from the documented evaluation order", text=text, got=repr(got), want=repr(want))
            if len(samples) < 3:
                samples.append(texts_of(toks, env)[-1])
        for toks in R.ill_formed(names) + [["==" ], ["!="]]:
            text = R.render(toks, None, 1)
            for n in names:
                text = __import__("re").sub(rf"\b{n}\b", "2.0", text)
            evals += 1
            distinct.add("ill:" + text)
            try:
                r = ExpressionSolver(AtomBase).solve(text)
                bad("ill-formed/" + text.strip(), "ill-formed string produced a value instead of an error", text=text, got=repr(r))
            except Exception:
                pass
        # number literal forms and blanks inside function calls
        for text, want in [("1.5e3 * 2", 3000.0), (" 2 ", 2.0), ("pow( 2 , 3 )", 8.0), ("logb(8 ,2)", 3.0), ("( ( 2 ) )", 2.0), ("2**3**2", 64.0), ("-2**2", 4.0),
                           ("2 - - 2", 4.0), ("1 < 2 == 1", True), ("!0 && 1", 1.0), ("!(1 > 2) || 0", True), ("5 - -2**2", 1.0), ("10/2/5", 1.0), ("2*3**2", 18.0)]:
            evals += 1
            distinct.add(text)
            try:
                got = ExpressionSolver(AtomBase).solve(text).value
                if not _same(got, want):
                    bad("well-formed/value", "value differs", text=text, got=repr(got), want=repr(want))
            except Exception as e:
                bad("well-formed/accepted", f"rejected: {type(e).__name__}: {e}", text=text)
    else:
        # C02: histories on one instance vs fresh instances, default and custom configurations
        class Atom(AtomBase):
            def __init__(self, value):
                if isinstance(value, str) and value.strip() == "boom":
                    raise ValueError("boom")
                super().__init__(value)
        configs = {
            "default": lambda: ExpressionSolver(AtomBase),
            "custom-atom": lambda: ExpressionSolver(Atom),
            "operator-subset": lambda: ExpressionSolver(AtomBase, {'par': OperatorPar, 'mul': OperatorMul, 'add': OperatorAdd, 'sub': OperatorSub}),
            "custom-steps": lambda: ExpressionSolver(AtomBase, {'par': OperatorPar, 'mul': OperatorMul, 'add': OperatorAdd, 'pow': OperatorPow},
                                                     [dict(operators=['par'], otype=Otype.ARGS), dict(operators=['add'], otype=Otype.BINARY),
                                                      dict(operators=['mul'], otype=Otype.BINARY), dict(operators=['pow'], otype=Otype.BINARY)]),
        }
        pool = ["1+2", "2*3", "(1+2)*3", "2*(3+4)*(1+1)", "1+abc", "(1+abc)", "2*(3+x)", "(2", "2)", "3*", "*3", "1+boom", "(boom)*2", "(2)*3", "((1+1))", "2**2",
                "1+", "(1+2", "4*(5+(6*x))", "2 3", "", "7"]
        n = 300 if tier == "quick" else 4000
        for cname, mk in configs.items():
            for _ in range(n // len(configs)):
                hist = [rng.choice(pool) for _ in range(rng.randint(2, 5))]
                es = mk()
                outcomes = []
                for e in hist:
                    try:
                        r = es.solve(e)
                        outcomes.append(("ok", getattr(r, "value", r)))
                    except Exception as ex:
                        outcomes.append(("err", type(ex).__name__))
                fresh = []
                for e in hist:
                    try:
                        r = mk().solve(e)
                        fresh.append(("ok", getattr(r, "value", r)))
                    except Exception as ex:
                        fresh.append(("err", type(ex).__name__))
                evals += 1
                distinct.add((cname, tuple(hist)))
                if outcomes != fresh:
                    bad("history/same-as-fresh-instance", "an outcome depends on what the instance solved before", config=cname, history=hist, got=repr(outcomes), fresh=repr(fresh))
                if len(samples) < 3:
                    samples.append(dict(config=cname, history=hist))
    return dict(scope=(f"{len(seqs)} grammar-generated token sequences x blank variants with concrete numbers, ill-formed strings, literal forms" if prop == "C01"
                       else "random histories of 2-5 solves (valid, unknown atom, unbalanced, missing operand, raising atom) on one instance, 4 configurations"),
                evaluations=evals, distinct_nontrivial=len(distinct),
                rule="distinct = expression text / (configuration, history); compared with the reference evaluator / with fresh instances",
                samples=samples, violations=viol)
