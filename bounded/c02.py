from bounded import c01


def run(tier="quick", seed=0, contracts=None):
    return c01.run(tier=tier, seed=seed, contracts=contracts, prop="C02")
