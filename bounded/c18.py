"""C18 bounded stand-in (labelled bounded): grammar-generated numerical and logical DIP expressions over
random typed environments (incl. custom units) against exact evaluation in base units; templates against
Python's format()."""
import math
import random

from bounded.dip_common import parse_text, observe, same_value

LEN = {"m": 1.0, "cm": 0.01, "mm": 0.001, "km": 1000.0, "dm": 0.1}


def _wrapped(t):
    """the whole text is one parenthesised group"""
    if not (t.startswith("(") and t.endswith(")")):
        return False
    d = 0
    for i, ch in enumerate(t):
        d += {"(": 1, ")": -1}.get(ch, 0)
        if d == 0 and i < len(t) - 1:
            return False
    return True


def run(tier="quick", seed=0, contracts=None):
    from scinumtools.dip import DIP
    from scinumtools.dip.solvers import NumericalSolver, LogicalSolver, TemplateSolver
    rng = random.Random(seed)
    viol, evals, distinct, samples = [], 0, set(), []

    def bad(ob, what, **kw):
        if len(viol) < 8:
            viol.append(dict(obligation="C18/bounded/" + ob, what=what, **kw))
    # environment with references
    nodes = {"a": (10.0, "m"), "b": (300.0, "cm"), "c": (2.5, "km"), "k": (4.0, None), "z": (0.5, None)}
    text = "\n".join(f"{n} float = {v}" + (f" {u}" if u else "") for n, (v, u) in nodes.items())
    env = parse_text(text)

    def P(t):
        """operand of * or /: parenthesised unless it is a single term"""
        return t if (" " not in t.replace(" m", "").replace(" cm", "").replace(" mm", "").replace(" km", "").replace(" dm", "") or t.startswith("(") and t.endswith(")") and t.count("(") == 1) else f"({t})"

    def length(depth=0):
        """(text, value in metres)"""
        r = rng.random()
        if r < 0.35 or depth > 2:
            v, u = rng.choice([1, 2, 5, 10, 0.5, 250, 7]), rng.choice(list(LEN))
            return f"{v} {u}", v * LEN[u]
        if r < 0.5:
            n = rng.choice(["a", "b", "c"])
            return f"{{?{n}}}", nodes[n][0] * LEN[nodes[n][1]]
        if r < 0.65:
            t, v = length(depth + 1)
            nt, nv = number(depth + 1)
            return (f"{P(t)} * {P(nt)}", v * nv) if rng.random() < 0.5 else (f"{P(nt)} * {P(t)}", nv * v)
        if r < 0.75:
            t, v = length(depth + 1)
            nt, nv = number(depth + 1)
            return f"{P(t)} / {P(nt)}", v / nv
        if r < 0.9:
            t1, v1 = length(depth + 1)
            t2, v2 = length(depth + 1)
            op = rng.choice(["+", "-"])
            return f"({t1} {op} {t2})", v1 + v2 if op == "+" else v1 - v2
        t1, v1 = length(depth + 1)
        t2, v2 = length(depth + 1)
        t3, v3 = length(depth + 1)
        return f"{P(t1)} * {P(t2)} / {P(t3)}", v1 * v2 / v3

    def number(depth=0):
        r = rng.random()
        if r < 0.5 or depth > 2:
            v = rng.choice([2, 3, 4, 0.5, 10, -2, 1.5])
            return str(v), float(v)
        if r < 0.6:
            n = rng.choice(["k", "z"])
            return f"{{?{n}}}", nodes[n][0]
        if r < 0.8:
            t1, v1 = length(depth + 1)
            t2, v2 = length(depth + 1)
            return f"{P(t1)} / {P(t2)}", v1 / v2
        t1, v1 = number(depth + 1)
        t2, v2 = number(depth + 1)
        op = rng.choice(["+", "-", "*"])
        return f"({t1} {op} {t2})", {"+": v1 + v2, "-": v1 - v2, "*": v1 * v2}[op]

    def chain():
        k = rng.randint(1, 4)
        t, v = length()
        for _ in range(k):
            t2, v2 = length()
            op = rng.choice(["+", "-"])
            t, v = f"{t} {op} {t2}", (v + v2 if op == "+" else v - v2)
        return t, v
    n = 200 if tier == "quick" else 3000
    for _ in range(n):
        try:
            t, v = chain()
        except ZeroDivisionError:
            continue
        if not math.isfinite(v):
            continue
        out = rng.choice(list(LEN))
        evals += 1
        distinct.add(t)
        try:
            with NumericalSolver(env) as s:
                got = s.solve(t, out)
        except ZeroDivisionError:
            continue
        except Exception as e:
            bad("numerical/accepted", f"{type(e).__name__}: {e}", expr=t)
            continue
        if not same_value(float(got), v / LEN[out], 1e-9) and abs(float(got) - v / LEN[out]) > 1e-9 * max(1.0, abs(v / LEN[out])):
            bad("numerical/value", "result differs from exact evaluation with * / before + -, left to right", expr=t, unit=out, got=float(got), want=v / LEN[out])
        if len(samples) < 3:
            samples.append(t)
    for t in ["1 m + 2 s", "{?a} + 3", "3 kg - 1 m", "{?a} + {?k}"]:
        evals += 1
        try:
            with NumericalSolver(env) as s:
                s.solve(t)
            bad("numerical/different-dimensions", "operands of different dimension were added", expr=t)
        except Exception:
            pass
    for t, unit, want in [("exp(10 m / 5 cm)", None, math.exp(200)), ("log(10 m / 5 cm)", None, math.log(200)), ("log10(10 m / 5 cm)", None, math.log10(200)),
                          ("sqrt(4 m2)", "m", 2.0), ("pow(10 m, 2)", "m2", 100.0), ("sin(10 m / 5 cm)", None, math.sin(200)), ("2 * sqrt(16 m2) + 1 m", "m", 9.0),
                          ("5 - -2", None, 7.0), ("-8 / 2 * -4", None, 16.0), ("2 * -3 m + 10 m", "m", 4.0)]:
        evals += 1
        distinct.add(t)
        try:
            with NumericalSolver(env) as s:
                got = s.solve(t, unit) if unit else s.solve(t).value()
            if not same_value(float(got), want, 1e-9):
                bad("numerical/functions", "documented function / sign handling differs", expr=t, got=float(got), want=want)
        except Exception as e:
            bad("numerical/accepted", f"{type(e).__name__}: {e}", expr=t)
    # custom units defined in the same text are usable in expressions
    for t, want in [("$unit length = 2 cm\nx float = ('3 [length] + 1 cm') cm", ("x", 7.0)), ("$unit length = 2 cm\ny float = 4 [length]\nx float = ('{?y} * 2') cm", ("x", 16.0)),
                    ("$unit mass = 3 g\nx float = ('2 [mass] / 1 g')", ("x", 6.0)), ("$unit length = 2 cm\nx bool = ('3 [length] == 6 cm')", ("x", True)),
                    ("$unit length = 2 cm\ny float = 3 [length]\n@case ('{?y} > 5 cm')\n  x int = 1\n@else\n  x int = 2\n@end", ("x", 1))]:
        evals += 1
        distinct.add(t)
        try:
            got = dict(observe(parse_text(t)))
            if not same_value(got[want[0]]["value"], want[1], 1e-9):
                bad("custom-units/value", "expression with a custom unit gives another value", text=t, got=got[want[0]]["value"], want=want[1])
        except Exception as e:
            bad("custom-units/usable", f"custom units defined in the same text are not usable in an expression: {type(e).__name__}: {e}", text=t)
    # logical expressions
    lenv = parse_text("dogs int = 23\ncats int = 44\nw float = 57.3 kg\nh float = 177 cm\nyes bool = true\nno bool = false\ntiny float = 1e-7\nname str = Tina")
    atoms = [("{?dogs} == 23", True), ("{?dogs} != 23", False), ("{?dogs} < {?cats}", True), ("{?cats} <= 44", True), ("{?w} > 60 kg", False), ("{?w} == 57300 g", True),
             ("{?h} >= 1.77 m", True), ("{?h} < 1 m", False), ("{?yes}", True), ("{?no}", False), ("!{?dogs}", True), ("!{?elefant}", False), ("true", True), ("false", False),
             ("{?w} == 57.30001 kg", True), ("{?w} == 57.3003 kg", False), ("{?w} == 57.30003 kg", True), ("{?h} == 177.0009 cm", False), ("{?tiny} == 5e-7", False), ("{?tiny} == 1.00000001e-7", True),
             ("{?name} == Tina", True), ("{?name} == Tom", False), ("{?h} != 1770 mm", False)]
    for t, want in atoms:
        evals += 1
        distinct.add(t)
        try:
            with LogicalSolver(lenv) as s:
                got = s.solve(t)
            if bool(got.value) != want:
                bad("logical/comparison", "unit-aware comparison / definedness / 1e-6 relative equality differs", expr=t, got=bool(got.value), want=want)
        except Exception as e:
            bad("logical/accepted", f"{type(e).__name__}: {e}", expr=t)

    def lexpr(depth=0):
        r = rng.random()
        if r < 0.4 or depth > 2:
            t, v = rng.choice(atoms)
            if rng.random() < 0.25:
                return (f"~{t}", not v) if t.startswith("{") or t in ("true", "false") or t.startswith("!") and "==" not in t else (f"~({t})", not v)
            return t, v
        if r < 0.55:
            t, v = lexpr(depth + 1)
            return f"({t})", v
        # or of ands (documented priorities: comparison > ~ > && > ||)
        terms = []
        for _ in range(rng.randint(1, 3)):
            fs = [lexpr(depth + 1) for _ in range(rng.randint(1, 3))]
            fs = [(f"({t})", v) if "||" in t and not _wrapped(t) else (t, v) for t, v in fs]
            terms.append((" && ".join(t for t, _ in fs), all(v for _, v in fs)))
        return " || ".join(t for t, _ in terms), any(v for _, v in terms)
    for _ in range(n):
        t, want = lexpr()
        evals += 1
        distinct.add(t)
        try:
            with LogicalSolver(lenv) as s:
                got = s.solve(t)
            if bool(got.value) != want:
                bad("logical/priorities", "result differs from evaluation with comparison > ~ > && > ||", expr=t, got=bool(got.value), want=want)
        except Exception as e:
            bad("logical/accepted", f"{type(e).__name__}: {e}", expr=t)
    # templates
    tenv = parse_text('id int = 345\nname str = "Will Smith"\nbody\n  weight float = 62.3 kg\nmarried bool = true\nwidths float[2,3] = [[23.4,235.4,34],[1e10,2e23,5e20]]\ncounts int[4] = [1,2,3,4]')
    for t, want in [("{{?id}:05d}", format(345, "05d")), ("{{?id}}", "345"), ("{{?name}}", "Will Smith"), ("{{?name}[5:]}", "Smith"), ("{{?name}[:4]}", "Will"),
                    ("{{?body.weight}:.3e}", format(62.3, ".3e")), ("{{?body.weight}:.2f} kg", format(62.3, ".2f") + " kg"), ("{{?married}}", "True"),
                    ("{{?widths}[1,1]:.2e}", format(2e23, ".2e")), ("{{?counts}[2]:d}", "3"), ("{{?counts}[3]:03d}", "004"), ("a {not a ref} b", "a {not a ref} b"),
                    ("x={{?id}:d}, y={{?body.weight}:.1f}", "x=345, y=62.3")]:
        evals += 1
        distinct.add(t)
        try:
            with TemplateSolver(tenv) as s:
                got = s.solve(t)
            if got != want:
                bad("template/format", "template substitution differs from format()", template=t, got=got, want=want)
        except Exception as e:
            bad("template/accepted", f"{type(e).__name__}: {e}", template=t)
    return dict(scope=f"{n} random numerical expressions (numbers with 5 length units, 5 references, blank-separated + - * /, parentheses, nesting <= 3), 10 function/sign cases, 5 custom-unit texts, {len(atoms)} comparison atoms, {n} random logical expressions, 13 templates",
                evaluations=evals, distinct_nontrivial=len(distinct),
                rule="distinct = expression text; expected values from evaluation of the generator's own tree in base units / Python booleans / format()",
                samples=samples, violations=viol)
