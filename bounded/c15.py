"""C15 bounded stand-in (labelled bounded): generated @case/@else/@end programs against a reference reading
of the block structure (a line takes effect iff every enclosing clause is the selected one)."""
import itertools
import random

from bounded.dip_common import parse_text, observe


class Gen:
    def __init__(self, rng, maxdepth):
        self.rng = rng
        self.maxdepth = maxdepth
        self.counter = 0
        self.lines = []
        self.expected = []   # names that take effect, in order

    def node(self, indent, live):
        self.counter += 1
        name = f"n{self.counter}"
        self.lines.append(" " * indent + f"{name} int = {self.counter}")
        if live:
            self.expected.append(name)

    def block(self, indent, live, depth):
        rng = self.rng
        nclauses = rng.randint(1, 3)
        truths = [rng.choice([True, False]) for _ in range(nclauses)]
        has_else = rng.random() < 0.5
        selected = next((i for i, t in enumerate(truths) if t), nclauses if has_else else None)
        w = rng.choice([2, 3])
        for i in range(nclauses + (1 if has_else else 0)):
            is_else = i == nclauses
            self.lines.append(" " * indent + ("@else" if is_else else f"@case {'true' if truths[i] else 'false'}"))
            self.body(indent + w, live and selected == i, depth + 1)
        style = rng.choice(["end", "indent"])
        if style == "end":
            self.lines.append(" " * indent + "@end")
            return "end"
        return "indent"

    def body(self, indent, live, depth, top=False):
        rng = self.rng
        n = rng.randint(1, 3)
        last = None
        for k in range(n):
            if depth < self.maxdepth and rng.random() < 0.4 and last != "indent":
                last = self.block(indent, live, depth)
            else:
                self.node(indent, live)
                last = "node"
        return last


def gen(rng, maxdepth):
    g = Gen(rng, maxdepth)
    # top level: items; a block closed by indentation must be followed by a node at an indent <= its keyword
    n = rng.randint(1, 4)
    last = None
    for _ in range(n):
        if rng.random() < 0.6 and last != "indent":
            last = g.block(0, True, 1)
        else:
            g.node(0, True)
            last = "node"
    if last == "indent":
        g.node(0, True)
    # inside bodies an indentation-closed block at the end of a clause is closed by whatever follows at a lower indent
    return "\n".join(g.lines), g.expected


def run(tier="quick", seed=0, contracts=None):
    rng = random.Random(seed)
    viol, evals, distinct, samples = [], 0, set(), []

    def bad(ob, what, **kw):
        if len(viol) < 8:
            viol.append(dict(obligation="C15/bounded/" + ob, what=what, **kw))
    n = 400 if tier == "quick" else 6000
    for _ in range(n):
        text, want = gen(rng, rng.choice([1, 2, 3]))
        evals += 1
        distinct.add(text)
        try:
            got = [k for k, _ in observe(parse_text(text))]
        except Exception as e:
            bad("accepted", f"well-formed block structure rejected: {type(e).__name__}: {e}", text=text)
            continue
        if got != want:
            extra = [x for x in got if x not in want]
            missing = [x for x in want if x not in got]
            bad("effect-iff-all-enclosing-clauses-selected" + ("/takes-effect-in-unselected-clause" if extra else "/dropped-although-selected"),
                "the set of nodes that took effect differs from the reference reading", text=text, got=got, want=want, extra=extra, missing=missing)
        if len(samples) < 3:
            samples.append(text)
    for t in ["@end", "@else\n  a int = 1", "@case true\n  @end", "a int = 1\n@else\n  b int = 2\n@end", "@case true\n  a int = 1\n@end\n@end", "@case true\n  a int = 1\n@end\n@else\n  b int = 2"]:
        evals += 1
        distinct.add(t)
        try:
            env = parse_text(t)
            bad("misplaced/" + t.replace("\n", "|"), "misplaced @else/@end did not make parsing fail", text=t, got=str(observe(env)))
        except Exception:
            pass
    return dict(scope=f"{n} generated programs (nesting <= 3, 1-3 @case clauses per block, optional @else, all truth assignments by sampling, explicit @end or indentation closing, nodes before/inside/between/after), 6 misplaced-keyword inputs",
                evaluations=evals, distinct_nontrivial=len(distinct),
                rule="distinct = program text; expected effective nodes from the generator's block structure",
                samples=samples, violations=viol)
