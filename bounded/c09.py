"""C09 bounded stand-in (labelled bounded): nested / repeated scopes with failures injected at every
registration index and in the body, and DIP texts that define units (some failing mid-way); the global
tables are compared before and after."""
import copy
import itertools
import random


def gstate():
    from scinumtools.units.settings import UNIT_STANDARD, UNIT_PREFIXES, UNIT_TYPES
    return ([(k, (r.magnitude, tuple(map(str, r.dimensions)), r.definition, r.name, str(r.prefixes))) for k, r in UNIT_STANDARD._data.items()],
            list(UNIT_STANDARD._keys), [(k, r.magnitude) for k, r in UNIT_PREFIXES._data.items()], list(UNIT_PREFIXES._keys), list(UNIT_TYPES))


def run(tier="quick", seed=0, contracts=None):
    from scinumtools.units import UnitEnvironment, Quantity
    from scinumtools.units.unit_types import UnitType, TemperatureUnitType
    from scinumtools.dip import DIP
    rng = random.Random(seed)
    viol, evals, distinct, samples = [], 0, set(), []
    g0 = gstate()

    def bad(ob, what, **kw):
        if len(viol) < 6:
            viol.append(dict(obligation="C09/bounded/" + ob, what=what, **kw))

    def restore():
        # keep later cases meaningful after a detected leak
        from scinumtools.units.settings import UNIT_STANDARD, UNIT_TYPES
        for k in list(UNIT_STANDARD._keys):
            if k not in g0[1]:
                try:
                    del UNIT_STANDARD[k]
                except Exception:   # a key without a row behind it: the table itself was left inconsistent
                    if k in UNIT_STANDARD._keys:
                        UNIT_STANDARD._keys.remove(k)
                    UNIT_STANDARD._data.pop(k, None)
        UNIT_TYPES[:] = g0[4]

    class MyType(UnitType):
        pass

    def mkunits(spec):
        out = {}
        for s in spec:
            if s == "dup":
                out["m"] = dict(magnitude=2.0, dimensions=[1, 0, 0, 0, 0, 0, 0, 0])
            elif s == "clash":
                out["ol"] = dict(magnitude=2.0, dimensions=[1, 0, 0, 0, 0, 0, 0, 0], prefixes=["m"])
            elif s == "malformed":
                out[f"bad{len(out)}"] = dict(dimensions=[1, 0, 0, 0, 0, 0, 0, 0])
            elif s == "type":
                out[f"t{len(out)}"] = dict(magnitude=3.0, dimensions=[0, 0, 0, 1, 0, 0, 0, 0], definition=MyType)
            elif s == "builtin-type":
                out[f"b{len(out)}"] = dict(magnitude=3.0, dimensions=[0, 0, 0, 1, 0, 0, 0, 0], definition=TemperatureUnitType)
            elif s == "quantity":
                out[f"q{len(out)}"] = Quantity(2.0, "km")
            else:
                out[f"u{len(out)}"] = dict(magnitude=1.5, dimensions=[1, 0, 0, 0, 0, 0, 0, 0], prefixes=["k", "m"])
        return out
    kinds = ["ok", "type", "builtin-type", "quantity", "dup", "clash", "malformed"]
    specs = [s for n in (1, 2, 3) for s in itertools.product(kinds, repeat=n)]
    if tier == "quick":
        rng.shuffle(specs)
        specs = specs[:150]
    for spec in specs:
        for body_fails in (False, True):
            for nested in (None, ("ok",), ("type",), ("dup",)):
                evals += 1
                distinct.add((spec, body_fails, nested))
                try:
                    with UnitEnvironment(mkunits(spec)):
                        if "dup" not in spec and "clash" not in spec and "malformed" not in spec:
                            Quantity(1.0, list(mkunits(spec).keys())[0])      # usable inside the scope
                        if nested:
                            inner = {("v" + k if k != "m" else k): v for k, v in mkunits(nested).items()}
                            try:
                                with UnitEnvironment(inner):
                                    pass
                            except Exception:
                                pass
                        if body_fails:
                            raise RuntimeError("body")
                except Exception:
                    pass
                g1 = gstate()
                if g1 != g0:
                    bad("scope/tables-restored", "global tables differ after the scope ended", units=list(spec), body_fails=body_fails, nested=nested,
                        leaked=[k for k in g1[1] if k not in g0[1]], types=len(g1[4]) - len(g0[4]))
                    restore()
        if len(samples) < 3:
            samples.append(dict(units=list(spec)))
    texts = ["$unit length = 1 cm\n$unit mass = 2 g\na float = 3 [length]",
             "$unit length = 1 cm\n$unit length = 2 m",
             "$unit length = 1 cm\na float = 3 [nolength]",
             "$unit length = 1 cm\na float = 3 [length]\nb float = {?a} + 2",
             "$unit length = 1 cm\na int = 2 [length]\nb float = 1 [length]\n  !options [1,2] [length]",
             "$unit length = 1 cm\n@case (\"{?a} == 1 [length]\")\n  b int = 1\n@end\n",
             "a float = 1 [length]"]
    for t in texts:
        evals += 1
        distinct.add(("dip", t))
        try:
            with DIP() as p:
                p.add_string(t)
                p.parse()
        except Exception:
            pass
        if gstate() != g0:
            bad("dip/tables-restored", "global tables differ after parsing DIP text", text=t, leaked=[k for k in gstate()[1] if k not in g0[1]])
            restore()
    return dict(scope=f"{len(specs)} unit-definition sequences (<=3 units; kinds ok/type/builtin-type/quantity/dup/clash/malformed) x body failure x nested scope; {len(texts)} DIP texts",
                evaluations=evals, distinct_nontrivial=len(distinct),
                rule="distinct = (definition sequence, body failure, nested scope) or DIP text; tables (rows, key order, prefix rows, type list) compared before/after",
                samples=samples, violations=viol)
