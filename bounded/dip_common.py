"""Shared helpers for the DIP bounded stand-ins: run the real parser, observe the environment."""
import numpy as np


def parse_text(text, base_env=None, files=None):
    from scinumtools.dip import DIP
    if base_env is not None:
        p = DIP(base_env)
    else:
        p = DIP()
    p.add_string(text)
    return p.parse()


def norm_value(v):
    if isinstance(v, np.ndarray):
        v = v.tolist()
    if isinstance(v, (np.floating,)):
        return float(v)
    if isinstance(v, (np.integer,)):
        return int(v)
    if isinstance(v, np.bool_):
        return bool(v)
    if isinstance(v, list):
        return [norm_value(x) for x in v]
    return v


def observe(env):
    """name -> (keyword, precision, unsigned, value, unit, shape) in node order"""
    out = []
    for node in env.nodes.nodes if hasattr(env.nodes, "nodes") else env.nodes:
        val = node.value
        value = None if val is None else norm_value(val.value)
        unit = getattr(val, "unit", None) if val is not None else None
        out.append((node.name, dict(keyword=node.keyword, precision=getattr(node, "precision", None), unsigned=getattr(node, "unsigned", None),
                                    value=value, unit=unit)))
    return out


def same_value(a, b, tol=1e-12):
    if isinstance(a, list) or isinstance(b, list):
        if not (isinstance(a, list) and isinstance(b, list)) or len(a) != len(b):
            return False
        return all(same_value(x, y, tol) for x, y in zip(a, b))
    if isinstance(a, bool) or isinstance(b, bool) or isinstance(a, str) or isinstance(b, str) or a is None or b is None:
        return type(a) is type(b) and a == b
    if isinstance(a, int) and isinstance(b, int):
        return a == b          # integers are compared exactly (no detour through floats)
    try:
        return abs(float(a) - float(b)) <= tol * max(abs(float(a)), abs(float(b)), 1e-300)
    except (TypeError, ValueError):
        return a == b
