"""Bounded stand-ins (labelled bounded) for C10 / C11 / C12 on the real materials classes."""
import random

import numpy as np


def _close(a, b, rel=1e-9):
    return abs(a - b) <= rel * max(abs(a), abs(b), 1e-12)


def run_c10(tier="quick", seed=0, contracts=None):
    from scinumtools.materials import Substance, Element
    from contracts import materials_ref as M
    rng = random.Random(seed)
    viol, evals, distinct, samples = [], 0, set(), []

    def bad(ob, what, **kw):
        if len(viol) < 6:
            viol.append(dict(obligation="C10/bounded/" + ob, what=what, **kw))
    forms = M.formulas("thorough" if tier == "thorough" else "quick", seed=seed + 11)
    if tier == "quick":
        forms = forms[:45]
    order = list(forms)
    rng.shuffle(order)
    for f in order:
        text = M.render(f)
        want = M.expand(f)
        for nat in (True, False):
            evals += 1
            distinct.add((text, nat))
            try:
                s = Substance(text, natural=nat)
            except Exception as e:
                bad("formula/accepted", f"documented notation rejected: {type(e).__name__}: {e}", formula=text)
                continue
            got = {k: c.proportion for k, c in s.components.items()}
            if got.keys() != want.keys() or any(not _close(got[k], want[k]) for k in want):
                bad("formula/counts", "species counts differ from the expanded formula", formula=text, got=got, want=want)
                continue
            tot = [sum(n * M.species(k, nat)[i] for k, n in want.items()) for i in range(4)]
            d = s.data_composite(quantity=False)["sum"].data()
            for name, w in zip(("mass", "Z", "N", "e"), tot):
                if not _close(d[name], w, 1e-8):
                    bad("formula/totals", f"total {name} differs from the count-weighted sum of the isotope-table data", formula=text, natural=nat, got=d[name], want=w)
            # per-species data as stored in the components (exposes state carried between species)
            for k, comp in s.components.items():
                sp = M.species(k, nat)
                if not (_close(comp.mass.value("Da"), sp[0], 1e-9) and _close(comp.Z, sp[1]) and _close(comp.N, sp[2]) and _close(comp.e, sp[3])):
                    bad("species/data", "per-species data differ from the isotope table", formula=text, species=k, natural=nat,
                        got=(comp.mass.value("Da"), comp.Z, comp.N, comp.e), want=sp)
        if len(samples) < 4:
            samples.append(text)
    # adding and multiplying
    for _ in range(30 if tier == "quick" else 300):
        a, b = M.render(rng.choice(forms)), M.render(rng.choice(forms))
        k = rng.choice([2, 3, 0.5, 7])
        evals += 1
        distinct.add(("ops", a, b, k))
        sa, sb = Substance(a), Substance(b)
        ca, cb = {x: c.proportion for x, c in sa.components.items()}, {x: c.proportion for x, c in sb.components.items()}
        sm = {x: c.proportion for x, c in (sa + sb).components.items()}
        mu = {x: c.proportion for x, c in (sa * k).components.items()}
        if any(not _close(sm.get(x, 0), ca.get(x, 0) + cb.get(x, 0)) for x in set(ca) | set(cb) | set(sm)):
            bad("add/counts", "a+b does not add the counts", a=a, b=b, got=sm)
        if any(not _close(mu.get(x, 0), ca[x] * k) for x in ca) or set(mu) != set(ca):
            bad("mul/counts", "a*k does not scale the counts", a=a, k=k, got=mu)
        if {x: c.proportion for x, c in sa.components.items()} != ca:
            bad("ops/operand-unchanged", "an operand was changed", a=a)
    return dict(scope=f"{len(forms)} formulas (natural and most-abundant), {30 if tier == 'quick' else 300} sums/multiples",
                evaluations=evals, distinct_nontrivial=len(distinct),
                rule="distinct = (formula, mode); counts against the structural expander, totals and per-species data against the isotope table",
                samples=samples, violations=viol)


def run_c11(tier="quick", seed=0, contracts=None):
    from scinumtools.materials import Material, Substance, Norm
    from contracts import materials_ref as M
    rng = random.Random(seed)
    viol, evals, distinct, samples = [], 0, set(), []

    def bad(ob, what, **kw):
        if len(viol) < 6:
            viol.append(dict(obligation="C11/bounded/" + ob, what=what, **kw))
    pool = ["H2O", "NaCl", "CO2", "N2", "O2", "Ar", "Fe2O3", "CH4", "SiO2", "C6H12O6", "D2O", "He"]

    def fr(m):
        t = m.data_composite(quantity=False)
        return {k: (t[k].data()["x"], t[k].data()["X"]) for k in m.components}, t["sum"].data()
    n = 60 if tier == "quick" else 600
    for i in range(n):
        subs = rng.sample(pool, rng.randint(1, 4))
        ps = [rng.uniform(0.05, 5) for _ in subs]
        nat = rng.random() < 0.7
        evals += 1
        distinct.add((tuple(subs), tuple(round(p, 6) for p in ps), nat))
        m = Material(dict(zip(subs, ps)), natural=nat)
        got, tot = fr(m)
        masses = [Substance(s, natural=nat).component_mass.value("Da") for s in subs]
        for s, p, ms in zip(subs, ps, masses):
            wx = 100 * p / sum(ps)
            wX = 100 * p * ms / sum(q * w for q, w in zip(ps, masses))
            if not (_close(got[s][0], wx, 1e-9) and _close(got[s][1], wX, 1e-9)):
                bad("number-mode/fractions", "x or X differs from n_i/sum and n_i m_i/sum", mixture=dict(zip(subs, ps)), got=got[s], want=(wx, wX))
        if not (_close(tot["x"], 100, 1e-9) and _close(tot["X"], 100, 1e-9)):
            bad("number-mode/sum", "fractions do not sum to 100 %", mixture=dict(zip(subs, ps)), got=tot)
        c = rng.choice([0.01, 3.0, 250.0])
        got2, _ = fr(Material({s: c * p for s, p in zip(subs, ps)}, natural=nat))
        if any(not (_close(got2[s][0], got[s][0], 1e-9) and _close(got2[s][1], got[s][1], 1e-9)) for s in subs):
            bad("scaling", "common scaling of the proportions changed the fractions", mixture=dict(zip(subs, ps)), scale=c)
        # the same material specified by the resulting mass fractions
        m2 = Material({s: got[s][1] for s in subs}, natural=nat, norm_type=Norm.MASS_FRACTION)
        got3, tot3 = fr(m2)
        if any(not (_close(got3[s][0], got[s][0], 1e-8) and _close(got3[s][1], got[s][1], 1e-8)) for s in subs) or not _close(tot3["x"], 100, 1e-9):
            bad("duality", "material given by the resulting mass fractions reports other x / X", mixture=dict(zip(subs, ps)), number_mode=got, mass_mode=got3)
        # built step by step: same fractions as built at once; adding to an existing component
        m4 = Material(natural=nat)
        for s, p in zip(subs, ps):
            m4.add(s, p / 2)
        for s, p in zip(subs, ps):
            m4.add(s, p / 2)
        got4, tot4 = fr(m4)
        if any(not (_close(got4[s][0], got[s][0], 1e-9) and _close(got4[s][1], got[s][1], 1e-9)) for s in subs) or not (_close(tot4["x"], 100, 1e-9) and _close(tot4["X"], 100, 1e-9)):
            bad("incremental", "material built with add() in two halves reports other fractions / sums", mixture=dict(zip(subs, ps)), got=got4, sums=tot4)
        if len(subs) > 1:
            m5 = Material(dict(zip(subs[:-1], ps[:-1])), natural=nat) + Material({subs[-1]: ps[-1], subs[0]: 0.0 + ps[0]}, natural=nat)
            got5, tot5 = fr(m5)
            if not (_close(tot5["x"], 100, 1e-9) and _close(tot5["X"], 100, 1e-9)):
                bad("sum-of-materials", "fractions of a + b do not sum to 100 %", got=tot5)
        if len(samples) < 3:
            samples.append(dict(zip(subs, ps)))
    return dict(scope=f"{n} random mixtures of 1-4 substances, natural/abundant, scaled copies, mass-fraction re-specification, incremental construction",
                evaluations=evals, distinct_nontrivial=len(distinct),
                rule="distinct = (substances, proportions, mode); x and X of the real Material against n_i/sum n and n_i m_i/sum n m",
                samples=samples, violations=viol)


def run_c12(tier="quick", seed=0, contracts=None):
    from scinumtools.materials import Material, Substance, Element
    from scinumtools.units import Quantity
    from contracts import materials_ref as M
    from contracts import unitdata as U
    rng = random.Random(seed)
    viol, evals, distinct, samples = [], 0, set(), []
    DA = U.UNITS["Da"]["factor"]

    def bad(ob, what, **kw):
        if len(viol) < 6:
            viol.append(dict(obligation="C12/bounded/" + ob, what=what, **kw))
    dens = [("g/cm3", 1.0), ("kg/m3", 1e-3), ("g/l", 1e-3)]
    nums = [("cm-3", 1.0), ("m-3", 1e-6), ("l-1", 1e-3)]
    vols = [("cm3", 1.0), ("l", 1e3), ("m3", 1e6)]
    objs = [("Substance", "H2O"), ("Substance", "Ca(OH)2"), ("Substance", {"H": 2, "O": 1}), ("Substance", {"C": 1, "O": 2}), ("Element", "Fe"),
            ("Material", {"H2O": 0.2, "NaCl": 0.8}), ("Material", "0.7 <N2> 0.3 <O2>")]
    n = 6 if tier == "quick" else 40
    for kind, spec in objs:
        for _ in range(n):
            rho = rng.uniform(0.01, 20)
            vol = rng.uniform(0.1, 50)
            (du, df), (nu, nf), (vu, vf) = rng.choice(dens), rng.choice(nums), rng.choice(vols)
            given = rng.choice(["rho", "n"])
            cls = dict(Substance=Substance, Element=Element, Material=Material)[kind]
            evals += 1
            distinct.add((kind, str(spec), given, du, nu, vu))
            arg = dict(spec) if isinstance(spec, dict) else spec
            try:
                if given == "rho":
                    o = cls(arg, mass_density=Quantity(rho / df, du), volume=Quantity(vol / vf, vu))
                else:
                    o = cls(arg, number_density=Quantity(rho / nf, nu), volume=Quantity(vol / vf, vu))
            except Exception as e:
                bad("construct", f"{type(e).__name__}: {e}", kind=kind, spec=str(spec), given=given)
                continue
            mf = o.composite_mass.value("g") if hasattr(o.composite_mass, "value") else None
            r, nd = o.mass_density.value("g/cm3"), o.number_density.value("cm-3")
            want_r, want_n = (rho, rho / mf) if given == "rho" else (rho * mf, rho)
            if not (_close(r, want_r, 1e-9) and _close(nd, want_n, 1e-9)):
                bad("densities/rho-is-n-times-M", "rho, n and the formula mass are inconsistent, or the given density was not kept", kind=kind, spec=str(spec), given=given,
                    units=(du, nu, vu), got=(r, nd), want=(want_r, want_n))
            if not _close(o.mass.value("g"), want_r * vol, 1e-9):
                bad("mass/rho-times-volume", "total mass is not rho times volume", kind=kind, spec=str(spec), got=o.mass.value("g"), want=want_r * vol)
            if kind != "Element":
                t = o.data_matter(quantity=False)
                rows = {k: t[k].data() for k in o.components}
                if not (_close(sum(v["rho"] for v in rows.values()), want_r, 1e-9) and _close(sum(v["M"] for v in rows.values()), want_r * vol, 1e-9)):
                    bad("components/add-up", "component densities / masses do not add up", kind=kind, spec=str(spec), got=rows)
                for k, c in o.components.items():
                    if not _close(rows[k]["n"], c.proportion * want_n, 1e-9):
                        bad("components/number-density", "component number density is not amount times n", kind=kind, spec=str(spec), component=k)
            if len(samples) < 3:
                samples.append(dict(kind=kind, spec=str(spec), given=given, units=(du, nu, vu)))
    return dict(scope=f"{len(objs)} objects (string and dict forms) x {n} random (density, volume, unit) draws, mass or number density given",
                evaluations=evals, distinct_nontrivial=len(distinct),
                rule="distinct = (object, what is given, units); rho = n*M, mass = rho*V, component sums, against values computed in g/cm3/cm3",
                samples=samples, violations=viol)
