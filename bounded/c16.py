"""C16 bounded stand-in (labelled bounded): constraint kinds x boundary values through the real parser;
accepted iff every attached constraint is satisfied by the final value (reference decision in the harness)."""
import random
import re

from bounded.dip_common import parse_text, observe

LEN = {"m": 1.0, "cm": 0.01, "mm": 0.001, "km": 1000.0}


def run(tier="quick", seed=0, contracts=None):
    rng = random.Random(seed)
    viol, evals, distinct, samples = [], 0, set(), []

    def bad(ob, what, **kw):
        if len(viol) < 8:
            viol.append(dict(obligation="C16/bounded/" + ob, what=what, **kw))

    def judge(kind, text, ok):
        nonlocal evals
        evals += 1
        distinct.add(text)
        try:
            env = parse_text(text)
            env.data()
            accepted = True
        except Exception as e:
            accepted = False
            err = f"{type(e).__name__}: {e}"
        if accepted and not ok:
            bad(f"{kind}/sound", "an environment was returned although a constraint is violated", text=text)
        elif not accepted and ok:
            bad(f"{kind}/complete", f"text whose final values satisfy all constraints was refused: {err}", text=text)
        if len(samples) < 4:
            samples.append(text)
    n = 60 if tier == "quick" else 600
    for _ in range(n):
        # options on numbers, compared after conversion to the node's unit
        u0 = rng.choice(list(LEN))
        opts = [(rng.choice([1, 2, 5, 12, 250]), rng.choice(list(LEN))) for _ in range(rng.randint(1, 4))]
        pick = rng.random() < 0.5
        if pick:
            v, vu = rng.choice(opts)
        else:
            v, vu = rng.choice([3, 7, 11, 13, 0]), rng.choice(list(LEN))
        val_base = v * LEN[vu]
        ok = any(abs(val_base - o * LEN[ou]) <= 1e-6 * abs(o * LEN[ou]) + 1e-12 for o, ou in opts)
        style = rng.choice(["lines", "keyword"])
        if style == "lines":
            body = "".join(f"\n  = {o} {ou}" for o, ou in opts)
        else:
            byu = {}
            for o, ou in opts:
                byu.setdefault(ou, []).append(o)
            body = "".join(f"\n  !options [{','.join(map(str, os))}] {ou}" for ou, os in byu.items())
        kind = rng.choice(["float", "int"])
        if kind == "int" and any((o * LEN[ou] / LEN[u0]) % 1 for o, ou in opts + [(v, vu)]):
            kind = "float"
        text = f"size {kind} {u0}{body}\nsize = {v} {vu}"
        judge("options", text, ok)
        # string options
        sopts = rng.sample(["red", "green", "blue", "dark-blue", "x"], 3)
        sv = rng.choice(sopts + ["yellow", "Red", ""])
        if sv == "":
            continue
        text = "colour str = " + sv + "".join(f"\n  = {o}" for o in sopts)
        judge("options-str", text, sv in sopts)
    for _ in range(n):
        # conditions: numeric bounds with units, on float/int, and on bool/str nodes
        lo, hi = sorted(rng.sample([0, 1, 2, 5, 10, 20, 50], 2))
        u = rng.choice(["cm", "mm", "m"])
        v = rng.choice([lo, hi, (lo + hi) / 2, lo - 1, hi + 1, lo + 1e-9, hi * 1.0000000001])
        vu = rng.choice(["cm", "mm", "m"])
        inside = lo * LEN[u] < v * LEN[vu] < hi * LEN[u]
        if abs(v * LEN[vu] - lo * LEN[u]) < 1e-5 * max(abs(lo * LEN[u]), 1e-9) or abs(v * LEN[vu] - hi * LEN[u]) < 1e-5 * max(abs(hi * LEN[u]), 1e-9):
            continue   # within the documented comparison tolerance of the bound: either answer is acceptable
        text = f"size float = {v} {vu}\n  !condition ('{lo} {u} < {{?}} && {{?}} < {hi} {u}')"
        judge("condition", text, inside)
        k = rng.choice([1, 2, 3])
        iv = rng.choice([0, 1, 2, 3, 4])
        judge("condition-int", f"count int = {iv}\n  !condition ('{{?}} >= {k}')", iv >= k)
        b = rng.choice(["true", "false"])
        judge("condition-bool", f"flag bool = {b}\n  !condition ('{{?}} == true')", b == "true")
        s = rng.choice(["abc", "xyz"])
        judge("condition-str", f"name str = {s}\n  !condition ('{{?}} == abc')", s == "abc")
    for _ in range(n):
        fmt, cands = rng.choice([("[a-zA-Z]+", ["John", "7up", "x"]), ("[0-9]{3}-[0-9]{2}", ["123-45", "12-345", "123-4"]), ("(red|green)", ["red", "blue", "green"])])
        s = rng.choice(cands)
        judge("format", f"name str = {s}\n  !format '{fmt}'", re.match(fmt, s) is not None)
        # dimensions
        lo, hi = rng.choice([(2, 2), (1, 3), (2, None), (None, 2), (0, 1)])
        nrows = rng.randint(0, 4)
        if nrows == 0:
            continue
        dim = f"{lo}" if lo == hi else f"{'' if lo is None else lo}:{'' if hi is None else hi}"
        vals = ",".join(str(rng.randint(0, 9)) for _ in range(nrows))
        ok = (lo is None or nrows >= lo) and (hi is None or nrows <= hi)
        judge("dimension", f"counts int[{dim}] = [{vals}]", ok)
        lo2, hi2 = rng.choice([(2, 2), (1, 3)])
        ncol = rng.randint(1, 3)
        rows = ",".join("[" + ",".join(str(rng.randint(0, 9)) for _ in range(ncol)) + "]" for _ in range(nrows))
        ok2 = ok and lo2 <= ncol <= hi2
        d2 = f"{lo2}" if lo2 == hi2 else f"{lo2}:{hi2}"
        judge("dimension-2d", f"m float[{dim},{d2}] = [{rows}]", ok2)
        judge("dimension-rank", f"m int[{dim},{d2}] = [{vals}]", False)
        judge("declared", rng.choice(["a float cm", "a int", "g\n  a str"]), False)
        judge("declared-then-set", "a float cm\na = 3", True)
    return dict(scope=f"{n} draws per constraint kind: numeric options in mixed units (line and !options form), string options, !condition with unit-bearing bounds on float/int/bool/str nodes, !format, 1-D/2-D dimension bounds incl. lower rank, declared nodes",
                evaluations=evals, distinct_nontrivial=len(distinct),
                rule="distinct = program text; accept/reject decided by the harness from the generated values (values within the documented 1e-6 tolerance of a bound are skipped)",
                samples=samples, violations=viol)
