"""C13 bounded stand-in (labelled bounded): generated DIP trees against an independent reading of the text
format (paths by indentation, literal values, types, units, order), with blank lines, comments and varying
indentation widths."""
import random

from bounded.dip_common import parse_text, observe, same_value

INTS = [("int", 32, False), ("int16", 16, False), ("int32", 32, False), ("int64", 64, False), ("uint", 32, True), ("uint16", 16, True), ("uint64", 64, True)]
FLOATS = [("float", 64), ("float32", 32), ("float64", 64), ("float128", 128)]


def literal(rng):
    """(type text, literal text, expected keyword, expected value, unit, precision, unsigned)"""
    kind = rng.choice(["bool", "int", "float", "str", "none", "array", "block", "blockstr"])
    if kind == "blockstr":
        # the text between the triple quotes is the value, line for line (also lines that look like comments or are blank)
        body = rng.choice(["#!/bin/bash\n  # set up\nrun --fast\n\n# done", "line one\n# heading\nline three", "x = 1  # not a comment here\n\n  indented", "plain"])
        return ("str", '"""\n' + body + '\n"""', "str", body, None, None, None)
    if kind == "bool":
        v = rng.choice([True, False])
        return ("bool", "true" if v else "false", "bool", v, None, None, None)
    if kind == "int":
        t, prec, uns = rng.choice(INTS)
        v = rng.choice([0, 1, 7, 42, 1302, 65535, 2 ** 31 - 1, 9007199254740993, 12345678901234567] if prec == 64 or uns else [0, 1, 7, 42, 1302])
        if not uns and rng.random() < 0.3:
            v = -v
        unit = rng.choice([None, None, "m", "km/s", "kg*m2/s2"])
        return (t, str(v), "int", v, unit, prec, uns)
    if kind == "float":
        t, prec = rng.choice(FLOATS)
        txt, v = rng.choice([("1.5", 1.5), ("-2.25", -2.25), ("3", 3.0), ("1e3", 1000.0), ("2.5e-3", 0.0025), ("1E+2", 100.0), ("0.0", 0.0), (".5", 0.5), ("6.02e23", 6.02e23), ("-0.75", -0.75), ("10.", 10.0)])
        unit = rng.choice([None, "cm", "g/cm3", "K", "eV"])
        return (t, txt, "float", v, unit, prec, None)
    if kind == "str":
        txt, v = rng.choice([("'rose'", "rose"), ('"two words"', "two words"), ("bare", "bare"), ("'with # hash'", "with # hash"), ('"it\'s"', "it's"),
                             ("'a=b'", "a=b"), ("snake_case-1", "snake_case-1"), ('"  padded  "', "  padded  "), ("''", ""), ('""', "")])
        return ("str", txt, "str", v, None, None, None)
    if kind == "none":
        t = rng.choice(["int", "float", "str", "bool"])
        return (t, "none", t, None, None, 32 if t == "int" else (64 if t == "float" else None), False if t == "int" else None)
    if kind == "array":
        which = rng.choice(["int", "float", "str", "bool", "int2d"])
        if which == "int":
            vals = [rng.randint(-9, 99) for _ in range(rng.randint(1, 4))]
            return (f"int[{len(vals)}]", "[" + ",".join(map(str, vals)) + "]", "int", vals, rng.choice([None, "m"]), 32, False)
        if which == "float":
            vals = [rng.choice([1.5, -2.0, 3.25, 0.0]) for _ in range(rng.randint(1, 4))]
            return ("float[:]", "[" + ",".join(map(str, vals)) + "]", "float", vals, rng.choice([None, "s"]), 64, None)
        if which == "str":
            vals = rng.sample(["John", "Patricia", "Lena", "x_y"], rng.randint(1, 3))
            return ("str[1:]", "[" + ",".join('"%s"' % v for v in vals) + "]", "str", vals, None, None, None)
        if which == "bool":
            vals = [rng.choice([True, False]) for _ in range(2)]
            return ("bool[2]", "[" + ",".join("true" if v else "false" for v in vals) + "]", "bool", vals, None, None, None)
        rows = [[rng.randint(0, 9) for _ in range(3)] for _ in range(rng.randint(1, 3))]
        return ("int[1:,3]", "[" + ",".join("[" + ",".join(map(str, r)) + "]" for r in rows) + "]", "int", rows, "km/s", 32, False)
    rows = [[rng.randint(0, 9) for _ in range(2)] for _ in range(2)]
    block = '"""\n[[%d,%d],\n [%d,%d]]\n"""' % (rows[0][0], rows[0][1], rows[1][0], rows[1][1])
    return ("int[2,2]", block, "int", rows, None, 32, False)


def gen_program(rng, maxdepth=4):
    """lines with levels; returns (text, expected list of (path, spec))"""
    width = rng.choice([1, 2, 3, 4])
    lines, expected = [], []
    stack = []   # (level, name)
    used = set()
    level = 0
    n = rng.randint(2, 9)
    for i in range(n):
        # choose the level: deeper by one (only below a hierarchical line), same, or back by 1-3
        if stack and rng.random() < 0.45 and len(stack) < maxdepth:
            level = stack[-1][0] + 1
        elif stack and rng.random() < 0.4:
            level = max(0, stack[-1][0] - rng.randint(0, 3))
        elif stack:
            level = stack[-1][0]
        while stack and stack[-1][0] >= level:
            stack.pop()
        name = rng.choice(["a", "b", "node", "x1", "very-long.name_2", "grp.sub", "Z"]) + str(i)
        indent = " " * (width * level)
        path = ".".join([s[1] for s in stack] + [name])
        is_group = rng.random() < 0.25 and i < n - 1
        if rng.random() < 0.2:
            lines.append(rng.choice(["", "   ", indent + "# a comment", "# top comment"]))
        if is_group:
            lines.append(f"{indent}{name}" + rng.choice(["", "   # group", " "]))
        else:
            t, lit, kw, val, unit, prec, uns = literal(rng)
            code = f"{indent}{name} {t} = {lit}" + (f" {unit}" if unit else "") + rng.choice(["", "  # trailing comment", " "])
            lines.append(code)
            expected.append((path, dict(keyword=kw, value=val, unit=unit, precision=prec, unsigned=uns)))
        stack.append((level, name))
    return "\n".join(lines), expected


def run(tier="quick", seed=0, contracts=None):
    rng = random.Random(seed)
    viol, evals, distinct, samples = [], 0, set(), []

    def bad(ob, what, **kw):
        if len(viol) < 6:
            viol.append(dict(obligation="C13/bounded/" + ob, what=what, **kw))
    n = 300 if tier == "quick" else 4000
    for _ in range(n):
        text, expected = gen_program(rng)
        evals += 1
        distinct.add(text)
        try:
            env = parse_text(text)
            got = observe(env)
            env.data()
        except Exception as e:
            bad("accepted", f"well-formed text rejected or unreadable: {type(e).__name__}: {e}", text=text)
            continue
        if [g[0] for g in got] != [e[0] for e in expected]:
            bad("paths-and-order", "paths / order differ from the indentation reading", text=text, got=[g[0] for g in got], want=[e[0] for e in expected])
            continue
        for (path, g), (_, w) in zip(got, expected):
            if g["keyword"] != w["keyword"] or (w["precision"] is not None and int(g["precision"] or 0) != w["precision"]) or (w["unsigned"] is not None and bool(g["unsigned"]) != w["unsigned"]):
                bad("type", "data type / width / sign differ from the text", text=text, path=path, got=g, want=w)
            elif not same_value(g["value"], w["value"]) or (w["value"] is not None and g["unit"] != w["unit"]):
                bad("value", "value or unit differ from the literal written", text=text, path=path, got=g, want=w)
        if len(samples) < 3:
            samples.append(text)
    # tables
    text = 'outputs table = """\ntime float s\nsnapshot int\nname str\n\n0.25 0 "a b"\n1.5 1 c\n"""'
    evals += 1
    try:
        got = dict(observe(parse_text(text)))
        want = {"outputs.time": ([0.25, 1.5], "s"), "outputs.snapshot": ([0, 1], None), "outputs.name": (["a b", "c"], None)}
        if list(got) != list(want) or any(not same_value(got[k]["value"], v[0]) or got[k]["unit"] != v[1] for k, v in want.items()):
            bad("table", "table columns differ", text=text, got=str(got))
    except Exception as e:
        bad("table", f"{type(e).__name__}: {e}", text=text)
    # indentation width and comments do not matter
    for _ in range(40 if tier == "quick" else 400):
        text, expected = gen_program(rng)
        # lines between triple quotes belong to a value and stay as they are; the extra blank / comment lines go in front
        out, inside = [], False
        for l in text.split("\n"):
            quotes = l.count('"""')
            if inside or not l.strip() or l.lstrip().startswith("#"):
                out.append(l)
            else:
                out.append(" " * (2 * (len(l) - len(l.lstrip(" ")))) + l.lstrip(" "))
            if quotes % 2 == 1:
                inside = not inside
        alt = "\n# c\n" + "\n".join(out)
        evals += 1
        distinct.add(alt)
        try:
            a, b = observe(parse_text(text)), observe(parse_text(alt))
        except Exception:
            continue
        if str(a) != str(b):
            bad("layout-independence", "doubling the indentation / adding blank and comment lines changed the result", text=text, alt=alt)
    return dict(scope=f"{n} generated trees (2-9 lines, depth <= 4, indentation 1-4 blanks, de-indents by 1-3 levels, dotted names, groups, comments, blank lines) x literal kinds (bool, 7 int types, 4 float types in 11 notations, quoted/bare strings, none, inline/block arrays), 1 table, layout variants",
                evaluations=evals, distinct_nontrivial=len(distinct),
                rule="distinct = program text; expected paths/types/values/units come from the generator's structure, not from parsing",
                samples=samples, violations=viol)
