from bounded.units_ops import run_c08 as run
