from bounded.units_ops import run_c06 as run
