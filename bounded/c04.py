"""C04 bounded stand-in (labelled bounded): float rounding of conversions over the real table, arrays /
lists / Decimal magnitudes, repeated read-outs, error exits leave the quantity unchanged."""
import itertools
import random

import numpy as np


def run(tier="quick", seed=0, contracts=None):
    from scinumtools.units import Quantity
    from contracts import unitdata as U
    from bounded.units_common import snap, values, ulps
    rng = random.Random(seed)
    viol, evals, distinct, samples = [], 0, set(), []

    def bad(ob, what, **kw):
        if len(viol) < 5:
            viol.append(dict(obligation="C04/bounded/" + ob, what=what, **kw))
    groups = [g for dv, g in U.by_dimension().items() if any(dv)]
    pairs = [(a, b) for g in groups for a in g for b in g]
    rng.shuffle(pairs)
    pairs = pairs[: (120 if tier == "quick" else len(pairs))]
    for a, b in pairs:
        fa, fb = U.UNITS[a]["factor"], U.UNITS[b]["factor"]
        for kind in ("scalar", "array", "list", "decimal"):
            x = values(kind, rng)
            q = Quantity(x, a)
            before = snap(q)
            try:
                r1 = q.value(b)
                r2 = q.value(b)
            except Exception as e:
                bad("value/raises", f"{type(e).__name__}: {e}", unit_from=a, unit_to=b, kind=kind)
                continue
            evals += 1
            distinct.add((a, b, kind))
            if kind != "decimal":
                want = np.asarray(x, dtype=float) * fa / fb
                if ulps(r1, want) > 8:
                    bad("value/factor", "differs from x*f(u)/f(v) by more than 8 ulp", unit_from=a, unit_to=b, x=repr(x), got=repr(r1), want=repr(want))
                if ulps(r1, r2) != 0:
                    bad("value/repeatable", "second read-out differs from the first", unit_from=a, unit_to=b, x=repr(x), first=repr(r1), second=repr(r2))
                if snap(q) != before:
                    bad("value/operand-unchanged", "value(unit) changed the quantity", unit_from=a, unit_to=b, x=repr(x), before=repr(before), after=repr(snap(q)))
                back = Quantity(x, a).to(b).to(a).magnitude.value
                if ulps(back, np.asarray(x, dtype=float)) > 8:
                    bad("to/round-trip", "to(v).to(u) differs from x by more than 8 ulp", unit_from=a, unit_to=b, x=repr(x), got=repr(back))
            else:
                if abs(float(r1) - float(x) * fa / fb) > 1e-9 * abs(float(x) * fa / fb) + 1e-300:
                    bad("value/decimal", "Decimal conversion differs", unit_from=a, unit_to=b, x=repr(x), got=repr(r1))
        if len(samples) < 3:
            samples.append(dict(unit_from=a, unit_to=b, kinds=["scalar", "array", "list", "decimal"]))
    # exponents stored as unreduced fractions (results of roots, 'm4:2') convert like their reduced form
    for label, make, target, want in [("sqrt(4 m2)->cm", lambda: np.sqrt(Quantity(4.0, "m2")), "cm", 200.0), ("sqrt([4,9] km2)->m", lambda: np.sqrt(Quantity([4.0, 9.0], "km2")), "m", [2000.0, 3000.0]),
                                      ("1 m4:2->cm2", lambda: Quantity(1.0, "m4:2"), "cm2", 1.0e4), ("3 km->m2:2", lambda: Quantity(3.0, "km"), "m2:2", 3000.0),
                                      ("(2 m)**2**(1:2)->mm", lambda: (Quantity(2.0, "m") ** 2) ** (1, 2), "mm", 2000.0), ("1 statC->dyn1:2*cm", lambda: Quantity(1.0, "statC"), "dyn1:2*cm", 1.0)]:
        evals += 1
        distinct.add(label)
        try:
            got = make().to(target).value()
            if not np.allclose(got, want, rtol=1e-9):
                bad("value/unreduced-exponent", "differs from x*f(u)/f(v)", case=label, got=repr(got), want=repr(want))
        except Exception as e:
            bad("value/unreduced-exponent", f"same-dimension conversion refused: {type(e).__name__}: {e}", case=label)
    # magnitudes handed in as narrow floating-point arrays: the conversion is carried out in double precision (no overflow of
    # finite values, the factor ratio accurate to double rounding)
    for label, arr, ua, ub, want in [("float32 Pm->m", np.array([1e30, -1e30, 0.0], dtype=np.float32), "Pm", "m", [1e45, -1e45, 0.0]),
                                     ("float16 km->m", np.array([100.0, 2.5], dtype=np.float16), "km", "m", [1e5, 2500.0]),
                                     ("float32 m->ym->mm", np.array([1e20], dtype=np.float32), "m", "mm", [1e23]),
                                     ("float32 km->mm", np.array([1.5, 1024.0], dtype=np.float32), "km", "mm", [1.5e6, 1.024e9])]:
        evals += 1
        distinct.add(label)
        try:
            q = Quantity(arr, ua)
            got = (q.to("ym").to(ub).value() if "ym" in label else q.value(ub))
            if not np.all(np.isfinite(got)) or not np.allclose(np.asarray(got, dtype=float), want, rtol=1e-6):
                bad("value/narrow-float-array", "conversion of a float32/float16 array overflows or differs from x*f(u)/f(v)", case=label, got=repr(got), want=repr(want))
        except Exception as e:
            bad("value/narrow-float-array", f"{type(e).__name__}: {e}", case=label)
    # refused conversions leave the quantity as it was
    for a, b in [("m", "s"), ("J", "W"), ("kg", "m2"), ("N", "Pa"), ("mol", "rad"), ("m", "rad")]:
        for kind in ("scalar", "array"):
            q = Quantity(values(kind, rng), a, abse=0.1)
            before = snap(q)
            evals += 1
            distinct.add((a, b, kind, "refused"))
            try:
                q.to(b)
                bad("to/refused", "conversion between different dimensions was not refused", unit_from=a, unit_to=b)
            except Exception:
                if snap(q) != before:
                    bad("to/unchanged-on-error", "refused conversion changed the quantity", unit_from=a, unit_to=b)
    return dict(scope=f"{len(pairs)} same-dimension unit pairs of the real table x (scalar, array, list, Decimal), 6 refused pairs",
                evaluations=evals, distinct_nontrivial=len(distinct),
                rule="distinct = (unit pair, magnitude kind); each evaluates the real Quantity and compares with x*f(u)/f(v) from the table (8 ulp), repeats the read-out, and compares operand snapshots",
                samples=samples, violations=viol)
