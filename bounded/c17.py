"""C17 bounded stand-in (labelled bounded): value injections, slices, imports (local and remote), rejected
requests, and parsing on top of a base environment / remote source, through the real parser."""
import os
import random
import tempfile

from bounded.dip_common import parse_text, observe, same_value

LEN = {"m": 1.0, "cm": 0.01, "mm": 0.001, "km": 1000.0}


def run(tier="quick", seed=0, contracts=None):
    from scinumtools.dip import DIP
    rng = random.Random(seed)
    viol, evals, distinct, samples = [], 0, set(), []

    def bad(ob, what, **kw):
        if len(viol) < 8:
            viol.append(dict(obligation="C17/bounded/" + ob, what=what, **kw))

    def get(text, **kw):
        nonlocal evals
        evals += 1
        distinct.add(text + repr(sorted(kw)))
        env = parse_text(text, **kw)
        env.data()
        return dict(observe(env)), env
    n = 80 if tier == "quick" else 1000
    for _ in range(n):
        # injection of the CURRENT value (after modifications), unit adoption / own unit, conversion to the definition unit
        u0 = rng.choice(list(LEN))
        v0 = rng.choice([34, 1.5, 250, 0.5])
        mods = []
        cur_v, cur_u = v0, u0
        for _ in range(rng.randint(0, 2)):
            v = rng.choice([50, 2.5, 7, 1200])
            u = rng.choice(list(LEN) + [None])
            mods.append(f"a = {v}" + (f" {u}" if u else ""))
            cur_v = v * LEN[u or u0] / LEN[u0]
        host_unit = rng.choice([None] + list(LEN))
        text = f"a float = {v0} {u0}\n" + "".join(m + "\n" for m in mods) + "b float = {?a}" + (f" {host_unit}" if host_unit else "")
        try:
            got, _ = get(text)
        except Exception as e:
            bad("injection/accepted", f"{type(e).__name__}: {e}", text=text)
            continue
        want_unit = host_unit or u0
        want_val = cur_v    # the number is taken as written in the host's unit (or the referenced unit when none is stated)
        if not same_value(got["b"]["value"], want_val, 1e-9) or got["b"]["unit"] != want_unit:
            bad("injection/current-value", "the host did not receive the referenced node's current value / the stated-or-adopted unit", text=text, got=got["b"], want=(want_val, want_unit))
        if len(samples) < 3:
            samples.append(text)
        # bool / str / int injections after modification
        text = "flag bool = true\nflag = false\ncopy bool = {?flag}\nname str = 'x'\nname = 'second'\nn2 str = {?name}\nk int = 3\nk = 0\nk2 int = {?k}"
        try:
            got, _ = get(text)
            if got["copy"]["value"] is not False or got["n2"]["value"] != "second" or got["k2"]["value"] != 0:
                bad("injection/current-value", "bool/str/int injection did not deliver the current value", text=text, got={k: got[k]["value"] for k in ("copy", "n2", "k2")})
        except Exception as e:
            bad("injection/accepted", f"{type(e).__name__}: {e}", text=text)
    # slices
    for text, want in [("s float[3] = [34,23.5,1e3] cm\nm float[2] = {?s}[:2]", [34.0, 23.5]), ("s float[3] = [34,23.5,1e3] cm\nm float[2] = {?s}[1:]", [23.5, 1e3]),
                       ("s float[3] = [34,23.5,1e3] cm\nm float = {?s}[1]", 23.5), ("q int[2,2] = [[1,2],[3,4]]\nm int[2] = {?q}[:,1]", [2, 4]), ("q int[2,2] = [[1,2],[3,4]]\nm int[2] = {?q}[0]", [1, 2]),
                       ("s int[4] = [1,2,3,4]\ns = [5,6,7,8]\nm int[2] = {?s}[2:]", [7, 8])]:
        try:
            got, _ = get(text)
            if not same_value(got["m"]["value"], want):
                bad("slice", "sliced injection differs from Python slicing of the current value", text=text, got=got["m"]["value"], want=want)
        except Exception as e:
            bad("slice/accepted", f"{type(e).__name__}: {e}", text=text)
    # imports
    src = "icecream\n  waffle str = 'standard'\n  scoops\n    strawberry int = 1\n      !options [1,2,3]\n    chocolate float = 2 kg\nicecream.scoops.chocolate = 3000 g\n"
    cases = [("bowl\n  {?icecream.scoops.*}", {"bowl.strawberry": (1, None), "bowl.chocolate": (3.0, "kg")}),
             ("plate {?icecream.waffle}", {"plate.waffle": ("standard", None)}),
             ("all\n  {?*}", {"all.icecream.waffle": ("standard", None), "all.icecream.scoops.strawberry": (1, None), "all.icecream.scoops.chocolate": (3.0, "kg")}),
             ("deep.er {?icecream.scoops.*}", {"deep.er.strawberry": (1, None), "deep.er.chocolate": (3.0, "kg")})]
    for tail, want in cases:
        text = src + tail
        try:
            got, env = get(text)
            for k, (v, u) in want.items():
                if k not in got or not same_value(got[k]["value"], v, 1e-9) or got[k]["unit"] != u:
                    bad("import/recreated", "imported node missing or with other value/unit", text=text, node=k, got=got.get(k))
            extra = [k for k in got if not k.startswith("icecream") and k not in want]
            if extra:
                bad("import/exactly-the-selected", "import created other entries", text=text, extra=extra)
        except Exception as e:
            bad("import/accepted", f"{type(e).__name__}: {e}", text=text)
    text = src + "bowl\n  {?icecream.scoops.*}\nbowl.strawberry = 7"
    try:
        get(text)
        bad("import/constraints-kept", "an imported node lost its options (7 is not among [1,2,3])", text=text)
    except Exception:
        evals += 0
    # rejected requests / empty imports
    for text in ["a float = 1\nb float = {?zz}", "a float = 1\na2 float = 2\nb float = {?*}", "g\n  a int = 1\n  b int = 2\nc int = {?g.*}"]:
        try:
            got, _ = get(text)
            bad("injection/rejected", "an injection selecting no node or several was not rejected", text=text, got=str(got))
        except Exception:
            pass
    for text in ["a int = 1\nh\n  {?zz.*}", "a int = 1\nh {?zz}", "a int = 1\nh\n  {?a.*}"]:
        evals += 1
        distinct.add(text)
        try:
            env = parse_text(text)
        except Exception:
            continue
        try:
            d = env.data()
            if set(d) != {"a"}:
                bad("import/empty-selection", "an import that selects nothing added entries", text=text, got=str(d))
        except Exception as e:
            bad("import/empty-selection", f"an import that selects nothing left an unreadable entry: {type(e).__name__}: {e}", text=text, nodes=[k for k, _ in observe(env)])
    # base environment and remote source stay unchanged
    with tempfile.TemporaryDirectory() as d:
        with open(os.path.join(d, "remote.dip"), "w") as f:
            f.write("energy float = 13 J\nmatrix int[2,2] = [[1,2],[3,4]]\ngrp\n  x int = 5 m\n")
        with DIP() as p:
            p.add_string("base float = 1 m\n$unit length = 2 cm\nother int = 4")
            base = p.parse()
        before = str(observe(base)) + str(sorted(base.units.units))
        with DIP(base) as p2:
            p2.add_string(f"$source remote = {os.path.join(d, 'remote.dip')}\nbase = 5 m\nother = 9\nnew float = {{?base}}\ne float = {{remote?energy}}\nbox\n  {{remote?grp.*}}\nbox.x = 7 m\nmine float = 3 [length]")
            evals += 1
            try:
                env2 = p2.parse()
                got = dict(observe(env2))
                if str(observe(base)) + str(sorted(base.units.units)) != before:
                    bad("base-environment/unchanged", "parsing on top of a base environment changed its nodes or units", before=before, after=str(observe(base)))
                if not same_value(got["new"]["value"], 5.0) or not same_value(got["e"]["value"], 13.0) or got["e"]["unit"] != "J" or got["box.x"]["value"] != 7:
                    bad("base-environment/values", "values on top of a base environment / remote source differ", got={k: (got[k]["value"], got[k]["unit"]) for k in got})
                with DIP() as p3:
                    p3.add_file(os.path.join(d, "remote.dip"))
                    again = dict(observe(p3.parse()))
                if again["grp.x"]["value"] != 5 or again["energy"]["value"] != 13.0:
                    bad("remote-source/unchanged", "the remote source was changed by the parse that imported from it")
            except Exception as e:
                bad("base-environment/accepted", f"{type(e).__name__}: {e}")
    return dict(scope=f"{n} injection chains (0-2 earlier modifications, own/adopted unit), bool/str/int injections, 6 slices, 4 import forms + constraint preservation, 3 rejected injections, 3 empty imports, base environment + remote source",
                evaluations=evals, distinct_nontrivial=len(distinct),
                rule="distinct = program text; expected values computed by the harness from the generated modifications",
                samples=samples, violations=viol)
