"""C20 bounded stand-in (labelled bounded): random operation sequences on the real classes against
plain dict / list models; grid bijection by complete enumeration of small (n, ncols)."""
import itertools
import random

import numpy as np


def run(tier="quick", seed=0, contracts=None):
    from scinumtools.parameter_table import ParameterTable
    from scinumtools.row_collector import RowCollector
    from scinumtools.data_plot_grid import DataPlotGrid
    from scinumtools.data_combination import DataCombination
    rng = random.Random(seed)
    nseq = 300 if tier == "quick" else 3000
    viol, evals, distinct, samples = [], 0, set(), []

    def bad(ob, what, **kw):
        if len(viol) < 5:
            viol.append(dict(obligation="C20/bounded/" + ob, what=what, **kw))

    # --- keyed table against an ordered dict
    for s in range(nseq):
        t = ParameterTable(["a", "b"], keys=True)
        model = {}
        ops = []
        for step in range(rng.randint(1, 12)):
            k = rng.choice(["k0", "k1", "k2", "k3", "k4"])
            op = rng.choice(["append", "set", "del", "get", "pos", "attr", "in", "len", "iter"])
            ops.append((op, k))
            try:
                if op == "append":
                    v = (rng.randint(-5, 5), rng.random()); t.append(k, v); model[k] = v
                elif op == "set":
                    v = (rng.randint(-5, 5), rng.random()); t[k] = v; model[k] = v
                elif op == "del":
                    if k in model:
                        del t[k]; del model[k]
                    else:
                        try:
                            del t[k]; bad("table/del-absent", "deleting an absent key did not raise", ops=ops)
                        except (KeyError, ValueError):
                            pass
                elif op == "get" and k in model:
                    r = t[k]
                    if (r.a, r.b) != model[k]: bad("table/get", "wrong record", ops=ops)
                elif op == "pos" and model:
                    i = rng.randrange(len(model))
                    r = t[i]
                    if (r.a, r.b) != list(model.values())[i]: bad("table/position", "wrong record at position", ops=ops)
                elif op == "attr" and k in model:
                    r = getattr(t, k)
                    if (r.a, r.b) != model[k]: bad("table/attr", "wrong record by attribute", ops=ops)
                elif op == "in":
                    if (k in t) != (k in model): bad("table/contains", "membership differs", ops=ops)
                elif op == "len":
                    if len(t) != len(model): bad("table/len", "length differs", ops=ops)
                elif op == "iter":
                    got = [(kk, (r.a, r.b)) for kk, r in t.items()]
                    if got != list(model.items()) or list(t.keys()) != list(model.keys()):
                        bad("table/iteration", "iteration order/content differs", ops=ops, got=repr(got))
                    if t.data() != {kk: dict(a=v[0], b=v[1]) for kk, v in model.items()}:
                        bad("table/data", "data() differs", ops=ops)
            except Exception as e:
                bad("table/exception", f"{type(e).__name__}: {e}", ops=ops)
            evals += 1
        distinct.add(("table", tuple(ops)))
        if s == 0:
            samples.append(dict(kind="table ops", ops=ops))
    # --- row collector, list and array storage
    for s in range(nseq):
        arr = rng.random() < 0.4
        cols = ["x", "y", "z"]
        # array storage also with declared (unsigned, narrow, float) column types: the ordering is that of the numbers, whatever the dtype
        typed = arr and rng.random() < 0.5
        if typed:
            import numpy as _np
            dts = [rng.choice([_np.uint8, _np.uint16, _np.int8, _np.float32]) for _ in cols]
            rc = RowCollector({c: dict(dtype=dt) for c, dt in zip(cols, dts)}, array=True)
        else:
            rc = RowCollector(cols, array=arr)
        model = []
        ops = []
        for step in range(rng.randint(1, 8)):
            op = rng.choice(["list", "dict", "dict", "sort", "rsort"])
            row = (rng.randint(0, 9), rng.randint(0, 3), rng.randint(0, 9))
            if op == "list":
                rc.append(list(row)); model.append(row)
            elif op == "dict":
                order = rng.sample(range(3), 3)
                rc.append({cols[i]: row[i] for i in order}); model.append(row)
                op = "dict" + "".join(cols[i] for i in order)
            else:
                col = rng.randrange(3)
                rc.sort(cols[col], reverse=(op == "rsort"))
                got = list(zip(*[list(getattr(rc, c)) for c in cols])) if model else []
                keys = [r[col] for r in got]
                if any((a < b) if op == "rsort" else (a > b) for a, b in zip(keys, keys[1:])):
                    bad("rows/sorted", "column not sorted", ops=ops + [(op, col)])
                if sorted(map(tuple, got)) != sorted(model):
                    bad("rows/multiset", "multiset of rows changed by sort", ops=ops + [(op, col)], got=repr(got))
                model = [tuple(int(v) for v in r) for r in got]
                op = (op, col)
            ops.append(op)
            got = list(zip(*[[int(v) for v in getattr(rc, c)] for c in cols])) if model else []
            if got != model:
                bad("rows/append", "rows differ from the appended rows", ops=ops, got=repr(got), want=repr(model))
            evals += 1
        distinct.add(("rows", arr, tuple(map(str, ops))))
        if s == 0:
            samples.append(dict(kind="row collector ops", array=arr, ops=[str(o) for o in ops]))
    # --- grid: complete enumeration of small sizes
    nmax = 12 if tier == "quick" else 40
    for n in range(0, nmax + 1):
        for ncols in range(1, 8):
            for tr in (False, True):
                g = DataPlotGrid(list(range(n)), ncols=ncols)
                cells = [(r, c) for (i, r, c, d) in g.items(transpose=tr)] + [(r, c) for (i, r, c) in g.items(missing=True, transpose=tr)]
                want = set(itertools.product(range(g.nrows), range(g.ncols)))
                evals += 1
                distinct.add(("grid", n, ncols, tr))
                if len(cells) != len(set(cells)) or set(cells) != want or g.nrows != -(-n // ncols):
                    bad("grid/bijection", "cells do not cover the grid exactly once", n=n, ncols=ncols, transpose=tr)
                for (i, r, c, k, v) in DataPlotGrid({f"k{j}": j for j in range(n)}, ncols=ncols).items(transpose=tr):
                    if (r, c) != cells[i] or v != i:
                        bad("grid/dict-data", "dict data cells differ from list data cells", n=n, ncols=ncols)
    # --- combinations
    for s in range(60 if tier == "quick" else 400):
        lists = [[rng.randint(0, 9) for _ in range(rng.randint(0, 3))] for _ in range(rng.randint(0, 3))]
        dc = DataCombination(lists)
        want = list(itertools.product(*lists))
        wantk = list(itertools.product(*[range(len(l)) for l in lists]))
        evals += 1
        distinct.add(("comb", tuple(map(tuple, lists))))
        if list(dc.values()) != want or list(dc.keys()) != wantk or list(dc.items()) != list(zip(wantk, want)):
            bad("combination/product", "not the Cartesian product", lists=lists)
    return dict(scope=f"{nseq} random op sequences per container (<=12 ops, 5 keys / 3 columns), grid sizes n<={nmax} x ncols<=7 complete, random item lists",
                evaluations=evals, distinct_nontrivial=len(distinct),
                rule="distinct = different operation sequence / grid size / item lists; every one executes the real class and compares with a dict/list/itertools model",
                samples=samples, violations=viol)
