from bounded.materials import run_c12 as run
