from bounded.materials import run_c10 as run
