"""C14 bounded stand-in (labelled bounded): definition + modification chains through the real parser."""
import random

from bounded.dip_common import parse_text, observe, same_value

UNITS = {"length": [("m", 1.0), ("cm", 0.01), ("km", 1000.0), ("mm", 0.001)], "time": [("s", 1.0), ("ms", 0.001), ("min", 60.0)], "mass": [("kg", 1000.0), ("g", 1.0)]}


def run(tier="quick", seed=0, contracts=None):
    rng = random.Random(seed)
    viol, evals, distinct, samples = [], 0, set(), []

    def bad(ob, what, **kw):
        if len(viol) < 6:
            viol.append(dict(obligation="C14/bounded/" + ob, what=what, **kw))
    n = 300 if tier == "quick" else 4000
    for _ in range(n):
        kind = rng.choice(["float", "float", "int", "bool", "str"])
        prefix = rng.choice(["", "grp\n  ", "a.b\n    "])
        indent = " " * (len(prefix) - prefix.rfind("\n") - 1) if prefix else ""
        path = (prefix.split("\n")[0] + "." if prefix else "") + "x"
        lines = []
        if kind in ("float", "int"):
            dim = rng.choice(list(UNITS) + [None])
            u0, f0 = rng.choice(UNITS[dim]) if dim else (None, 1.0)
            vals = [0, 1, -3, 250, 1000] if kind == "int" else [0.0, 1.5, -2.25, 1e3, 0.125, -0.0]
            v = rng.choice(vals)
            t = rng.choice(["float", "float32"]) if kind == "float" else rng.choice(["int", "int64"])
            lines.append(f"{indent}x {t} = {v}" + (f" {u0}" if u0 else ""))
            cur = v
            for k in range(rng.randint(1, 3)):
                style = rng.choice(["mod", "redef"])
                v = rng.choice(vals + ["none"])
                if dim and rng.random() < 0.6 and v != "none":
                    u, f = rng.choice(UNITS[dim])
                    if kind == "int" and v != "none":
                        # keep integer results: only convert to a finer unit
                        if f < f0:
                            u, f = u0, f0
                else:
                    u, f = None, f0
                lines.append(f"{indent}x" + (f" {t}" if style == "redef" else "") + f" = {v}" + (f" {u}" if u else ""))
                cur = None if v == "none" else (v * f / f0)
            want = dict(keyword=kind, value=(None if cur is None else (float(cur) if kind == "float" else cur)), unit=u0)
        elif kind == "bool":
            lines.append(f"{indent}x bool = {rng.choice(['true', 'false'])}")
            cur = None
            for k in range(rng.randint(1, 3)):
                v = rng.choice(["true", "false", "none"])
                lines.append(f"{indent}x = {v}")
                cur = {"true": True, "false": False, "none": None}[v]
            want = dict(keyword="bool", value=cur, unit=None)
        else:
            lines.append(f"{indent}x str = 'first'")
            cur = None
            for k in range(rng.randint(1, 3)):
                v = rng.choice(["'second'", "''", "none", "bare", '"two words"'])
                lines.append(f"{indent}x = {v}")
                cur = {"'second'": "second", "''": "", "none": None, "bare": "bare", '"two words"': "two words"}[v]
            want = dict(keyword="str", value=cur, unit=None)
        text = prefix.rsplit("\n", 1)[0] + ("\n" if prefix else "") + "\n".join(lines) if prefix else "\n".join(lines)
        evals += 1
        distinct.add(text)
        try:
            env = parse_text(text)
            got = dict(observe(env))
            env.data()
        except Exception as e:
            bad("chain/accepted", f"{type(e).__name__}: {e}", text=text)
            continue
        names = [k for k in got]
        if names != [path]:
            bad("chain/single-parameter", "not exactly one parameter for the repeatedly assigned node", text=text, got=names)
            continue
        g = got[path]
        if g["keyword"] != want["keyword"] or not same_value(g["value"], want["value"], 1e-9) or g["unit"] != want["unit"]:
            bad("chain/last-assignment-wins", "final value/unit differ from the last assignment converted to the definition's unit", text=text, got=g, want=want)
        if len(samples) < 3:
            samples.append(text)
    errors = ["a int = 1\na float = 2.5", "a float = 1 m\na = 2 s", "a float = 1 m\n  !constant\na = 2 m", "a float", "a int = 1\na str = 'x'", "a bool = true\na int = 1",
              "a float = 1 m\na = 3 kg", "g\n  a float = 1\n    !constant\ng.a = 2", "a int\nb int = 1", "a str = 'x'\n  !constant\na = 'y'"]
    for t in errors:
        evals += 1
        distinct.add(t)
        try:
            env = parse_text(t)
            bad("errors/" + t.split("\n")[-1], "input that must be refused returned an environment", text=t, got=str(observe(env)))
        except Exception:
            pass
    return dict(scope=f"{n} chains (definition + 1-3 modifications or re-definitions; float/int/bool/str; values incl. 0, negatives, false, none, ''; units same / other same-dimension / none; top level and nested), {len(errors)} refused inputs",
                evaluations=evals, distinct_nontrivial=len(distinct),
                rule="distinct = program text; expected final value = last assigned value converted into the definition's unit",
                samples=samples, violations=viol)
