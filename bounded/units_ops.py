"""Bounded stand-ins (labelled bounded) for C06 / C07 / C08 on the real Quantity: scalars, arrays, lists
and Decimal magnitudes, mixed prefixes, reflected operators, NumPy functions."""
import operator
import random
from decimal import Decimal

import numpy as np

PAIRS_ADD = [("m", "cm"), ("km", "in"), ("J", "erg"), ("kg*m/s2", "N"), ("m2", "cm2"), ("km/h", "m/s"), ("s", "min"), ("Hz", "kHz"), ("g/cm3", "kg/m3"), ("rad", "deg")]
PAIRS_MUL = [("m", "s"), ("km", "m"), ("m", "m-1"), ("km", "cm-1"), ("kg", "g-1"), ("N", "m"), ("J", "s-1"), ("m1:2", "m1:2"), ("km/h", "h"), ("%", "m")]


def _mk(Quantity, kind, rng, unit, err=None):
    from bounded.units_common import values
    v = values(kind, rng)
    if kind in ("scalar",) and v == 0:
        v = 1.25
    if err is not None and kind != "decimal":
        return Quantity(v, unit, abse=err)
    return Quantity(v, unit)


def _base(q, U_factor):
    return np.asarray(q.magnitude.value, dtype=float) * U_factor


def run_c07(tier="quick", seed=0, contracts=None):
    from scinumtools.units import Quantity
    from bounded.units_common import snap
    rng = random.Random(seed)
    viol, evals, distinct, samples = [], 0, set(), []

    def bad(ob, what, **kw):
        if len(viol) < 6:
            viol.append(dict(obligation="C07/bounded/" + ob, what=what, **kw))
    ops = [("+", operator.add, PAIRS_ADD), ("-", operator.sub, PAIRS_ADD), ("*", operator.mul, PAIRS_MUL), ("/", operator.truediv, PAIRS_MUL),
           ("==", operator.eq, PAIRS_ADD)]
    kinds = ["scalar", "array", "list", "decimal"]
    reps = 1 if tier == "quick" else 5
    for _ in range(reps):
        for name, fn, pairs in ops:
            for ua, ub in pairs + [(p[0], p[0]) for p in pairs[:3]]:
                for kind in kinds:
                    if kind == "decimal" and name in ("==",):
                        continue
                    a, b = _mk(Quantity, kind, rng, ua, 0.1), _mk(Quantity, kind, rng, ub, 0.2)
                    sa, sb = snap(a), snap(b)
                    evals += 1
                    distinct.add((name, ua, ub, kind))
                    try:
                        r = fn(a, b)
                    except Exception as e:
                        if kind == "decimal":
                            continue   # mixed Decimal/float arithmetic is outside the property's scope; only mutation is judged
                        bad(f"{name}/raises", f"{type(e).__name__}: {e}", ua=ua, ub=ub, kind=kind)
                        continue
                    if snap(a) != sa or snap(b) != sb:
                        bad(f"operator{name}/operands-unchanged", "an operand reports a different value/unit/uncertainty afterwards", ua=ua, ub=ub, kind=kind,
                            before=repr((sa, sb)), after=repr((snap(a), snap(b))))
                    if name != "==" and kind != "decimal":
                        # the result shares no mutable state with an operand
                        sr = snap(r)
                        a.abse(7.0) if kind != "decimal" else None
                        try:
                            b.to(ua)
                        except Exception:
                            pass
                        if snap(r) != sr:
                            bad(f"operator{name}/result-independent-of-operands", "in-place change of an operand changed the result", ua=ua, ub=ub, kind=kind)
                        a2, b2 = _mk(Quantity, kind, rng, ua, 0.1), _mk(Quantity, kind, rng, ub, 0.2)
                        r2 = fn(a2, b2)
                        sa2, sb2 = snap(a2), snap(b2)
                        r2.abse(3.0)
                        if isinstance(r2.magnitude.value, np.ndarray):
                            r2.magnitude.value *= 2
                        try:
                            r2.rebase()
                        except Exception:
                            pass
                        if snap(a2) != sa2 or snap(b2) != sb2:
                            bad(f"operator{name}/operands-independent-of-result", "in-place change of the result changed an operand", ua=ua, ub=ub, kind=kind)
    # unary and numpy functions
    fns = [("neg", lambda q: -q, "m"), ("pow2", lambda q: q ** 2, "m"), ("pow1", lambda q: q ** 1, "m"), ("pow0.5", lambda q: q ** 0.5, "m2"),
           ("pow(1,2)", lambda q: q ** (1, 2), "m2"), ("sin", np.sin, "deg"), ("cos", np.cos, "deg"), ("tan", np.tan, "deg"), ("arcsin", np.arcsin, "%"),
           ("sqrt", np.sqrt, "m2"), ("abs", np.abs, "m"), ("round", np.round, "m"), ("sum", np.sum, "m"), ("value", lambda q: q.value("km"), "m"),
           ("value_none", lambda q: q.value(), "m"), ("getitem", lambda q: q[0], "m"), ("units", lambda q: q.units(), "m"),
           ("mul_number", lambda q: q * 3, "m"), ("rmul_number", lambda q: 3 * q, "m"), ("rtruediv", lambda q: 2 / q, "m"), ("str", str, "m")]
    for name, fn, u in fns:
        for kind in ("scalar", "array"):
            if name == "getitem" and kind == "scalar":
                continue
            from bounded.units_common import values
            v = values(kind, rng)
            v = np.abs(v) * 0.05 + 0.1 if name in ("arcsin", "sqrt", "pow0.5", "pow(1,2)", "rtruediv") else v
            q = Quantity(v, u, abse=0.01)
            s0 = snap(q)
            evals += 1
            distinct.add((name, kind))
            try:
                r = fn(q)
            except Exception as e:
                bad(f"{name}/raises", f"{type(e).__name__}: {e}", unit=u, kind=kind)
                continue
            if snap(q) != s0:
                bad(f"{name}/operand-unchanged", "the argument reports a different value/unit/uncertainty afterwards", unit=u, kind=kind, before=repr(s0), after=repr(snap(q)))
            if isinstance(r, Quantity):
                r.abse(9.0)
                try:
                    r.to(r.units())
                except Exception:
                    pass
                if snap(q) != s0:
                    bad(f"{name}/operand-independent-of-result", "in-place change of the result changed the argument", unit=u, kind=kind)
    for name, fn in [("linspace", np.linspace), ("logspace", np.logspace)]:
        a, b = Quantity(1.0, "m"), Quantity(0.005, "km")
        sa, sb = snap(a), snap(b)
        evals += 1
        distinct.add((name,))
        fn(a, b, 3)
        if snap(a) != sa or snap(b) != sb:
            bad(f"{name}/operands-unchanged", "an endpoint was converted in place", before=repr((sa, sb)), after=repr((snap(a), snap(b))))
    # in-place methods change only the object they are called on
    a = Quantity(np.array([1.0, 2.0]), "m")
    b = a + Quantity(1.0, "cm")
    sa = snap(a)
    b.to("km"); b.abse(0.5); b.rebase()
    evals += 1
    if snap(a) != sa:
        bad("in-place/only-self", "to/abse/rebase on a result changed an operand")
    samples = [dict(op="+", units=("m", "cm"), kinds=kinds), dict(fn="np.sin", unit="deg")]
    return dict(scope="operators + - * / == on 13 unit pairs x (scalar, array, list, Decimal); 21 unary/NumPy functions x (scalar, array); linspace/logspace; in-place methods on results",
                evaluations=evals, distinct_nontrivial=len(distinct),
                rule="distinct = (operation, unit pair, magnitude kind); each compares operand snapshots (value, units, uncertainty, exponents, factor type) before/after and mutates result/operand in place afterwards",
                samples=samples, violations=viol)


def run_c06(tier="quick", seed=0, contracts=None):
    from scinumtools.units import Quantity
    from contracts import unitdata as U
    from contracts.units_common import T
    rng = random.Random(seed)
    viol, evals, distinct = [], 0, set()

    def bad(ob, what, **kw):
        if len(viol) < 6:
            viol.append(dict(obligation="C06/bounded/" + ob, what=what, **kw))

    def close(a, b):
        a, b = np.asarray(a, dtype=float), np.asarray(b, dtype=float)
        return bool(np.all(np.abs(a - b) <= 1e-9 * np.maximum(np.abs(a), np.abs(b)) + 1e-300))
    from contracts.units_quantity import ADD_PAIRS, MUL_PAIRS
    from bounded.units_common import values
    for kind in ("scalar", "array"):
        for ua, ub in ADD_PAIRS:
            fa, fb = U.factor(T(ua)), U.factor(T(ub))
            x, y = values(kind, rng), values(kind, rng)
            for name, fn in (("+", operator.add), ("-", operator.sub)):
                r = fn(Quantity(x, U.render(T(ua))), Quantity(y, U.render(T(ub))))
                evals += 1
                distinct.add((name, ua, ub, kind))
                if not close(np.asarray(r.magnitude.value) * fa, fn(np.asarray(x) * fa, np.asarray(y) * fb)) or r.units() != U.render(T(ua)):
                    bad(f"operator{name}/base-value", "base value of the result differs", ua=ua, ub=ub, kind=kind, got=repr(r))
        for ua, ub in MUL_PAIRS:
            fa, fb = U.factor(T(ua)), U.factor(T(ub))
            x, y = values(kind, rng), np.abs(values(kind, rng)) + 0.5
            for name, fn in (("*", operator.mul), ("/", operator.truediv)):
                r = fn(Quantity(x, U.render(T(ua))), Quantity(y, U.render(T(ub))))
                evals += 1
                distinct.add((name, ua, ub, kind))
                fr = r.baseunits.magnitude
                if not close(np.asarray(r.magnitude.value) * fr, fn(np.asarray(x) * fa, np.asarray(y) * fb)):
                    bad(f"operator{name}/base-value", "base value of the result differs", ua=ua, ub=ub, kind=kind, got=repr(r))
                if r.baseunits.dimensions.nodim and any(any(U.dims([t])) for t in T(" ".join(k.replace(":", ":") for k in []))):
                    pass
        for p, (pn, pd) in [(2, (2, 1)), (0.5, (1, 2)), ((1, 2), (1, 2)), (1.5, (3, 2)), (-1, (-1, 1)), (2.0, (2, 1)), (0.25, (1, 4))]:
            x = np.abs(values(kind, rng)) + 0.5
            r = Quantity(x, "km") ** p
            evals += 1
            distinct.add(("**", repr(p), kind))
            want_units = "km" + (str(pn) if pd == 1 else f"{pn}:{pd}")
            if r.units() != want_units or not close(r.magnitude.value, np.asarray(x, dtype=float) ** (pn / pd)):
                bad("pow/exponents", "power does not multiply the exponents / raise the value", power=repr(p), got=repr(r), want_units=want_units)
    return dict(scope=f"{len(ADD_PAIRS)} sum pairs, {len(MUL_PAIRS)} product pairs, 7 powers x (scalar, array)",
                evaluations=evals, distinct_nontrivial=len(distinct),
                rule="distinct = (operator, unit pair, kind); base-dimension value of the real result against the operation on table-derived base values (rel 1e-9)",
                samples=[dict(op="*", units=MUL_PAIRS[3])], violations=viol)


def run_c08(tier="quick", seed=0, contracts=None):
    from scinumtools.units import Quantity
    rng = random.Random(seed)
    viol, evals, distinct = [], 0, set()

    def bad(ob, what, **kw):
        if len(viol) < 6:
            viol.append(dict(obligation="C08/bounded/" + ob, what=what, **kw))
    n = 200 if tier == "quick" else 2000
    for i in range(n):
        kind = rng.choice(["scalar", "array", "int-array", "int"])
        def val():
            if kind == "int":
                return rng.randint(-9, 9) or 1
            if kind == "int-array":   # integer dtype: the uncertainty must not inherit it
                return np.array([rng.randint(-9, 9) or 1 for _ in range(3)])
            return rng.uniform(-10, 10) if kind == "scalar" else np.array([rng.uniform(-10, 10) for _ in range(3)])
        x, y = val(), val()
        ex, ey = rng.uniform(0, 1), rng.uniform(0, 1)
        a, b = Quantity(x, "m", abse=ex), Quantity(y, "cm", abse=ey)
        k = rng.choice([-3.0, -0.5, 2.0, 4])
        cases = [("a+b", a + b, ex + ey / 100), ("a-b", a - b, ex + ey / 100), ("a*k", a * k, ex * abs(k)), ("k*a", k * a, ex * abs(k)), ("a/k", a / k, ex / abs(k)),
                 ("-a", -a, ex), ("a.to(cm)", Quantity(x, "m", abse=ex).to("cm"), ex * 100), ("a*b", a * b, None), ("a/b", a / (b + Quantity(50, "cm")) if False else a * b, None),
                 ("a**2", a ** 2, None), ("a**-1", Quantity(np.abs(x) + 1, "m", abse=ex) ** -1, None)]
        for name, r, want in cases:
            evals += 1
            distinct.add((name, kind, i))
            e = r.abse()
            if e is None or np.any(np.asarray(e) < 0):
                bad(f"{name}/non-negative", "absolute uncertainty negative or missing", x=repr(x), y=repr(y), k=k, got=repr(e))
            elif want is not None and not np.allclose(np.asarray(e, dtype=float), want, rtol=1e-9, atol=1e-12):
                bad(f"{name}/rule", "uncertainty differs from the stated rule", x=repr(x), y=repr(y), k=k, got=repr(e), want=want)
        evals += 1
        if (Quantity(x, "m") * Quantity(y, "s")).abse() is not None:
            bad("exact/exact", "exact operands gave an uncertain result")
        xp, yp = np.abs(x) + 1, np.abs(y) + 1
        r = Quantity(xp, "m", abse=ex) * Quantity(yp, "m", abse=ey)
        if np.any(np.asarray(r.abse()) < np.asarray(xp * ey + yp * ex) * (1 - 1e-9)):
            bad("a*b/first-order", "product uncertainty below |a|db+|b|da", x=repr(xp), y=repr(yp), got=repr(r.abse()))
    return dict(scope=f"{n} random operand pairs (scalar / array, mixed signs) x 11 operations",
                evaluations=evals, distinct_nontrivial=len(distinct),
                rule="distinct = (operation, kind, draw); uncertainty of the real result against the rule stated in the property",
                samples=[dict(op="a*k", k=-3.0)], violations=viol)
