"""helpers shared by the bounded stand-ins of the unit properties"""
import copy
from decimal import Decimal

import numpy as np


def snap(q):
    """observable state of a quantity: value, units text, uncertainty, exponents"""
    m = q.magnitude
    v = m.value.copy() if isinstance(m.value, np.ndarray) else m.value
    e = m.error.copy() if isinstance(m.error, np.ndarray) else m.error
    bu = q.baseunits
    return (repr(v) if isinstance(v, np.ndarray) else (type(v).__name__, v),
            repr(e) if isinstance(e, np.ndarray) else e,
            bu.expression, tuple((k, (f.num, f.den)) for k, f in bu.baseunits.items()),
            type(bu.magnitude).__name__, float(bu.magnitude))


def same(a, b):
    return a == b


def values(kind, rng):
    if kind == "scalar":
        return rng.choice([0.0, 1.0, -2.5, 3.25e7, 1e-9, rng.uniform(-100, 100)])
    if kind == "array":
        return np.array([rng.uniform(-10, 10) for _ in range(3)])
    if kind == "list":
        return [rng.uniform(-10, 10) for _ in range(3)]
    if kind == "decimal":
        return Decimal(str(round(rng.uniform(-10, 10), 3)))
    raise ValueError(kind)


def ulps(a, b):
    a, b = np.asarray(a, dtype=float), np.asarray(b, dtype=float)
    sp = np.spacing(np.maximum(np.abs(a), np.abs(b)))
    with np.errstate(invalid="ignore", divide="ignore"):
        d = np.abs(a - b) / np.where(sp == 0, 1, sp)
    return float(np.max(d)) if d.size else 0.0
