"""C05 bounded stand-in (labelled bounded): documented numeric examples and random values through the real
Quantity, against formulas evaluated with math.log10 / math.log; round trips; level sums incl. p + p."""
import math
import random


def run(tier="quick", seed=0, contracts=None):
    from scinumtools.units import Quantity
    rng = random.Random(seed)
    viol, evals, distinct, samples = [], 0, set(), []

    def bad(ob, what, **kw):
        if len(viol) < 5:
            viol.append(dict(obligation="C05/bounded/" + ob, what=what, **kw))

    def close(a, b, tol=1e-9):
        return abs(a - b) <= tol * max(abs(a), abs(b), 1e-12)
    docs = [((39, 'dBm', 'kW'), 7.943e-03), ((39, 'dB', 'AR'), 8.913e+01), ((39, 'Np', 'PR'), 7.498e+33),
            ((39, 'dBOhm', 'Ohm'), 8.913e+01), ((39, 'dBSIL', 'W/m2'), 7.943e-09), ((3, 'A', 'dBA'), 9.542),
            ((20, 'Cel', 'K'), 293.15), ((0, 'degF', 'Cel'), -17.7777777), ((300, 'K', 'degF'), 80.33), ((1, 'kK', 'Cel'), 726.85)]
    for (x, a, b), want in docs:
        evals += 1
        distinct.add((a, b, "doc"))
        got = Quantity(x, a).value(b)
        if not close(got, want, 2e-4):
            bad("documented-example", "differs from the documented value", x=x, unit_from=a, unit_to=b, got=got, want=want)
    K = {'K': (lambda x: x, lambda k: k), 'Cel': (lambda x: x + 273.15, lambda k: k - 273.15),
         'degF': (lambda x: (x + 459.67) * 5 / 9, lambda k: k * 9 / 5 - 459.67), 'degR': (lambda x: x * 5 / 9, lambda k: k * 9 / 5)}
    n = 40 if tier == "quick" else 400
    for i in range(n):
        a, b = rng.choice(list(K)), rng.choice(list(K))
        x = rng.uniform(-200, 2000)
        evals += 1
        distinct.add((a, b, round(x, 6)))
        got = Quantity(x, a).value(b)
        want = K[b][1](K[a][0](x))
        if abs(got - want) > 1e-9 * (abs(want) + 1000):
            bad("temperature/formula", "differs from the affine formula", x=x, unit_from=a, unit_to=b, got=got, want=want)
        back = Quantity(got, b).value(a)
        if abs(back - x) > 1e-9 * (abs(x) + 1000):
            bad("temperature/round-trip", "round trip differs", x=x, unit_from=a, unit_to=b, got=back)
    LEV = {"Bm": (1, "W", 1e-3), "BW": (1, "W", 1.0), "BV": (2, "V", 1.0), "BuV": (2, "V", 1e-6), "BA": (2, "A", 1.0),
           "BuA": (2, "A", 1e-6), "BOhm": (2, "Ohm", 1.0), "BSPL": (2, "Pa", 20e-6), "BSIL": (1, "W/m2", 1e-12), "BSWL": (1, "W", 1e-12)}
    for i in range(n):
        lv = rng.choice(list(LEV))
        k, lin, ref = LEV[lv]
        x = 10 ** rng.uniform(-6, 6)
        evals += 1
        distinct.add((lv, round(math.log10(x), 6)))
        got = Quantity(x, lin).value("d" + lv)
        want = 10 * k * math.log10(x / ref)
        if abs(got - want) > 1e-9 * (abs(want) + 1):
            bad("level/formula", "differs from 10k log10(X/Xref)", x=x, unit_from=lin, unit_to="d" + lv, got=got, want=want)
        back = Quantity(got, "d" + lv).value(lin)
        if not close(back, x, 1e-9):
            bad("level/round-trip", "round trip differs", x=x, unit=lv, got=back)
    for i in range(n):
        u = rng.choice(["dB", "dBm", "dBA", "B", "dBV"])
        f = 0.1 if u.startswith("d") else 1.0
        a, b = rng.uniform(0, 90) * (1 if f == 0.1 else 0.1), rng.uniform(0, 90) * (1 if f == 0.1 else 0.1)
        evals += 1
        distinct.add((u, round(a, 6), round(b, 6)))
        got = (Quantity(a, u) + Quantity(b, u)).value()
        want = math.log10(10 ** (a * f) + 10 ** (b * f)) / f
        if not close(got, want, 1e-9):
            bad("level/sum", "a+b is not the power sum", a=a, b=b, unit=u, got=got, want=want)
        p = Quantity(a, u)
        got = (p + p).value()
        want = math.log10(2 * 10 ** (a * f)) / f
        if not close(got, want, 1e-9):
            bad("level/sum-same-object", "p+p is not the power sum", a=a, unit=u, got=got, want=want)
        if a > b + 1e-3:
            got = (Quantity(a, u) - Quantity(b, u)).value()
            want = math.log10(10 ** (a * f) - 10 ** (b * f)) / f
            if not close(got, want, 1e-7):
                bad("level/difference", "a-b is not the power difference", a=a, b=b, unit=u, got=got, want=want)
    samples = [dict(doc_example="Quantity(39,'dBm').value('kW') ~ 7.943e-03"), dict(random="temperature pair, level/linear pair, level sum per iteration")]
    return dict(scope=f"{len(docs)} documented examples, {n} random temperature pairs, {n} random level/linear values, {n} level sums/differences (incl. p+p)",
                evaluations=evals, distinct_nontrivial=len(distinct),
                rule="distinct = (unit pair, value); each through the real Quantity against math.log10/affine formulas (rel 1e-9)",
                samples=samples, violations=viol)
