from bounded.materials import run_c11 as run
