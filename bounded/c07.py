from bounded.units_ops import run_c07 as run
