"""Sidecar contracts on the real functions of /repo.

A contract names its target by file and qualified name; the verifier looks the function up in the
AST parsed from /repo on every run.  Clause bodies are Python expressions (strings).  The same text
is (a) interpreted symbolically by pyvc to generate proof obligations and (b) evaluated natively by
CPython when a counter-model is replayed against the real code or when the bounded stand-in runs.
Spec functions are ordinary Python functions defined in the contract module; pyvc interprets their
source with the same interpreter as the code under verification.
"""
import ast
import inspect
import textwrap

REGISTRY = []


class LoopSpec:
    def __init__(self, ordinal):
        self.ordinal = ordinal
        self.invariants = []   # (label, expr)
        self.modifies = []     # l-value expressions / local names
        self.decreases = None
        self.kinds = {}

    def invariant(self, expr, label=None):
        self.invariants.append((label or f"inv{len(self.invariants)}", expr))
        return self

    def frame(self, *targets, **kinds):
        self.modifies.extend(targets)
        self.kinds.update(kinds)
        return self

    def variant(self, expr):
        self.decreases = expr
        return self


class Contract:
    def __init__(self, target, props, module_ns, name=None):
        self.target = target
        self.props = list(props)
        self.ns = module_ns
        self.name = name or target
        self.scenarios = []        # (name, builder)
        self.requires_ = []        # expr
        self.ensures_ = []         # (label, expr)
        self.raises_ = []          # (label, exc_names|None, when_expr)   exceptional exit  <=>  when
        self.on_raise_ = []        # (label, expr) must hold at every exceptional exit
        self.modifies_ = None      # list of l-value exprs, None = frame not checked
        self.yields_ = []          # (label, expr) over y
        self.loops = {}
        self.fresh_result_ = []    # (label, path-expr) result parts that must be freshly allocated
        self.native_call = None    # callable(args: dict) -> result, for replay (default: real function)
        self.bounded_inputs = None  # callable(rng, tier) -> iterable of {symbol name: value}
        self.nontrivial = None
        self.modular = None        # ModularSpec when callers may use this contract instead of the body
        self.extra_axioms = None
        self.note = ""
        self.allow_unsupported_paths = False
        self.lemma_only = False

    # ---- clauses
    def scenario(self, name, builder):
        self.scenarios.append((name, builder))
        return self

    def requires(self, expr):
        self.requires_.append(expr)
        return self

    def ensures(self, expr, label=None):
        self.ensures_.append((label or f"ensures[{len(self.ensures_)}]", expr))
        return self

    def raises(self, when, exc=None, label=None):
        """exceptional exit (of a type in `exc`, any when None) happens exactly when `when` holds in the
        pre-state"""
        self.raises_.append((label or f"raises[{len(self.raises_)}]", exc, when))
        return self

    def no_raise(self):
        return self.raises("False", label="no-raise")

    def on_raise(self, expr, label=None):
        self.on_raise_.append((label or f"on-raise[{len(self.on_raise_)}]", expr))
        return self

    def modifies(self, *targets):
        self.modifies_ = list(targets)
        return self

    def yields(self, expr, label=None):
        self.yields_.append((label or f"yields[{len(self.yields_)}]", expr))
        return self

    def loop(self, ordinal):
        if ordinal not in self.loops:
            self.loops[ordinal] = LoopSpec(ordinal)
        return self.loops[ordinal]

    def fresh(self, expr, label=None, each=False):
        """the object `expr` denotes in the post-state was allocated by the call (not reachable from the arguments);
        with each=True `expr` denotes a list whose every element must be such an object"""
        self.fresh_result_.append((label or f"fresh[{len(self.fresh_result_)}]", ("each:" if each else "") + expr))
        return self

    def use_at_call_sites(self, result=None, kinds=None):
        """modular verification: callers are checked against this contract, not against the body.
        `result` builds the (fresh, symbolic) return value; `kinds` gives scalar kinds of havoced fields."""
        self.modular = dict(result=result, kinds=kinds or {})
        return self

    def spec_functions(self):
        """python functions of the contract module usable in clauses (name -> source AST)"""
        out = {}
        for k, v in self.ns.items():
            if inspect.isfunction(v) and getattr(v, "__pyvc_spec__", False):
                out[k] = v
        return out


def spec(fn):
    """marks a function of a contract module as a specification function"""
    fn.__pyvc_spec__ = True
    return fn


def contract(target, props, name=None):
    def deco(fn):
        c = Contract(target, props if isinstance(props, (list, tuple)) else [props], fn.__globals__, name)
        fn(c)
        REGISTRY.append(c)
        return c
    return deco


class Lemma:
    """a fact stated purely over specification functions and symbols (no code): proved once by the
    solver and listed as an obligation of the properties it supports"""

    def __init__(self, name, props, builder, claim, assumes=(), ns=None):
        self.name = name
        self.props = list(props)
        self.builder = builder
        self.claim = claim
        self.assumes = list(assumes)
        self.ns = ns


LEMMAS = []


def lemma(name, props, builder, claim, assumes=(), ns=None):
    l = Lemma(name, props if isinstance(props, (list, tuple)) else [props], builder, claim, assumes, ns)
    LEMMAS.append(l)
    return l


def spec_source(fn):
    src = textwrap.dedent(inspect.getsource(fn))
    tree = ast.parse(src)
    node = tree.body[0]
    node.decorator_list = []
    return node
