"""Lemmas: facts over specification functions and symbols only (no code)."""
import ast

from .interp import Ctx, Frame, Infeasible
from .values import Sym
from .builders import SymBuilder
from . import ops
from .verify import ObRes, parse_clause
from .contract import Contract


def prove_lemma(v, l):
    results = []
    work = [[]]
    dummy = Contract("<lemma>", l.props, l.ns or {}, l.name)
    n = 0
    while work:
        prefix = work.pop()
        n += 1
        if n > 200:
            results.append(ObRes(l.name, "unknown", "engine", 0, detail="path budget"))
            break
        ctx = Ctx(v.world, prefix=prefix, work=work)
        try:
            b = SymBuilder(ctx, v.world)
            call = l.builder(b)
            fr = v.spec_frame(dummy, ctx, {k: b.conv(x) for k, x in call.get("env", {}).items()})
            for a in l.assumes:
                node, _ = parse_clause(a)
                x = v.eval_spec(ctx, fr, node)
                if isinstance(x, Sym):
                    ctx.assume(ops.truth_term(x))
                elif not ctx.truthy(x):
                    raise Infeasible()
            node, _ = parse_clause(l.claim)
            g = v.eval_spec(ctx, fr, node)
            results.append(v.discharge(ctx, l.name, g, list(ctx.decisions), kind="lemma"))
        except Infeasible:
            pass
    return results
