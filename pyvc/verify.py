"""Verification driver: generates the proof obligations of a contract from the real source by
symbolic execution, discharges them, and replays counter-models against the real code."""
import ast
import copy as _copy
import hashlib
import importlib
import json
import os
import time
import traceback

import z3

from .values import *
from .interp import (World, Ctx, Frame, PyRaise, ReturnEx, PathEnd, Infeasible, Unsupported, SliceV)
from . import ops, smt
from .contract import Contract, spec_source
from .builders import SymBuilder, NativeBuilder

MAX_PATHS = int(os.environ.get("PYVC_MAX_PATHS", "4000"))


class ObRes:
    """result of one obligation on one path"""
    __slots__ = ("name", "status", "backend", "secs", "model", "path", "detail", "kind")

    def __init__(self, name, status, backend, secs, model=None, path=None, detail=None, kind="vc"):
        self.name, self.status, self.backend, self.secs = name, status, backend, secs
        self.model, self.path, self.detail, self.kind = model, path, detail, kind


class _OldRewriter(ast.NodeTransformer):
    def __init__(self):
        self.olds = []

    def visit_Call(self, node):
        if isinstance(node.func, ast.Name) and node.func.id == "old" and len(node.args) == 1:
            k = len(self.olds)
            self.olds.append(node.args[0])
            return ast.copy_location(ast.Name(id=f"__old_{k}", ctx=ast.Load()), node)
        return self.generic_visit(node)


def parse_clause(expr):
    tree = ast.parse(expr.strip(), mode="eval")
    rw = _OldRewriter()
    body = rw.visit(tree.body)
    ast.fix_missing_locations(body)
    return body, rw.olds


class Verifier:
    def __init__(self, world=None, contracts=None):
        self.world = world or World()
        self.spec_module_cache = {}
        self.modular = {}
        self.world.contract_hook = self.call_hook
        self.world.verifier = self
        for c in contracts or []:
            self.register_modular(c)

    # ---- modular calls: a callee under contract is replaced by its contract at call sites --------
    def register_modular(self, c):
        if c.modular is None:
            return
        fv = self.world.lookup(c.target)
        self.modular[id(fv.node)] = c

    def call_hook(self, ctx, fn, args, kwargs):
        c = self.modular.get(id(fn.node))
        if c is None or ctx.spec_mode:
            return NotImplemented
        # ground calls (no symbolic state reachable from the arguments) are evaluated by executing the
        # real body; the contract stands in only where the call is symbolic
        if not any(self.deep_sym(ctx, a) for a in list(args) + list(kwargs.values())):
            return NotImplemented
        return self.apply_contract(ctx, c, fn, args, kwargs)

    def deep_sym(self, ctx, v, depth=4, seen=None):
        if isinstance(v, Sym):
            return True
        if depth == 0:
            return False
        if isinstance(v, tuple):
            return any(self.deep_sym(ctx, x, depth - 1, seen) for x in v)
        if isinstance(v, Ref):
            seen = seen if seen is not None else set()
            if v.id in seen:
                return False
            seen.add(v.id)
            c = ctx.cell(v)
            if isinstance(c, HObj):
                return any(self.deep_sym(ctx, x, depth - 1, seen) for x in c.fields.values())
            if isinstance(c, HList):
                return c.items is None or any(self.deep_sym(ctx, x, depth - 1, seen) for x in c.items)
            if isinstance(c, HDict):
                return any(self.deep_sym(ctx, x, depth - 1, seen) for x in c.d.values())
        return False

    def apply_contract(self, ctx, c, fn, args, kwargs):
        from .loops import havoc
        bindings = ctx.bind(fn, args, kwargs)
        sfr = self.spec_frame(c, ctx, bindings)
        sink = ctx.obligation_sink
        tag = f"call[{fn.qualname}]"
        ctx.assumed.add(f"call of {c.target} replaced by its contract (verified separately)")
        for k, r in enumerate(c.requires_):
            node, _ = parse_clause(r)
            v = self.eval_spec(ctx, sfr, node)
            if sink is not None:
                sink.check(ctx, f"{tag}/pre[{k}]", v)
            if isinstance(v, Sym):
                ctx.assume(ops.truth_term(v))
            elif not ctx.truthy(v):
                raise Infeasible()
        parsed = []
        for lab, e in c.ensures_:
            node, olds = parse_clause(e)
            for k, o in enumerate(olds):
                sfr.locals[f"__old_{k}"] = self.snapshot(ctx, self.eval_spec(ctx, sfr, o))
            # evaluate old() of this clause now: rename per clause
            for n in ast.walk(node):
                if isinstance(n, ast.Name) and n.id.startswith("__old_") and n.id.count("_") == 3:
                    new = f"{n.id}_{lab}"
                    sfr.locals[new] = sfr.locals[n.id]
                    n.id = new
            parsed.append((lab, node))
        # exceptional behaviour: raise exactly when the stated condition holds
        for lab, excs, when in c.raises_:
            node, _ = parse_clause(when)
            w = self.eval_spec(ctx, sfr, node)
            if ctx.truthy(w):
                ctx.raise_exc((excs or ["Exception"])[0], (f"raised by contract of {fn.qualname}",))
        class _Spec:
            kinds = c.modular.get("kinds", {})
        for t in (c.modifies_ or []):
            havoc(ctx, sfr, t, _Spec)
        result = None
        if c.modular.get("result") is not None:
            result = c.modular["result"](_FreshBuilder(ctx, self.world))
        sfr.locals["result"] = result
        for lab, node in parsed:
            v = self.eval_spec(ctx, sfr, node)
            if isinstance(v, Sym):
                ctx.assume(ops.truth_term(v))
            elif not ctx.truthy(v):
                raise Infeasible()
        return result

    # ---- spec environment ---------------------------------------------------------------------
    def spec_frame(self, contract, ctx, bindings):
        """frame in which clause expressions are evaluated: bindings + spec functions + helpers"""
        key = id(contract.ns)
        from .interp import ModuleVal
        if key not in self.spec_module_cache:
            mv = ModuleVal("<spec>", "<spec>")
            mv.is_pkg = False
            fr0 = Frame(mv, mv.globals, None)
            for name, fn in contract.spec_functions().items():
                node = spec_source(fn)
                fv = FuncVal(node, mv, name, None, None)
                fv.defaults = []
                for d in node.args.defaults:
                    fv.defaults.append(ast.literal_eval(d))
                fv.kw_defaults = []
                fv.is_gen = False
                mv.globals[name] = fv
            # plain constants of the contract module are visible to clauses and spec functions
            for name, v in contract.ns.items():
                if name not in mv.globals and isinstance(v, (int, float, str, bool, tuple)) and not name.startswith("__"):
                    mv.globals[name] = v
            from .specfns import install_spec_helpers
            install_spec_helpers(mv.globals)
            self.spec_module_cache[key] = mv
        mv = self.spec_module_cache[key]
        return Frame(mv, dict(bindings), None)

    def eval_spec(self, ctx, fr, node):
        ctx.spec_mode += 1
        try:
            return ctx.eval(node, fr)
        finally:
            ctx.spec_mode -= 1

    # ---- snapshots for old(...) --------------------------------------------------------------
    def snapshot(self, ctx, v, memo=None):
        memo = {} if memo is None else memo
        if isinstance(v, Ref):
            if v.id in memo:
                return memo[v.id]
            c = ctx.cell(v)
            if isinstance(c, HObj):
                n = HObj(c.cls)
                r = ctx.alloc(n)
                memo[v.id] = r
                n.fields = {k: self.snapshot(ctx, x, memo) for k, x in c.fields.items()}
                return r
            if isinstance(c, HList):
                n = HList(items=None, seq=c.seq, ek=c.ek)
                r = ctx.alloc(n)
                memo[v.id] = r
                if c.items is not None:
                    n.items = [self.snapshot(ctx, x, memo) for x in c.items]
                return r
            if isinstance(c, HDict):
                n = HDict()
                r = ctx.alloc(n)
                memo[v.id] = r
                n.d = {k: self.snapshot(ctx, x, memo) for k, x in c.d.items()}
                return r
            if isinstance(c, HSet):
                r = ctx.alloc(HSet(set(c.s)))
                memo[v.id] = r
                return r
            return v
        if isinstance(v, tuple):
            return tuple(self.snapshot(ctx, x, memo) for x in v)
        return v

    # ---- running one contract -----------------------------------------------------------------
    def target_func(self, contract):
        return self.world.lookup(contract.target)

    def loop_nodes(self, fv):
        loops = [n for n in ast.walk(fv.node) if isinstance(n, (ast.While, ast.For))]
        loops.sort(key=lambda n: (n.lineno, n.col_offset))
        return loops

    def run_contract(self, contract, scenario_filter=None, max_paths=None):
        """returns dict with per-obligation aggregated results for every scenario"""
        fv = self.target_func(contract)
        if isinstance(fv, BoundMethod):
            fv = fv.func
        results = []
        info = {"paths": 0, "infeasible": 0, "assumed": set(), "unsupported": [], "exits": {}}
        src = ast.unparse(fv.node) if isinstance(fv, FuncVal) else ""
        info["source_sha256"] = hashlib.sha256(src.encode()).hexdigest()
        info["source_lines"] = len(src.splitlines())
        for sname, builder in contract.scenarios:
            if scenario_filter and sname not in scenario_filter:
                continue
            self.run_scenario(contract, fv, sname, builder, results, info, max_paths or MAX_PATHS)
        return results, info

    def run_scenario(self, contract, fv, sname, builder, results, info, max_paths):
        work = [[]]
        npaths = 0
        loopmap = {}
        if isinstance(fv, FuncVal):
            loops = self.loop_nodes(fv)
            for ordinal, ls in contract.loops.items():
                if ordinal >= len(loops):
                    results.append(ObRes(f"{sname}/loop[{ordinal}]/exists", "unknown", "engine", 0,
                                         detail="loop ordinal not found in the current source"))
                    continue
                loopmap[(fv.qualname, id(loops[ordinal]))] = ls
        vac_checked = False
        while work:
            prefix = work.pop()
            npaths += 1
            if npaths > max_paths:
                results.append(ObRes(f"{sname}/paths", "unknown", "engine", 0, detail="path budget exhausted"))
                break
            ctx = Ctx(self.world, prefix=prefix, work=work)
            ctx.loop_contracts = loopmap
            sink = _Sink(self, contract, sname, results)
            ctx.obligation_sink = sink
            try:
                self.run_path(contract, fv, sname, builder, ctx, sink, results, info, not vac_checked)
                # the precondition has to be satisfiable on SOME path through the pre-state (the builder itself may branch)
                vac_checked = any(r.kind == "vacuity" and r.status == "proved" and r.name == f"{sname}/requires-satisfiable" for r in results)
            except Infeasible:
                info["infeasible"] += 1
            except Unsupported as e:
                info["unsupported"].append(f"{sname}: {e}")
                results.append(ObRes(f"{sname}/supported", "unknown", "engine", 0, path=list(ctx.decisions),
                                     detail=f"unsupported construct: {e}"))
            finally:
                ctx.kill_generators()
            info["assumed"] |= ctx.assumed
        info["paths"] += npaths
        vac = [r for r in results if r.kind == "vacuity" and r.name == f"{sname}/requires-satisfiable"]
        if len(vac) > 1:
            keep = next((r for r in vac if r.status == "proved"), vac[0])
            for r in vac:
                if r is not keep:
                    results.remove(r)

    def run_path(self, contract, fv, sname, builder, ctx, sink, results, info, check_vacuity):
        b = SymBuilder(ctx, self.world)
        if getattr(contract, "assume_nonzero_divisors", False):
            ctx.ghost["assume_nonzero_divisors"] = True
        try:
            call = builder(b)
        except PyRaise as ex:
            # the repository code that builds the pre-state raised on this path: no verdict about the function under contract
            results.append(ObRes(f"{sname}/pre-state", "unknown", "engine", 0, path=list(ctx.decisions),
                                 detail=f"building the pre-state raised {ex.exc.tname}{ex.exc.args!r} at {getattr(ex.exc, 'where', None)}"))
            return
        info.setdefault("symbols", {})[sname] = dict(b.names)   # input symbols of the scenario (used by the CPython cross-check)
        args = [b.conv(a) for a in call.get("args", [])]
        kwargs = {k: b.conv(v) for k, v in call.get("kwargs", {}).items()}
        extra = {k: b.conv(v) for k, v in call.get("env", {}).items()}
        if isinstance(fv, FuncVal):
            bindings = ctx.bind(fv, args, kwargs)
        else:
            bindings = {}
        bindings.update(extra)
        sink.bindings = bindings
        sfr = self.spec_frame(contract, ctx, bindings)
        sink.sfr = sfr
        # preconditions
        for r in contract.requires_:
            node, olds = parse_clause(r)
            v = self.eval_spec(ctx, sfr, node)
            if isinstance(v, Sym):
                ctx.assume(ops.truth_term(v))
            elif not ctx.truthy(v):
                raise Infeasible()
        if contract.extra_axioms:
            for t in contract.extra_axioms(ctx, b):
                ctx.axioms.append(t)
        if check_vacuity:
            st, _, be, dt = smt.check_sat(ctx.pc + ctx.axioms, timeout_ms=5000, use_cvc5=False)
            results.append(ObRes(f"{sname}/requires-satisfiable", "proved" if st == "sat" else ("violated" if st == "unsat" else "unknown"),
                                 be, dt, kind="vacuity", detail="precondition of the scenario is satisfiable"))
        # old(...) snapshots
        clauses = []
        for lab, e in contract.ensures_:
            clauses.append(("ensures", lab, e))
        for lab, e in contract.on_raise_:
            clauses.append(("on_raise", lab, e))
        for lab, exc, e in contract.raises_:
            clauses.append(("raises", lab, e))
        for lab, e in contract.yields_:
            clauses.append(("yields", lab, e))
        parsed = {}
        for kind, lab, e in clauses:
            node, olds = parse_clause(e)
            for k, o in enumerate(olds):
                sfr.locals[f"__old_{k}_{kind}_{lab}"] = self.snapshot(ctx, self.eval_spec(ctx, sfr, o))
            # rename the placeholders so that different clauses do not collide
            for n in ast.walk(node):
                if isinstance(n, ast.Name) and n.id.startswith("__old_") and n.id.count("_") == 3:
                    n.id = f"{n.id}_{kind}_{lab}"
            parsed[(kind, lab)] = node
        sink.parsed = parsed
        # raises-conditions are evaluated in the pre-state
        raise_when = {}
        for lab, exc, e in contract.raises_:
            raise_when[lab] = (exc, self.eval_spec(ctx, sfr, parsed[("raises", lab)]))
        # frame: locations that may be written
        allowed = None
        if contract.modifies_ is not None:
            allowed = self.resolve_frame(ctx, sfr, contract.modifies_)
        ctx.entry_id = ctx.next_id
        ctx.writes = {}
        exit_kind, result, exc = "normal", None, None
        try:
            if isinstance(fv, FuncVal):
                result = ctx.call_func(fv, args, kwargs, eager_generator=True)
            else:
                result = ctx.call(fv, args, kwargs)
        except PyRaise as e:
            exit_kind, exc = "raise", e.exc
        except PathEnd:
            return
        entry_id = ctx.entry_id
        ctx.entry_id = None
        info["exits"][exit_kind] = info["exits"].get(exit_kind, 0) + 1
        sfr.locals["result"] = result
        path = list(ctx.decisions)
        if exit_kind == "normal":
            for lab, e in contract.ensures_:
                try:
                    v = self.eval_spec(ctx, sfr, parsed[("ensures", lab)])
                except PyRaise as ex:
                    r = self.discharge(ctx, f"{sname}/{lab}", False, path)
                    r.detail = f"the clause itself raised {ex.exc.tname}{ex.exc.args!r} on this exit (post-state outside the shape the clause describes)"
                    results.append(r)
                    continue
                results.append(self.discharge(ctx, f"{sname}/{lab}", v, path))
            for lab, pexpr in contract.fresh_result_:
                each = pexpr.startswith("each:")
                node, _ = parse_clause(pexpr[5:] if each else pexpr)
                v = self.eval_spec(ctx, sfr, node)
                if each:
                    from .intrinsics import iterate
                    ok = all(isinstance(x, Ref) and x.id >= entry_id for x in iterate(ctx, v))
                else:
                    ok = isinstance(v, Ref) and v.id >= entry_id
                results.append(self.discharge(ctx, f"{sname}/{lab}", ok, path, kind="fresh"))
        else:
            sfr.locals["exc_type"] = exc.tname
            for lab, e in contract.on_raise_:
                v = self.eval_spec(ctx, sfr, parsed[("on_raise", lab)])
                results.append(self.discharge(ctx, f"{sname}/{lab}", v, path))
        for lab, (excs, when) in raise_when.items():
            # exceptional exit <=> when
            if exit_kind == "raise":
                hit = excs is None or exc.tname in excs
                goal = when if hit else False
                r = self.discharge(ctx, f"{sname}/{lab}", goal, path)
                if r.status != "proved":
                    r.detail = (r.detail or "") + f" [exit: raise {exc.tname}{exc.args!r}]"
                results.append(r)
            else:
                if isinstance(when, Sym):
                    goal = ops.mk(z3.Not(ops.truth_term(when)), "bool")
                else:
                    goal = not ctx.truthy(when)
                r = self.discharge(ctx, f"{sname}/{lab}", goal, path)
                if r.status != "proved":
                    r.detail = (r.detail or "") + " [exit: normal although the contract requires an exception]"
                results.append(r)
        if allowed is not None:
            bad = [loc for loc in ctx.writes if loc not in allowed and (loc[0], "*") not in allowed]
            bad = [loc for loc in bad if not self.write_is_identity(ctx, loc)]
            r = self.discharge(ctx, f"{sname}/frame", not bad, path, kind="frame")
            if bad:
                r.detail = "writes outside modifies: " + ", ".join(self.describe_loc(ctx, sfr, l) for l in bad)
            results.append(r)

    def write_is_identity(self, ctx, loc):
        """a recorded write that left the location with its entry value is not a modification"""
        from .interp import _NOFIELD
        i, field = loc
        old = ctx.writes.get(loc)
        cur = ctx.cell(Ref(i))

        def same(a, b):
            if a is b:
                return True
            if isinstance(a, Ref) and isinstance(b, Ref):
                return a.id == b.id
            if isinstance(a, (Sym, Ref)) or isinstance(b, (Sym, Ref)):
                return False
            try:
                return type(a) is type(b) and bool(a == b)
            except Exception:
                return False
        if isinstance(cur, HObj) and field == "__dict__":
            return isinstance(old, dict) and list(cur.fields.keys()) == list(old.keys()) and all(same(cur.fields[k], old[k]) for k in old)
        if isinstance(cur, HObj):
            return same(cur.fields.get(field, _NOFIELD), old)
        if isinstance(cur, HList) and isinstance(old, tuple):
            if cur.items is None or old[0] is None:
                return cur.items is None and old[0] is None and cur.seq is old[1]
            return len(cur.items) == len(old[0]) and all(same(x, y) for x, y in zip(cur.items, old[0]))
        if isinstance(cur, HDict) and isinstance(old, dict):
            return list(cur.d.keys()) == list(old.keys()) and all(same(cur.d[k], old[k]) for k in old)
        if isinstance(cur, HSet) and isinstance(old, set):
            return cur.s == old
        return False

    def describe_loc(self, ctx, sfr, loc):
        i, field = loc
        for name, v in sfr.locals.items():
            if isinstance(v, Ref) and v.id == i and not name.startswith("__"):
                return f"{name}.{field}"
            if isinstance(v, Ref):
                c = ctx.cell(v)
                if isinstance(c, HObj):
                    for fn, fvv in c.fields.items():
                        if isinstance(fvv, Ref) and fvv.id == i:
                            return f"{name}.{fn}.{field}"
        for mn, m in self.world.modules.items():
            for g, v in m.globals.items():
                if isinstance(v, Ref) and v.id == i:
                    return f"{mn}.{g}.{field}"
                if isinstance(v, Ref):
                    c = ctx.cell(v)
                    if isinstance(c, HObj):
                        for fn, fvv in c.fields.items():
                            if isinstance(fvv, Ref) and fvv.id == i:
                                return f"{mn}.{g}.{fn}.{field}"
        return f"#{i}.{field}"

    def resolve_frame(self, ctx, sfr, targets):
        allowed = set()
        for t in targets:
            t = t.strip()
            if t.endswith("[]") or t.endswith("{}"):
                o = self.eval_spec(ctx, sfr, ast.parse(t[:-2], mode="eval").body)
                if isinstance(o, Ref):
                    allowed.add((o.id, t[-2:]))
                continue
            if t.endswith(".*"):
                o = self.eval_spec(ctx, sfr, ast.parse(t[:-2], mode="eval").body)
                if isinstance(o, Ref):
                    allowed.add((o.id, "*"))
                continue
            node = ast.parse(t, mode="eval").body
            if isinstance(node, ast.Attribute):
                o = self.eval_spec(ctx, sfr, node.value)
                if isinstance(o, Ref):
                    allowed.add((o.id, node.attr))
            else:
                raise ValueError("modifies target must be an attribute path, x[] or x.*: " + t)
        return allowed

    def discharge(self, ctx, name, goal, path, kind="vc"):
        """goal: python bool or Sym bool evaluated on the current path"""
        t0 = time.time()
        if isinstance(goal, Sym):
            gt = ops.truth_term(goal)
        elif isinstance(goal, (bool,)) or goal is None or isinstance(goal, (int,)):
            if bool(goal):
                return ObRes(name, "proved", "ground-evaluation", 0.0, path=path, kind=kind)
            gt = z3.BoolVal(False)
        else:
            try:
                ok = ctx.truthy(goal)
            except Exception:
                ok = False
            if ok:
                return ObRes(name, "proved", "ground-evaluation", 0.0, path=path, kind=kind)
            gt = z3.BoolVal(False)
        st, model, be, dt = smt.check_sat(ctx.pc + ctx.axioms + [z3.Not(gt)], want_model=True)
        if st == "unsat":
            return ObRes(name, "proved", be, dt, path=path, kind=kind)
        if st == "sat":
            m = {}
            if model is not None:
                for d in model.decls():
                    if d.arity() == 0:
                        m[d.name()] = _model_value(model[d])
            return ObRes(name, "violated", be, dt, model=m, path=path, kind=kind,
                         detail="counter-model of the negated obligation under the path condition")
        return ObRes(name, "unknown", be, dt, path=path, kind=kind, detail="solver returned unknown / timeout")


_MISSING = object()


def _model_value(v):
    if z3.is_int_value(v):
        return v.as_long()
    if z3.is_rational_value(v):
        return {"num": v.numerator_as_long(), "den": v.denominator_as_long()}
    if z3.is_true(v):
        return True
    if z3.is_false(v):
        return False
    if z3.is_string_value(v):
        return v.as_string()
    if z3.is_algebraic_value(v):
        return {"approx": v.approx(12).as_decimal(12)}
    if z3.is_seq(v) and not z3.is_string(v):
        try:
            n = z3.simplify(z3.Length(v)).as_long()
            return [_model_value(z3.simplify(v[i])) for i in range(n)]
        except Exception:
            return str(v)
    return str(v)


class _FreshBuilder(SymBuilder):
    """builder for contract results at call sites: every symbol gets a path-unique name"""

    def _sym(self, name, kind):
        return self.ctx.fresh(kind, name)

    def seq(self, name, ek):
        self.ctx.fresh_n += 1
        sort = z3.SeqSort(ops.elem_sort(ek))
        return self.ctx.alloc(HList(items=None, seq=z3.Const(f"{name}!{self.ctx.fresh_n}", sort), ek=ek))


class _Sink:
    """receives obligations that arise in the middle of a path (loop invariants, yields, call
    preconditions)"""

    def __init__(self, verifier, contract, sname, results):
        self.v = verifier
        self.contract = contract
        self.sname = sname
        self.results = results
        self.sfr = None
        self.parsed = {}
        self.bindings = {}

    def check(self, ctx, name, goal, kind="vc"):
        r = self.v.discharge(ctx, f"{self.sname}/{name}", goal, list(ctx.decisions), kind=kind)
        self.results.append(r)
        return r

    def on_yield(self, ctx, fr, value):
        if not self.contract.yields_:
            return
        if fr.func is None or fr.func.qualname != self.v.target_func(self.contract).qualname:
            return
        sfr = Frame(self.sfr.module, dict(self.sfr.locals), None)
        sfr.locals["y"] = value
        for lab, e in self.contract.yields_:
            v = self.v.eval_spec(ctx, sfr, self.parsed[("yields", lab)])
            self.check(ctx, lab, v)

    def eval_in_code_frame(self, ctx, fr, expr):
        """evaluate a loop-clause: code locals shadow nothing of the spec namespace"""
        node, olds = parse_clause(expr)
        locs = dict(self.sfr.locals)
        f = fr
        chain = []
        while f is not None:
            chain.append(f)
            f = f.closure
        for f in reversed(chain):
            locs.update(f.locals)
        sfr = Frame(self.sfr.module, locs, None)
        return self.v.eval_spec(ctx, sfr, node)
