"""Solver access: z3 in-process first, cvc5 (CLI, SMT-LIB2) for what z3 leaves unknown."""
import os
import subprocess
import tempfile
import time
import z3

Z3_TIMEOUT_MS = int(os.environ.get("PYVC_Z3_TIMEOUT_MS", "10000"))
CVC5_TIMEOUT_S = int(os.environ.get("PYVC_CVC5_TIMEOUT_S", "20"))
FEAS_TIMEOUT_MS = 2000

STATS = {"z3_queries": 0, "z3_time": 0.0, "cvc5_queries": 0, "cvc5_time": 0.0, "feas_queries": 0,
         "cvc5_confirmed": 0, "cvc5_unconfirmed": 0, "cvc5_disagreed": 0}
# thorough tier: every CONFIRM_EVERY-th obligation that z3 proves is sent to cvc5 as well (two independent solvers agree)
CONFIRM_EVERY = int(os.environ.get("PYVC_CVC5_CONFIRM_EVERY", "0" if os.environ.get("PYVC_TIER", "quick") != "thorough" else "40"))
_confirm_counter = [0]

# uninterpreted functions shared by all encodings (named, listed in evidence when used)
_UF = {}


def uf(name, *sorts):
    if name not in _UF:
        _UF[name] = z3.Function(name, *sorts)
    return _UF[name]


def simp(t):
    return z3.simplify(t)


def is_true(t):
    return z3.is_true(t)


def is_false(t):
    return z3.is_false(t)


def check_sat(constraints, timeout_ms=None, want_model=False, use_cvc5=True):
    """returns (status, model, backend, seconds); status in sat|unsat|unknown"""
    t0 = time.time()
    s = z3.Solver()
    s.set("timeout", timeout_ms or Z3_TIMEOUT_MS)
    for c in constraints:
        s.add(c)
    r = s.check()
    dt = time.time() - t0
    STATS["z3_queries"] += 1
    STATS["z3_time"] += dt
    if r == z3.sat:
        return "sat", (s.model() if want_model else None), "z3", dt
    if r == z3.unsat:
        if CONFIRM_EVERY and use_cvc5 and want_model:
            _confirm_counter[0] += 1
            if _confirm_counter[0] % CONFIRM_EVERY == 0:
                st2, out2, dt2 = cvc5_check(s.to_smt2())
                if st2 == "unsat":
                    STATS["cvc5_confirmed"] += 1
                    return "unsat", None, "z3+cvc5", dt + dt2
                if st2 == "sat":
                    STATS["cvc5_disagreed"] += 1
                    return "unknown", None, "z3-unsat/cvc5-sat", dt + dt2
                STATS["cvc5_unconfirmed"] += 1
        return "unsat", None, "z3", dt
    if not use_cvc5:
        return "unknown", None, "z3", dt
    st, out, dt2 = cvc5_check(s.to_smt2())
    return st, None, "cvc5", dt + dt2


def feasible(constraints):
    """quick satisfiability probe for path conditions; unknown counts as feasible"""
    STATS["feas_queries"] += 1
    s = z3.Solver()
    s.set("timeout", FEAS_TIMEOUT_MS)
    for c in constraints:
        s.add(c)
    return s.check() != z3.unsat


def cvc5_check(smt2_text, models=False):
    t0 = time.time()
    STATS["cvc5_queries"] += 1
    text = smt2_text
    if "(set-logic" not in text:
        text = "(set-logic ALL)\n" + text
    if "(check-sat)" not in text:
        text += "\n(check-sat)\n"
    with tempfile.NamedTemporaryFile("w", suffix=".smt2", delete=False) as f:
        f.write(text)
        path = f.name
    try:
        cmd = ["/usr/bin/cvc5", "--strings-exp", f"--tlimit={CVC5_TIMEOUT_S * 1000}", path]
        p = subprocess.run(cmd, capture_output=True, text=True, timeout=CVC5_TIMEOUT_S + 5)
        out = (p.stdout + p.stderr).strip()
    except subprocess.TimeoutExpired:
        out = "timeout"
    finally:
        os.unlink(path)
    dt = time.time() - t0
    STATS["cvc5_time"] += dt
    first = out.splitlines()[0].strip() if out else ""
    if first in ("sat", "unsat"):
        return first, out, dt
    return "unknown", out, dt
