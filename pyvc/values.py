"""Value model of the symbolic executor.

Structure is concrete, scalars may be symbolic:
  * immutable Python values (int, float, str, bool, None, tuple, Decimal, numpy things) are used as
    they are; concrete operations on them are performed by CPython itself;
  * Sym      -- a z3 term of kind 'int' | 'real' | 'bool' | 'str';
  * Ref      -- reference to a heap cell: HObj (instance of a repo class), HList, HDict, HSet;
  * ClassVal / FuncVal / BoundMethod / Ext -- code objects (repo classes and functions are ASTs,
    Ext wraps a real Python object from outside the repository).
"""
import z3


class Sym:
    __slots__ = ("t", "k", "np")

    def __init__(self, t, k, np=False):
        self.t = t
        self.k = k
        self.np = np     # a boolean known to be a numpy.bool_ (result of a numpy predicate): not an instance of bool

    def __repr__(self):
        return f"Sym<{self.k}:{self.t}>"

    # a Sym must never silently take part in native Python control flow
    def __bool__(self):
        raise TypeError("symbolic value used in native boolean context: %r" % (self,))

    def __eq__(self, other):
        raise TypeError("symbolic value compared natively")

    def __hash__(self):
        return id(self)


class Ref:
    __slots__ = ("id",)

    def __init__(self, i):
        self.id = i

    def __repr__(self):
        return f"Ref#{self.id}"

    def __eq__(self, other):
        return isinstance(other, Ref) and other.id == self.id

    def __hash__(self):
        return hash(("Ref", self.id))


class HObj:
    kind = "obj"

    def __init__(self, cls):
        self.cls = cls
        self.fields = {}


class HList:
    kind = "list"

    def __init__(self, items=None, seq=None, ek=None):
        self.items = items  # python list of values, or None when symbolic
        self.seq = seq      # z3 Seq term when symbolic
        self.ek = ek        # element kind for symbolic sequences


class HDict:
    kind = "dict"

    def __init__(self, d=None):
        self.d = d if d is not None else {}


class HSet:
    kind = "set"

    def __init__(self, s=None):
        self.s = s if s is not None else set()


class HGen:
    """a generator expression that has not been consumed yet: its elements are evaluated when something iterates over it
    (all of them at that moment), so that exceptions and side effects of the element expressions happen at the
    consumer, as in CPython; a second iteration yields nothing"""
    kind = "gen"

    def __init__(self, thunk):
        self.thunk = thunk
        self.consumed = False


class HGenFn:
    """a generator object made by calling a generator function from interpreted code: its body runs in a thread of its own that
    is resumed for one item at a time (strict hand-over, never concurrently), so effects and exceptions of the body happen
    between the consumer's steps exactly as in CPython"""
    kind = "genfn"

    def __init__(self, fv, fr):
        import threading
        self.fv, self.fr = fv, fr
        self.thread = None
        self.done = False
        self.killed = False
        self.msg = None
        self.to_gen = threading.Semaphore(0)
        self.to_con = threading.Semaphore(0)


class HExc:
    """exception instance"""
    kind = "exc"

    def __init__(self, tname, args, pycls=None):
        self.tname = tname
        self.args = args
        self.pycls = pycls


class ClassVal:
    def __init__(self, name, node, module, bases):
        self.name = name
        self.node = node
        self.module = module
        self.bases = bases          # list of ClassVal | Ext
        self.attrs = {}             # class-level attributes (incl. FuncVal methods)
        self.ann = []               # annotated field names in order (dataclass support)
        self.is_dataclass = False
        self.static = set()
        self.mro = None

    def __repr__(self):
        return f"<class {self.name}>"

    def linear(self):
        if self.mro is None:
            out = [self]
            for b in self.bases:
                if isinstance(b, ClassVal):
                    for c in b.linear():
                        if c not in out:
                            out.append(c)
            self.mro = out
        return self.mro

    def lookup(self, name):
        for c in self.linear():
            if name in c.attrs:
                return c.attrs[name], c
        return None, None

    def issub(self, other):
        if isinstance(other, ClassVal):
            return other in self.linear()
        if isinstance(other, Ext):
            for c in self.linear():
                for b in c.bases:
                    if isinstance(b, Ext) and isinstance(b.obj, type) and isinstance(other.obj, type) \
                            and issubclass(b.obj, other.obj):
                        return True
            return other.obj is object
        return False

    def ext_base(self, pytype):
        for c in self.linear():
            for b in c.bases:
                if isinstance(b, Ext) and isinstance(b.obj, type) and issubclass(b.obj, pytype):
                    return True
        return False


class FuncVal:
    def __init__(self, node, module, qualname, closure=None, cls=None):
        self.node = node
        self.module = module
        self.qualname = qualname
        self.closure = closure
        self.cls = cls
        self.is_gen = None

    def __repr__(self):
        return f"<func {self.qualname}>"


class BoundMethod:
    def __init__(self, func, self_v):
        self.func = func
        self.self_v = self_v


class Ext:
    """a real Python object from outside the repository (module, function, class, constant)"""
    __slots__ = ("obj", "name")

    def __init__(self, obj, name=None):
        self.obj = obj
        self.name = name or getattr(obj, "__name__", repr(obj))

    def __repr__(self):
        return f"Ext<{self.name}>"

    def __eq__(self, other):
        return isinstance(other, Ext) and other.obj is self.obj

    def __hash__(self):
        return hash(("Ext", id(self.obj)))


class EnumMember:
    def __init__(self, cls, name, value):
        self.cls = cls
        self.name = name
        self.value = value

    def __repr__(self):
        return f"<{self.cls.name}.{self.name}>"


class SuperProxy:
    def __init__(self, cls, self_v):
        self.cls = cls
        self.self_v = self_v


class SpecFn:
    """intrinsic implemented in the executor (builtins, numpy models, spec helpers)"""
    def __init__(self, name, fn):
        self.name = name
        self.fn = fn

    def __repr__(self):
        return f"<intrinsic {self.name}>"


def is_sym(v):
    return isinstance(v, Sym)


def has_sym(v):
    if isinstance(v, Sym):
        return True
    if isinstance(v, tuple):
        return any(has_sym(x) for x in v)
    return False
