"""Fault injection for contracts about failure atomicity: mappings that raise a chosen exception at a chosen access.
Run by the pyvc interpreter (symbolically) and by CPython (replays, cross-check) from this same source."""


class FailingMapping:
    """behaves like the dict `data` except that reading the key `fail_key` raises `exc` (an exception instance)"""

    def __init__(self, data, fail_key, exc):
        self.data = data
        self.fail_key = fail_key
        self.exc = exc

    def __contains__(self, key):
        return key in self.data

    def __getitem__(self, key):
        if key == self.fail_key:
            raise self.exc
        return self.data[key]

    def __setitem__(self, key, value):
        self.data[key] = value

    def keys(self):
        return self.data.keys()
