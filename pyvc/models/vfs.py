"""Model of the part of the file system that contracts talk about: text files below /vfs/ as a map path -> text.
This source is run by the pyvc interpreter itself (like the code under contract), so file contents may be symbolic strings.
Assumptions stated in DESIGN.md: a file's size is the length of its text (one byte per character), writes are complete and in order,
nothing else touches the files."""
FILES = {}


class File:
    def __init__(self, path, mode='r'):
        self.path = path
        self.mode = mode
        self.closed = False
        if 'w' in mode:
            FILES[path] = ''
        elif 'a' in mode:
            if path not in FILES:
                FILES[path] = ''
        elif 'x' in mode:
            if path in FILES:
                raise FileExistsError(path)
            FILES[path] = ''
        elif path not in FILES:
            raise FileNotFoundError(path)

    def write(self, text):
        if self.closed:
            raise ValueError("I/O operation on closed file.")
        if 'r' in self.mode and '+' not in self.mode:
            raise OSError("not writable")
        FILES[self.path] = FILES[self.path] + text
        return len(text)

    def read(self):
        if self.closed:
            raise ValueError("I/O operation on closed file.")
        return FILES[self.path]

    def close(self):
        self.closed = True

    def __enter__(self):
        return self

    def __exit__(self, a, b, c):
        self.closed = True


def isfile(path):
    return path in FILES


def getsize(path):
    if path not in FILES:
        raise FileNotFoundError(path)
    return len(FILES[path])


def remove(path):
    if path not in FILES:
        raise FileNotFoundError(path)
    del FILES[path]
