"""Object lifetime for contracts about finalisers: `release(o)` is the moment CPython frees the object `o` -- its class's
`__del__`, when one is defined anywhere in the MRO, runs there with whatever it raises swallowed (CPython prints such an
exception and goes on).  A scenario calls it at the point where it drops its last reference; the engine itself has no
reference counts, so a finaliser runs only where a scenario says so.
Run by the pyvc interpreter (symbolically) and by CPython (replays, cross-check) from this same source."""


def release(o):
    fin = getattr(type(o), "__del__", None)
    if fin is None:
        return False
    try:
        fin(o)
    except Exception:
        pass
    return True
