"""numpy's process-wide floating-point error mode as a plain map, so that code which changes it (np.seterr) and does not put it
back is seen by the frame conditions as a write to state that outlives the call.  Run by the interpreter; the values only matter
as 'the same as before or not'."""
ERR = {'divide': 'warn', 'over': 'warn', 'under': 'ignore', 'invalid': 'warn'}


def seterr(all=None, divide=None, over=None, under=None, invalid=None):
    old = dict(ERR)
    if all is not None:
        for k in ('divide', 'over', 'under', 'invalid'):
            ERR[k] = all
    if divide is not None:
        ERR['divide'] = divide
    if over is not None:
        ERR['over'] = over
    if under is not None:
        ERR['under'] = under
    if invalid is not None:
        ERR['invalid'] = invalid
    return old


def geterr():
    return dict(ERR)
