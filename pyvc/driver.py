"""check driver: obligations -> solver -> replay -> bounded stand-in -> evidence / exit code"""
import concurrent.futures as cf
import hashlib
import importlib
import json
import os
import random
import sys
import time
import traceback

ROOT = os.path.dirname(os.path.dirname(os.path.abspath(__file__)))
_V = None
_MODS = None


def _load(mods):
    from . import contract as C
    C.REGISTRY.clear()
    C.LEMMAS.clear()
    for m in mods:
        if m in sys.modules:
            importlib.reload(sys.modules[m])
        else:
            importlib.import_module(m)
    # only what the listed modules define themselves: a contract module may import helpers from another contract module,
    # which registers that module's contracts as a side effect (and differently often in the parent and in a worker)
    keep = set(mods)
    return ([c for c in C.REGISTRY if c.ns.get("__name__") in keep],
            [l for l in C.LEMMAS if (l.ns or {}).get("__name__") in keep or l.ns is None])


def _worker_init(mods):
    global _V, _MODS
    sys.path.insert(0, ROOT)
    _MODS = _load(mods)


def _get_verifier():
    global _V
    if _V is None:
        from .verify import Verifier
        _V = Verifier(contracts=_MODS[0])
    return _V


def _res_to_dict(r):
    return dict(name=r.name, status=r.status, backend=r.backend, secs=round(r.secs, 4), model=r.model,
                path=r.path, detail=r.detail, kind=r.kind)


class _TaskTimeout(BaseException):
    """raised by SIGALRM inside a worker: the task is reported undecided, never as a violation"""


def _alarm(sig, frm):
    raise _TaskTimeout()


def task_budget():
    d = 600 if os.environ.get("PYVC_TIER", "quick") == "quick" else 3600
    return int(os.environ.get("PYVC_TASK_TIMEOUT", d))


def _run_contract_task(task):
    import signal
    from . import smt
    global _V
    t0 = time.time()
    contracts, lemmas = _MODS
    idx, names = task
    c = contracts[idx]
    budget = task_budget()
    signal.signal(signal.SIGALRM, _alarm)
    # repeating: an exception raised by the handler inside a destructor (z3 terms have Python-level __del__) is swallowed
    signal.setitimer(signal.ITIMER_REAL, budget, 1.0)
    try:
        return _run_contract_task_inner(task)
    except Exception as e:   # anything the inner function let through: report it with its trace instead of killing the worker
        return dict(idx=idx, ok=False, error=f"{type(e).__name__}: {e}", tb=traceback.format_exc(), secs=time.time() - t0)
    except _TaskTimeout:
        signal.signal(signal.SIGALRM, signal.SIG_IGN)
        signal.setitimer(signal.ITIMER_REAL, 0)
        _V = None   # the verifier may be in an inconsistent state
        which = c.name if names is None else f"{c.name} scenarios {names[0]}..{names[-1]}"
        return dict(idx=idx, ok=False, timeout=True, error=f"timeout: {which}: no verdict within {budget}s", tb="",
                    secs=time.time() - t0)
    finally:
        signal.signal(signal.SIGALRM, signal.SIG_IGN)
        signal.setitimer(signal.ITIMER_REAL, 0)


def _run_contract_task_inner(task):
    from . import smt
    t0 = time.time()
    contracts, lemmas = _MODS
    idx, names = task
    c = contracts[idx]
    try:
        v = _get_verifier()
        res, info = v.run_contract(c, scenario_filter=set(names) if names is not None else None)
        fv = v.target_func(c)
        cross = _crosscheck(c, names if names is not None else [n for n, _ in c.scenarios], res, info.get("symbols", {}))
        return dict(idx=idx, ok=True, results=[_res_to_dict(r) for r in res], crosscheck=cross,
                    info=dict(paths=info["paths"], infeasible=info["infeasible"], exits=info["exits"],
                              assumed=sorted(info["assumed"]), unsupported=info["unsupported"],
                              sha=info.get("source_sha256"), lines=info.get("source_lines")),
                    secs=time.time() - t0, stats=dict(smt.STATS))
    except Exception as e:
        from .interp import PyRaise
        if isinstance(e, PyRaise):
            # the contract text or the pre-state builder raised under the interpreter (typically: the code no longer has an attribute or
            # function the contract names).  That is a contract out of step with the code, not a verdict: the scenarios of this task are
            # UNDECIDED (soft failure, like a timeout) and the other contracts of the property still decide.
            exc = e.exc
            which = c.name if names is None else f"{c.name} scenarios {names[0]}..{names[-1]}"
            return dict(idx=idx, ok=False, timeout=True, tb="", secs=time.time() - t0,
                        error=f"spec-error: {which}: the contract text or its pre-state raised {exc.tname}{tuple(exc.args)!r} under the interpreter")
        return dict(idx=idx, ok=False, error=f"{type(e).__name__}: {e}", tb=traceback.format_exc(), secs=time.time() - t0)


_INTS = [-4, -2, -1, 0, 1, 2, 4, 8, 16]   # powers of two: quotients of sampled integers are exact in binary floating point
_REALS = [-2.5, -1.0, 0.0, 0.5, 1.0, 1.5, 2.0, 3.25, 10.0, 0.125, 100.0, 4.0]


def _sample(rng, kinds):
    vals = {}
    for name, kind in kinds.items():
        if kind == "int":
            vals[name] = rng.choice(_INTS)
        elif kind == "real":
            vals[name] = rng.choice(_REALS)
        elif kind == "bool":
            vals[name] = rng.random() < 0.5
        elif kind.startswith("seq:"):
            ek = kind[4:]
            vals[name] = [(_sample(rng, {"x": ek})["x"]) for _ in range(rng.randint(0, 4))] if ek in ("int", "real", "bool") else []
        else:
            return None   # symbolic strings: no sampling
    return vals


def _native_in_child(c, sname, vals, tolerant=True):
    """one native evaluation in a forked child: the real code may leave process-wide tables changed (that is what some
    scenarios are about), which must not leak into the next sample"""
    import pickle
    from .native import run_native
    r, w = os.pipe()
    pid = os.fork()
    if pid == 0:
        try:
            os.close(r)
            try:
                o = run_native(c, sname, vals, tolerant=tolerant)
                try:
                    from .native import _short
                    res_text = _short(o.result)[:300]
                except BaseException:
                    res_text = "?"
                d = dict(pre_ok=o.pre_ok, error=o.error, failed=[(l, str(x)[:300]) for l, x in o.failed], exit=o.exit, result=res_text,
                         exc_type=type(o.exc).__name__ if o.exc is not None else None, exc_text=repr(o.exc)[:300] if o.exc is not None else None)
            except BaseException as e:
                d = None
            with os.fdopen(w, "wb") as f:
                pickle.dump(d, f)
        finally:
            os._exit(0)
    os.close(w)
    with os.fdopen(r, "rb") as f:
        data = f.read()
    os.waitpid(pid, 0)
    try:
        return pickle.loads(data) if data else None
    except Exception:
        return None


_PREIMPORTED = [False]


def _preimport_native():
    """the real package (and what it imports) is loaded once in the worker, so that the forked children do not each pay for it"""
    if not _PREIMPORTED[0]:
        _PREIMPORTED[0] = True
        try:
            import scinumtools, scinumtools.units, scinumtools.solver, scinumtools.materials, scinumtools.dip, scinumtools.dip.config  # noqa
        except Exception:
            pass


def _kinds_in_child(builder):
    """names and kinds of a scenario's input symbols, found by a dry native run of the builder in a forked child (the
    builder runs real code, which may change process-wide tables)"""
    import pickle
    from .builders import NativeBuilder, AssumptionFailed
    r, w = os.pipe()
    pid = os.fork()
    if pid == 0:
        try:
            os.close(r)
            d = None
            try:
                b = NativeBuilder({})
                try:
                    builder(b)
                except AssumptionFailed:
                    pass
                d = dict(b.names)
            except BaseException:
                d = None
            with os.fdopen(w, "wb") as f:
                pickle.dump(d, f)
        finally:
            os._exit(0)
    os.close(w)
    with os.fdopen(r, "rb") as f:
        data = f.read()
    os.waitpid(pid, 0)
    try:
        return pickle.loads(data) if data else None
    except Exception:
        return None


def _crosscheck(c, snames, res, symbols):
    """CPython cross-check of the proof: the real function is run on sampled inputs that satisfy the precondition and the
    same clauses are evaluated natively; a clause that was proved on every path but fails natively is a disagreement
    (engine defect, or float rounding where the proof is over the reals)"""
    per = int(os.environ.get("PYVC_CROSSCHECK", "1" if os.environ.get("PYVC_TIER", "quick") == "quick" else "4"))
    if per <= 0 or c.lemma_only:
        return dict(evaluations=0, disagreements=[])
    from .native import run_native
    from .builders import NativeBuilder, AssumptionFailed
    _preimport_native()
    proved = {}
    for r in res:
        proved[r.name] = proved.get(r.name, True) and r.status == "proved"
    rng = random.Random(hashlib.sha1(c.name.encode()).hexdigest())
    n, dis = 0, []
    t0 = time.time()
    for sname in snames:
        if time.time() - t0 > 60:
            break
        builder = dict(c.scenarios)[sname]
        kinds = symbols.get(sname)
        if kinds is None:
            kinds = _kinds_in_child(builder)   # no symbolic path got as far as building the pre-state
        if kinds is None:
            continue
        done = 0
        for attempt in range(per * 6):
            if done >= per:
                break
            vals = _sample(rng, kinds)
            if vals is None:
                break
            o = _native_in_child(c, sname, vals)
            if o is None or not o["pre_ok"] or o["error"]:
                continue
            if o["exc_type"] in ("ZeroDivisionError", "OverflowError") or "complex" in (o["exc_text"] or "") or "math domain" in (o["exc_text"] or ""):
                continue   # outside the real-arithmetic model of the proof (stated assumption), not a disagreement
            done += 1
            n += 1
            for lab, detail in o["failed"]:
                lab0 = lab.split(" (clause raised")[0]
                name = f"{sname}/{lab0}"
                if "ZeroDivisionError" in lab or "complex" in lab or "OverflowError" in lab or "math domain" in lab or "nan" in str(detail) or "inf" in str(detail) or "j)" in str(detail):
                    continue
                if proved.get(name) and len(dis) < 20:
                    dis.append(dict(obligation=name, inputs=vals, detail=str(detail)[:300], label=lab[:200]))
            if not kinds:
                break   # no symbols: one evaluation says it all
    return dict(evaluations=n, disagreements=dis)


def _run_lemma_task(idx):
    t0 = time.time()
    contracts, lemmas = _MODS
    l = lemmas[idx]
    try:
        from .lemmas import prove_lemma
        r = prove_lemma(_get_verifier(), l)
        return dict(idx=idx, ok=True, results=[_res_to_dict(x) for x in r], secs=time.time() - t0)
    except Exception as e:
        return dict(idx=idx, ok=False, error=f"{type(e).__name__}: {e}", tb=traceback.format_exc(), secs=time.time() - t0)


def load_known_findings():
    p = os.path.join(ROOT, "known_findings.json")
    if not os.path.exists(p):
        return []
    return json.load(open(p))


def run_property(prop, tier="quick", seed=0, jobs=None, verbose=False):
    from contracts.index import PROPS
    t_start = time.time()
    cfg = PROPS[prop]
    mods = cfg["contracts"]
    contracts, lemmas = _load(mods)
    mine = [i for i, c in enumerate(contracts) if prop in c.props]
    mylem = [i for i, l in enumerate(lemmas) if prop in l.props]
    jobs = jobs or 16
    out = {"contracts": {}, "lemmas": {}, "errors": [], "timeouts": []}
    solver_time = 0.0
    with cf.ProcessPoolExecutor(max_workers=jobs, initializer=_worker_init, initargs=(mods,)) as ex:
        tasks = []
        for i in mine:
            names = [n for n, _ in contracts[i].scenarios]
            k = getattr(contracts[i], "chunk", 16)
            if len(names) <= k:
                tasks.append((i, None))
            else:
                tasks += [(i, names[j:j + k]) for j in range(0, len(names), k)]
        futs = {ex.submit(_run_contract_task, t): ("c", t) for t in tasks}
        futs.update({ex.submit(_run_lemma_task, i): ("l", i) for i in mylem})
        for f in cf.as_completed(futs):
            kind, i = futs[f]
            try:
                r = f.result()
            except Exception as e:
                r = dict(idx=i if kind == "l" else i[0], ok=False, error=f"worker died: {e}", tb="")
            if kind == "l":
                out["lemmas"][i] = r
                continue
            ci = i[0]
            if r.get("timeout"):
                # a task that ran out of time leaves its scenarios undecided; the other tasks of the contract still count
                out["timeouts"].append(r["error"])
                continue
            prev = out["contracts"].get(ci)
            if prev is None or not prev.get("ok") or not r.get("ok"):
                if prev is None or (prev.get("ok") and not r.get("ok")):
                    out["contracts"][ci] = r
                continue
            prev["results"] += r["results"]
            if r.get("crosscheck"):
                pc = prev.setdefault("crosscheck", dict(evaluations=0, disagreements=[]))
                pc["evaluations"] += r["crosscheck"]["evaluations"]
                pc["disagreements"] += r["crosscheck"]["disagreements"]
            for k2 in ("paths", "infeasible"):
                prev["info"][k2] += r["info"][k2]
            for k2, v2 in r["info"]["exits"].items():
                prev["info"]["exits"][k2] = prev["info"]["exits"].get(k2, 0) + v2
            prev["info"]["assumed"] = sorted(set(prev["info"]["assumed"]) | set(r["info"]["assumed"]))
            prev["info"]["unsupported"] += r["info"]["unsupported"]
            prev["secs"] += r["secs"]
    return contracts, lemmas, out


def _scenario_of(c, rname):
    """the scenario a result '<scenario>/<label>' belongs to (scenario names may contain '/': the longest one that is a prefix)"""
    best = None
    for sn, _ in getattr(c, "scenarios", []):
        if rname.startswith(sn + "/") and (best is None or len(sn) > len(best)):
            best = sn
    return best if best is not None else rname.split("/")[0]


def aggregate(prop, contracts, lemmas, out):
    """obligation name -> dict(status, backends, secs, paths, fail=first failing sub-result)"""
    obs = {}
    meta = {}
    crashes = ["TIMEOUT " + t for t in out.get("timeouts", [])]
    for i, r in sorted(out["contracts"].items()):
        c = contracts[i]
        if not r["ok"]:
            crashes.append(("TIMEOUT " if r.get("timeout") else "") + f"{c.name}: {r['error']}\n{r.get('tb','')}")
            continue
        meta[c.name] = r["info"]
        meta[c.name]["target"] = c.target
        meta[c.name]["secs"] = round(r["secs"], 3)
        meta[c.name]["crosscheck"] = r.get("crosscheck") or dict(evaluations=0, disagreements=[])
        for x in r["results"]:
            name = f"{prop}/{c.name}/{x['name']}"
            o = obs.setdefault(name, dict(status="proved", backends=set(), secs=0.0, paths=0, fail=None,
                                          contract=i, kind=x["kind"], sname=_scenario_of(c, x["name"]),
                                          bound=getattr(c, "bound", None)))
            o["paths"] += 1
            o["secs"] += x["secs"]
            o["backends"].add(x["backend"])
            if x["status"] == "violated":
                if o["status"] != "violated":
                    o["status"], o["fail"] = "violated", x
            elif x["status"] == "unknown" and o["status"] == "proved":
                o["status"], o["fail"] = "unknown", x
    for i, r in sorted(out["lemmas"].items()):
        l = lemmas[i]
        if not r["ok"]:
            crashes.append(f"lemma {l.name}: {r['error']}\n{r.get('tb','')}")
            continue
        for x in r["results"]:
            name = f"{prop}/lemma/{x['name']}"
            o = obs.setdefault(name, dict(status="proved", backends=set(), secs=0.0, paths=0, fail=None,
                                          contract=None, kind="lemma", sname=None, bound=None))
            o["paths"] += 1
            o["secs"] += x["secs"]
            o["backends"].add(x["backend"])
            if x["status"] != "proved" and o["status"] == "proved":
                o["status"], o["fail"] = x["status"], x
    return obs, meta, crashes
