"""Run-time evaluation of a contract on the real code (CPython): replay of counter-models and
the bounded stand-in.  Uses the same clause text as the proof."""
import ast
import copy
import inspect
import types

from .builders import NativeBuilder, AssumptionFailed, native_lookup
from .specfns import NATIVE_HELPERS
from .verify import parse_clause


class NativeOutcome:
    def __init__(self):
        self.pre_ok = True
        self.exit = None          # 'normal' | 'raise'
        self.exc = None
        self.result = None
        self.failed = []          # (label, detail)
        self.checked = 0
        self.error = None


def _ns(contract, bindings):
    for k, v in NATIVE_HELPERS.items():
        contract.ns.setdefault(k, v)   # spec functions of the contract module resolve the helpers through their globals
    ns = dict(NATIVE_HELPERS)
    ns.update(TOLERANT_NS)
    for k, v in contract.ns.items():
        if not k.startswith("__"):
            ns[k] = v
    ns.update(bindings)
    return ns


class _Tolerant(ast.NodeTransformer):
    """a == b  ->  __teq(a, b) (and !=, <=, >= accordingly): used by the CPython cross-check, where the proof is over the
    reals and the run is in binary floating point"""

    def visit_Compare(self, n):
        self.generic_visit(n)
        if len(n.ops) == 1 and isinstance(n.ops[0], (ast.Eq, ast.NotEq, ast.LtE, ast.GtE)):
            fn = {ast.Eq: "__teq", ast.NotEq: "__tne", ast.LtE: "__tle", ast.GtE: "__tge"}[type(n.ops[0])]
            return ast.copy_location(ast.Call(func=ast.Name(id=fn, ctx=ast.Load()), args=[n.left, n.comparators[0]], keywords=[]), n)
        return n


def _isnum(x):
    import numpy as np
    return isinstance(x, (int, float, np.integer, np.floating)) and not isinstance(x, (bool, np.bool_))


def _teq(a, b):
    if _isnum(a) and _isnum(b):
        return a == b or abs(a - b) <= 1e-9 * max(abs(a), abs(b)) + 1e-12
    if isinstance(a, (list, tuple)) and isinstance(b, (list, tuple)) and type(a) is type(b):
        return len(a) == len(b) and all(_teq(x, y) for x, y in zip(a, b))
    r = a == b
    try:
        return bool(r)
    except ValueError:   # element-wise comparison of arrays
        return bool(getattr(r, "all", lambda: r)())


TOLERANT_NS = {"__teq": _teq, "__tne": lambda a, b: not _teq(a, b),
               "__tle": lambda a, b: (a <= b) if not (_isnum(a) and _isnum(b)) else (a <= b or _teq(a, b)),
               "__tge": lambda a, b: (a >= b) if not (_isnum(a) and _isnum(b)) else (a >= b or _teq(a, b))}
_TOLERANT_MODE = [False]


def _compile(expr):
    node, olds = parse_clause(expr)
    if _TOLERANT_MODE[0]:
        node = _Tolerant().visit(node)
    code = compile(ast.fix_missing_locations(ast.Expression(body=node)), "<clause>", "eval")
    oldcodes = [compile(ast.fix_missing_locations(ast.Expression(body=o)), "<old>", "eval") for o in olds]
    return code, oldcodes


def run_native(contract, sname, values, fn=None, tolerant=False):
    """evaluate the contract of `contract` on the real function for the inputs in `values`; tolerant=True compares numbers
    in the clause text up to float rounding (cross-check mode)"""
    _TOLERANT_MODE[0] = bool(tolerant)
    try:
        return _run_native(contract, sname, values, fn)
    finally:
        _TOLERANT_MODE[0] = False


def _run_native(contract, sname, values, fn=None):
    out = NativeOutcome()
    builder = dict(contract.scenarios)[sname]
    b = NativeBuilder(values)
    try:
        call = builder(b)
    except AssumptionFailed:
        out.pre_ok = False
        return out
    except Exception as e:  # building the pre-state failed natively (model outside the real domain)
        out.pre_ok = False
        out.error = f"pre-state construction failed: {type(e).__name__}: {e}"
        return out
    args, kwargs, env = call.get("args", []), call.get("kwargs", {}), call.get("env", {})
    real = fn or contract.native_call or native_lookup(contract.target)
    try:
        sig = inspect.signature(real)
        ba = sig.bind(*args, **kwargs)
        ba.apply_defaults()
        bindings = dict(ba.arguments)
        for p in sig.parameters.values():
            if p.kind == p.VAR_KEYWORD and p.name in bindings:
                pass
    except (TypeError, ValueError) as e:
        bindings = {}
    bindings.update(env)
    ns = _ns(contract, bindings)
    try:
        for r in contract.requires_:
            code, _ = _compile(r)
            if not eval(code, ns):
                out.pre_ok = False
                return out
    except Exception as e:
        out.pre_ok = False
        out.error = f"precondition not evaluable natively: {type(e).__name__}: {e}"
        return out
    compiled = {}
    for kind, items in (("ensures", contract.ensures_), ("on_raise", contract.on_raise_), ("yields", contract.yields_)):
        for lab, e in items:
            code, oldcodes = _compile(e)
            olds = {}
            for k, oc in enumerate(oldcodes):
                olds[f"__old_{k}"] = copy.deepcopy(eval(oc, ns))
            compiled[(kind, lab)] = (code, olds)
    raise_when = {}
    for lab, excs, e in contract.raises_:
        code, _ = _compile(e)
        raise_when[lab] = (excs, bool(eval(code, ns)))
    reach = _reachable(list(args) + list(kwargs.values())) if contract.fresh_result_ else set()
    frame_pre = None
    if contract.modifies_ is not None:
        try:
            frame_allowed = _frame_allowed(contract.modifies_, ns)
            frame_pre = _frame_snapshot(list(args) + list(kwargs.values()))
        except Exception as e:
            out.error = f"frame not evaluable natively: {type(e).__name__}: {e}"
    try:
        res = real(*args, **kwargs)
        if isinstance(res, types.GeneratorType):
            ys = []
            for y in res:
                ys.append(y)
                for lab, e in contract.yields_:
                    code, olds = compiled[("yields", lab)]
                    out.checked += 1
                    if not eval(code, {**ns, **olds, "y": y}):
                        out.failed.append((lab, f"yielded {y!r}"))
            res = ys
        out.exit, out.result = "normal", res
    except BaseException as e:   # also the injected KeyboardInterrupt / SystemExit / GeneratorExit of the failure-atomicity contracts
        out.exit, out.exc = "raise", e
    if frame_pre is not None:
        # before anything renders the result: __repr__/__str__ of repository objects may normalise their fields in place
        out.checked += 1
        bad = _frame_changes(frame_pre, frame_allowed)
        if bad:
            out.failed.append(("frame", "writes outside modifies: " + ", ".join(bad[:6])))
    if out.exit == "normal":
        for lab, e in contract.ensures_:
            code, olds = compiled[("ensures", lab)]
            out.checked += 1
            try:
                ok = eval(code, {**ns, **olds, "result": out.result})
            except Exception as ex:
                ok = False
                lab = f"{lab} (clause raised {type(ex).__name__}: {ex})"
            if not ok:
                out.failed.append((lab, f"result={_short(out.result)}"))
        for lab, e in contract.fresh_result_:
            each = e.startswith("each:")
            e = e[5:] if each else e
            code, _ = _compile(e)
            out.checked += 1
            try:
                obj = eval(code, {**ns, "result": out.result})
                if any(id(x) in reach for x in (list(obj) if each else [obj])):
                    out.failed.append((lab, f"{e} is an object reachable from the arguments (shared mutable state)"))
            except Exception as ex:
                out.failed.append((lab, f"clause raised {type(ex).__name__}: {ex}"))
    else:
        for lab, e in contract.on_raise_:
            code, olds = compiled[("on_raise", lab)]
            out.checked += 1
            try:
                ok = eval(code, {**ns, **olds, "exc_type": type(out.exc).__name__})
            except Exception as ex:
                ok = False
            if not ok:
                out.failed.append((lab, f"raised {type(out.exc).__name__}: {out.exc}"))
    for lab, (excs, when) in raise_when.items():
        out.checked += 1
        if out.exit == "raise":
            hit = excs is None or type(out.exc).__name__ in excs
            if not (hit and when):
                out.failed.append((lab, f"raised {type(out.exc).__name__}: {_short(out.exc)} (contract: exception iff {when})"))
        elif when:
            out.failed.append((lab, f"returned {_short(out.result)} although the contract requires an exception"))
    return out


def _short(v):
    try:
        s = repr(v)
    except Exception as e:   # __repr__ of repository objects may itself fail (e.g. zero uncertainty)
        s = f"<{type(v).__name__}: repr raised {type(e).__name__}>"
    return s if len(s) < 200 else s[:200] + "..."


def _reachable(roots, depth=5):
    """ids of mutable objects reachable from the arguments"""
    seen = set()
    todo = [(r, 0) for r in roots]
    while todo:
        o, d = todo.pop()
        if o is None or isinstance(o, (int, float, str, bool, bytes, type)) or id(o) in seen or d > depth:
            continue
        seen.add(id(o))
        if isinstance(o, dict):
            todo += [(v, d + 1) for v in o.values()]
        elif isinstance(o, (list, tuple, set)):
            todo += [(v, d + 1) for v in o]
        elif hasattr(o, "__dict__"):
            todo += [(v, d + 1) for v in vars(o).values()]
        elif hasattr(o, "__slots__"):
            todo += [(getattr(o, n, None), d + 1) for n in o.__slots__]
    return seen


# ---- frame conditions at run time: shallow state of every object reachable from the arguments before the call is compared
# with its state afterwards (scalars by value, objects by identity); objects created by the call are not in the snapshot.
def _fp(v):
    if v is None or isinstance(v, (int, float, str, bool, bytes, complex)):
        return ("v", type(v).__name__, v)
    if isinstance(v, tuple) and all(x is None or isinstance(x, (int, float, str, bool)) for x in v):
        return ("v", "tuple", v)
    try:
        import numpy as np
        if isinstance(v, np.ndarray):
            return ("a", v.shape, v.tobytes() if v.dtype != object else repr(v.tolist()))
        if isinstance(v, np.generic):
            return ("v", "np", v.item())
    except Exception:
        pass
    return ("o", id(v))


def _state(o):
    if isinstance(o, _NumpyErrState):
        import numpy
        return {(".", k): ("v", "str", v) for k, v in numpy.geterr().items()}
    if isinstance(o, dict):
        return {("{}", repr(k)): _fp(v) for k, v in o.items()}
    if isinstance(o, list):
        return {("[]", i): _fp(v) for i, v in enumerate(o)}
    if isinstance(o, set):
        return {("{}", repr(k)): ("v", "in", True) for k in o}
    st = {}
    if hasattr(o, "__dict__") and not isinstance(o, type):
        st.update({(".", k): _fp(v) for k, v in vars(o).items()})
    for n in getattr(type(o), "__slots__", ()) or ():
        if hasattr(o, n):
            st[(".", n)] = _fp(getattr(o, n))
    return st


class _NumpyErrState:
    """numpy's process-wide error mode, looked at like an object with one field per error kind (what pyvc/models/npstate.py models)"""


_NPERR = _NumpyErrState()


def _frame_snapshot(roots, depth=7):
    snap = {}
    try:
        snap[id(_NPERR)] = (_NPERR, _state(_NPERR), "numpy.geterr()")
    except Exception:
        pass
    todo = [(r, 0, f"arg{i}") for i, r in enumerate(roots)]
    while todo:
        o, d, path = todo.pop()
        if o is None or isinstance(o, (int, float, str, bool, bytes, type, types.FunctionType, types.ModuleType)) or id(o) in snap or d > depth:
            continue
        if type(o).__module__ == "numpy" or isinstance(o, tuple) and not o:
            continue
        if isinstance(o, tuple):
            todo += [(v, d + 1, f"{path}[{i}]") for i, v in enumerate(o)]
            continue
        if not (isinstance(o, (dict, list, set)) or hasattr(o, "__dict__") or hasattr(type(o), "__slots__")):
            continue
        snap[id(o)] = (o, _state(o), path)
        if isinstance(o, dict):
            todo += [(v, d + 1, f"{path}[{k!r}]") for k, v in o.items()]
        elif isinstance(o, (list, set)):
            todo += [(v, d + 1, f"{path}[{i}]") for i, v in enumerate(o)]
        else:
            if hasattr(o, "__dict__"):
                todo += [(v, d + 1, f"{path}.{k}") for k, v in vars(o).items()]
            for n in getattr(type(o), "__slots__", ()) or ():
                todo.append((getattr(o, n, None), d + 1, f"{path}.{n}"))
    return snap


def _frame_allowed(targets, ns):
    allowed = set()
    for t in targets:
        t = t.strip()
        if t.endswith("[]") or t.endswith("{}"):
            allowed.add((id(eval(t[:-2], ns)), t[-2:]))
        elif t.endswith(".*"):
            allowed.add((id(eval(t[:-2], ns)), "*"))
        else:
            node = ast.parse(t, mode="eval").body
            if not isinstance(node, ast.Attribute):
                raise ValueError("modifies target must be an attribute path, x[] or x.*: " + t)
            base = eval(compile(ast.fix_missing_locations(ast.Expression(body=node.value)), "<frame>", "eval"), ns)
            allowed.add((id(base), node.attr))
    return allowed


def _frame_changes(snap, allowed):
    bad = []
    for oid, (o, before, path) in snap.items():
        if (oid, "*") in allowed:
            continue
        after = _state(o)
        for key in sorted(set(before) | set(after), key=repr):
            if before.get(key) == after.get(key):
                continue
            kind, name = key
            if kind == "." and (oid, name) in allowed:
                continue
            if kind in ("[]", "{}") and (oid, kind) in allowed:
                continue
            bad.append(f"{path}{'.' + str(name) if kind == '.' else '[' + str(name) + ']'}")
    return bad
