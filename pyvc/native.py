"""Run-time evaluation of a contract on the real code (CPython): replay of counter-models and
the bounded stand-in.  Uses the same clause text as the proof."""
import ast
import copy
import inspect
import types

from .builders import NativeBuilder, AssumptionFailed, native_lookup
from .specfns import NATIVE_HELPERS
from .verify import parse_clause


class NativeOutcome:
    def __init__(self):
        self.pre_ok = True
        self.exit = None          # 'normal' | 'raise'
        self.exc = None
        self.result = None
        self.failed = []          # (label, detail)
        self.checked = 0
        self.error = None


def _ns(contract, bindings):
    ns = dict(NATIVE_HELPERS)
    for k, v in contract.ns.items():
        if not k.startswith("__"):
            ns[k] = v
    ns.update(bindings)
    return ns


def _compile(expr):
    node, olds = parse_clause(expr)
    code = compile(ast.fix_missing_locations(ast.Expression(body=node)), "<clause>", "eval")
    oldcodes = [compile(ast.fix_missing_locations(ast.Expression(body=o)), "<old>", "eval") for o in olds]
    return code, oldcodes


def run_native(contract, sname, values, fn=None):
    """evaluate the contract of `contract` on the real function for the inputs in `values`"""
    out = NativeOutcome()
    builder = dict(contract.scenarios)[sname]
    b = NativeBuilder(values)
    try:
        call = builder(b)
    except AssumptionFailed:
        out.pre_ok = False
        return out
    except Exception as e:  # building the pre-state failed natively (model outside the real domain)
        out.pre_ok = False
        out.error = f"pre-state construction failed: {type(e).__name__}: {e}"
        return out
    args, kwargs, env = call.get("args", []), call.get("kwargs", {}), call.get("env", {})
    real = fn or contract.native_call or native_lookup(contract.target)
    try:
        sig = inspect.signature(real)
        ba = sig.bind(*args, **kwargs)
        ba.apply_defaults()
        bindings = dict(ba.arguments)
        for p in sig.parameters.values():
            if p.kind == p.VAR_KEYWORD and p.name in bindings:
                pass
    except (TypeError, ValueError) as e:
        bindings = {}
    bindings.update(env)
    ns = _ns(contract, bindings)
    try:
        for r in contract.requires_:
            code, _ = _compile(r)
            if not eval(code, ns):
                out.pre_ok = False
                return out
    except Exception as e:
        out.pre_ok = False
        out.error = f"precondition not evaluable natively: {type(e).__name__}: {e}"
        return out
    compiled = {}
    for kind, items in (("ensures", contract.ensures_), ("on_raise", contract.on_raise_), ("yields", contract.yields_)):
        for lab, e in items:
            code, oldcodes = _compile(e)
            olds = {}
            for k, oc in enumerate(oldcodes):
                olds[f"__old_{k}"] = copy.deepcopy(eval(oc, ns))
            compiled[(kind, lab)] = (code, olds)
    raise_when = {}
    for lab, excs, e in contract.raises_:
        code, _ = _compile(e)
        raise_when[lab] = (excs, bool(eval(code, ns)))
    reach = _reachable(list(args) + list(kwargs.values())) if contract.fresh_result_ else set()
    try:
        res = real(*args, **kwargs)
        if isinstance(res, types.GeneratorType):
            ys = []
            for y in res:
                ys.append(y)
                for lab, e in contract.yields_:
                    code, olds = compiled[("yields", lab)]
                    out.checked += 1
                    if not eval(code, {**ns, **olds, "y": y}):
                        out.failed.append((lab, f"yielded {y!r}"))
            res = ys
        out.exit, out.result = "normal", res
    except Exception as e:
        out.exit, out.exc = "raise", e
    if out.exit == "normal":
        for lab, e in contract.ensures_:
            code, olds = compiled[("ensures", lab)]
            out.checked += 1
            try:
                ok = eval(code, {**ns, **olds, "result": out.result})
            except Exception as ex:
                ok = False
                lab = f"{lab} (clause raised {type(ex).__name__}: {ex})"
            if not ok:
                out.failed.append((lab, f"result={_short(out.result)}"))
        for lab, e in contract.fresh_result_:
            code, _ = _compile(e)
            out.checked += 1
            try:
                obj = eval(code, {**ns, "result": out.result})
                if id(obj) in reach:
                    out.failed.append((lab, f"{e} is an object reachable from the arguments (shared mutable state)"))
            except Exception as ex:
                out.failed.append((lab, f"clause raised {type(ex).__name__}: {ex}"))
    else:
        for lab, e in contract.on_raise_:
            code, olds = compiled[("on_raise", lab)]
            out.checked += 1
            try:
                ok = eval(code, {**ns, **olds, "exc_type": type(out.exc).__name__})
            except Exception as ex:
                ok = False
            if not ok:
                out.failed.append((lab, f"raised {type(out.exc).__name__}: {out.exc}"))
    for lab, (excs, when) in raise_when.items():
        out.checked += 1
        if out.exit == "raise":
            hit = excs is None or type(out.exc).__name__ in excs
            if not (hit and when):
                out.failed.append((lab, f"raised {type(out.exc).__name__}: {_short(out.exc)} (contract: exception iff {when})"))
        elif when:
            out.failed.append((lab, f"returned {_short(out.result)} although the contract requires an exception"))
    return out


def _short(v):
    s = repr(v)
    return s if len(s) < 200 else s[:200] + "..."


def _reachable(roots, depth=5):
    """ids of mutable objects reachable from the arguments"""
    seen = set()
    todo = [(r, 0) for r in roots]
    while todo:
        o, d = todo.pop()
        if o is None or isinstance(o, (int, float, str, bool, bytes, type)) or id(o) in seen or d > depth:
            continue
        seen.add(id(o))
        if isinstance(o, dict):
            todo += [(v, d + 1) for v in o.values()]
        elif isinstance(o, (list, tuple, set)):
            todo += [(v, d + 1) for v in o]
        elif hasattr(o, "__dict__"):
            todo += [(v, d + 1) for v in vars(o).values()]
        elif hasattr(o, "__slots__"):
            todo += [(getattr(o, n, None), d + 1) for n in o.__slots__]
    return seen
