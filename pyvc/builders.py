"""Pre-state builders.  A scenario is a function of a builder; the same function builds the
symbolic pre-state for the proof (SymBuilder) and the native pre-state for replay on the real
code and for the bounded stand-in (NativeBuilder)."""
import importlib

import z3

from .values import *
from . import ops


class SymBuilder:
    native = False

    def __init__(self, ctx, world):
        self.ctx = ctx
        self.world = world
        self.names = {}

    def _sym(self, name, kind):
        if name in self.names:
            raise ValueError("duplicate input symbol " + name)
        s = Sym(ops.mk_const(name, kind), kind)
        self.names[name] = kind
        return s

    def int(self, name):
        return self._sym(name, "int")

    def real(self, name):
        return self._sym(name, "real")

    def bool(self, name):
        return self._sym(name, "bool")

    def str(self, name):
        return self._sym(name, "str")

    def const(self, v):
        return self.conv(v)

    def conv(self, v):
        if isinstance(v, list):
            return self.ctx.new_list([self.conv(x) for x in v])
        if isinstance(v, dict):
            return self.ctx.alloc(HDict({k: self.conv(x) for k, x in v.items()}))
        if isinstance(v, tuple):
            return tuple(self.conv(x) for x in v)
        if isinstance(v, (Sym, Ref, Ext, ClassVal, FuncVal, BoundMethod, SpecFn, EnumMember)):
            return v
        if isinstance(v, type) or callable(v):
            return Ext(v)
        return v

    def list(self, items):
        return self.ctx.new_list(list(items))

    def dict(self, d):
        return self.ctx.alloc(HDict(dict(d)))

    def seq(self, name, ek):
        """list of unknown length with elements of kind ek"""
        sort = z3.SeqSort(ops.elem_sort(ek))
        self.names[name] = "seq:" + ek
        return self.ctx.alloc(HList(items=None, seq=z3.Const(name, sort), ek=ek))

    def cls(self, qual):
        return self.world.lookup(qual)

    def glob(self, qual):
        return self.world.lookup(qual)

    def obj(self, qual, **fields):
        """instance with the given field values, constructor not run"""
        cv = self.world.lookup(qual)
        o = HObj(cv)
        o.fields = dict(fields)
        return self.ctx.alloc(o)

    def new(self, qual, *args, **kwargs):
        cv = self.world.lookup(qual)
        return self.ctx.call(cv, list(args), kwargs)

    def symbolic_literals(self, mapping):
        """float('<name>') yields the given symbolic real: atoms spelled as these names stand for arbitrary
        numbers.  Natively the names are replaced by numerals in the text (see NativeBuilder)."""
        self.ctx.ghost["symbolic_literals"] = dict(mapping)
        return mapping

    def text(self, template, mapping):
        return template

    def specfn(self, fn):
        """a spec function as a callable value (its source is interpreted like every other spec)"""
        from .contract import spec_source
        from .interp import ModuleVal
        node = spec_source(fn)
        mv = ModuleVal("<spec>", "<spec>")
        mv.is_pkg = False
        fv = FuncVal(node, mv, node.name, None, None)
        fv.defaults, fv.kw_defaults, fv.is_gen = [], [], False
        verifier_snapshot = self.ctx.world.verifier.snapshot
        ctx = self.ctx

        def call(cx, args, kw):
            cx.spec_mode += 1
            try:
                return verifier_snapshot(cx, cx.call_func(fv, args, kw))
            finally:
                cx.spec_mode -= 1
        return SpecFn(node.name, call)

    def assume_rel(self, a, op, b):
        """restrict the pre-state to a relation between scalars, e.g. assume_rel(f, ">", 0)"""
        import ast
        node = {"<": ast.Lt, "<=": ast.LtE, ">": ast.Gt, ">=": ast.GtE, "==": ast.Eq, "!=": ast.NotEq}[op]()
        self.assume(ops.compare(self.ctx, node, a, b))

    def assume(self, cond):
        if isinstance(cond, Sym):
            self.ctx.assume(ops.truth_term(cond))
        elif not cond:
            from .interp import Infeasible
            raise Infeasible()

    def call(self, fn, *args, **kwargs):
        return self.ctx.call(fn, list(args), kwargs)

    def getattr(self, o, name):
        return self.ctx.getattr(o, name)

    def setattr(self, o, name, v):
        self.ctx.setattr(o, name, v)

    def call_catching(self, fn, *args, **kwargs):
        """call that may raise: returns (result, None) or (None, exception type name)"""
        from .interp import PyRaise
        try:
            return self.ctx.call(fn, list(args), kwargs), None
        except PyRaise as e:
            return None, e.exc.tname

    def add(self, x, y):
        return self.ctx.binop(__import__("ast").Add(), x, y)

    def iadd(self, x, y):
        """x += y (the augmented statement: __iadd__ when the class has one, else __add__)"""
        return self.ctx.binop(__import__("ast").Add(), x, y, inplace=True)

    def isub(self, x, y):
        return self.ctx.binop(__import__("ast").Sub(), x, y, inplace=True)

    def aug_catching(self, op, x, y):
        """the augmented statement  x op= y  that may raise: (new value of x, None) or (None, exception type name)"""
        from .interp import PyRaise
        import ast
        try:
            return self.ctx.binop({"+": ast.Add, "-": ast.Sub, "*": ast.Mult, "/": ast.Div}[op](), x, y, inplace=True), None
        except PyRaise as e:
            return None, e.exc.tname

    def setitem(self, o, k, v):
        self.ctx.setitem(o, k, v)

    def model(self, module, name):
        """a class / function of a model module under pyvc/models/ (e.g. fault injection helpers)"""
        return self.world.model_module(module).globals[name]

    def vfs(self):
        """the map path -> text of the modelled file system (pyvc/models/vfs.py); open()/os.path.* on paths below /vfs/ go there"""
        return self.world.model_module("vfs").globals["FILES"]


_NATIVE_VFS = {}
_NATIVE_MODELS = {}


def native_vfs():
    """the same model natively: pyvc/models/vfs.py executed by CPython, builtins.open and os.path.isfile/exists/getsize, os.remove
    redirected to it for paths below /vfs/ (all other paths go to the real functions); the map is emptied for every pre-state"""
    import builtins, os
    if not _NATIVE_VFS:
        ns = {}
        src = os.path.join(os.path.dirname(os.path.abspath(__file__)), "models", "vfs.py")
        exec(compile(open(src).read(), src, "exec"), ns)
        _NATIVE_VFS.update(ns)

        def redirect(real, model):
            def f(path, *a, **k):
                if isinstance(path, str) and path.startswith("/vfs/"):
                    return model(path, *a, **k)
                return real(path, *a, **k)
            return f
        builtins.open = redirect(builtins.open, ns["File"])
        os.path.isfile = redirect(os.path.isfile, ns["isfile"])
        os.path.exists = redirect(os.path.exists, ns["isfile"])
        os.path.getsize = redirect(os.path.getsize, ns["getsize"])
        os.remove = redirect(os.remove, ns["remove"])
        os.unlink = os.remove
    _NATIVE_VFS["FILES"].clear()
    return _NATIVE_VFS["FILES"]


def native_lookup(qual):
    rel, name = qual.split("::")
    mod = "scinumtools." + rel[:-3].replace("/", ".")
    if mod.endswith(".__init__"):
        mod = mod[:-9]
    m = importlib.import_module(mod)
    v = m
    for p in name.split("."):
        v = getattr(v, p)
    return v


class NativeBuilder:
    native = True

    def __init__(self, values):
        self.values = values
        self.names = {}

    def _val(self, name, kind):
        self.names[name] = kind
        if name not in self.values:
            return {"int": 0, "real": 0.0, "bool": False, "str": ""}[kind]
        v = self.values[name]
        if kind == "real":
            if isinstance(v, dict):
                if "num" in v:
                    return v["num"] / v["den"]
                return float(v["approx"].rstrip("?"))
            return float(v)
        if kind == "int":
            return int(v)
        if kind == "bool":
            return bool(v)
        return v

    def int(self, name):
        return self._val(name, "int")

    def real(self, name):
        return self._val(name, "real")

    def bool(self, name):
        return self._val(name, "bool")

    def str(self, name):
        return self._val(name, "str")

    def const(self, v):
        import copy
        return copy.deepcopy(v)

    def list(self, items):
        return list(items)

    def dict(self, d):
        return dict(d)

    def seq(self, name, ek):
        self.names[name] = "seq:" + ek
        return list(self.values.get(name, []))

    def cls(self, qual):
        return native_lookup(qual)

    def glob(self, qual):
        return native_lookup(qual)

    def obj(self, qual, **fields):
        cls = native_lookup(qual)
        o = object.__new__(cls)
        for k, v in fields.items():
            object.__setattr__(o, k, v)
        return o

    def new(self, qual, *args, **kwargs):
        return native_lookup(qual)(*args, **kwargs)

    def symbolic_literals(self, mapping):
        return mapping

    def text(self, template, mapping):
        """replace the literal names by numerals (whole-word)"""
        import re
        return re.sub(r"\b(" + "|".join(map(re.escape, mapping)) + r")\b", lambda m: repr(float(mapping[m.group(1)])), template) if mapping else template

    def specfn(self, fn):
        return fn

    def assume_rel(self, a, op, b):
        import operator
        self.assume({"<": operator.lt, "<=": operator.le, ">": operator.gt, ">=": operator.ge, "==": operator.eq, "!=": operator.ne}[op](a, b))

    def assume(self, cond):
        if not cond:
            raise AssumptionFailed()

    def call(self, fn, *args, **kwargs):
        return fn(*args, **kwargs)

    def getattr(self, o, name):
        return getattr(o, name)

    def setattr(self, o, name, v):
        setattr(o, name, v)

    def call_catching(self, fn, *args, **kwargs):
        try:
            return fn(*args, **kwargs), None
        except Exception as e:
            return None, type(e).__name__

    def add(self, x, y):
        return x + y

    def iadd(self, x, y):
        x += y
        return x

    def isub(self, x, y):
        x -= y
        return x

    def aug_catching(self, op, x, y):
        try:
            if op == "+":
                x += y
            elif op == "-":
                x -= y
            elif op == "*":
                x *= y
            else:
                x /= y
            return x, None
        except Exception as e:
            return None, type(e).__name__

    def setitem(self, o, k, v):
        o[k] = v

    def model(self, module, name):
        import os
        ns = _NATIVE_MODELS.get(module)
        if ns is None:
            ns = {}
            src = os.path.join(os.path.dirname(os.path.abspath(__file__)), "models", module + ".py")
            exec(compile(open(src).read(), src, "exec"), ns)
            _NATIVE_MODELS[module] = ns
        return ns[name]

    def vfs(self):
        return native_vfs()


class AssumptionFailed(Exception):
    pass
