"""Encoding of Python operators on symbolic scalars.

Assumptions of the encoding (recorded in every evidence file):
  * int  -> SMT Int (exact for Python's unbounded ints);
  * float -> SMT Real ("machine arithmetic treated as mathematical"; nan/inf excluded);
  * int(x) truncates toward zero; // and % follow Python's floor semantics;
  * x / y on ints is real division; ZeroDivisionError is an exceptional path;
  * str  -> SMT-LIB String.
"""
import ast
import math
from fractions import Fraction as _Q

import z3

from .values import *
from . import smt

STR = z3.StringSort()


def mk_const(name, kind):
    if kind == "int":
        return z3.Int(name)
    if kind == "real":
        return z3.Real(name)
    if kind == "bool":
        return z3.Bool(name)
    if kind == "str":
        return z3.String(name)
    raise ValueError(kind)


def realval(x):
    """exact rational value of a python float / int as a z3 Real numeral (decimal literal semantics)"""
    if isinstance(x, bool):
        x = int(x)
    if isinstance(x, int):
        return z3.RealVal(x)
    if isinstance(x, float):
        if math.isnan(x) or math.isinf(x):
            raise ValueError("nan/inf have no real encoding")
        # shortest repr = the literal the programmer wrote (273.15 means 27315/100)
        return z3.RealVal(repr(x) if "e" not in repr(x) and "E" not in repr(x) else str(_Q(repr(x))))
    raise TypeError(x)


def kind_of(v):
    if isinstance(v, Sym):
        return v.k
    if isinstance(v, bool):
        return "bool"
    if isinstance(v, int):
        return "int"
    if isinstance(v, float):
        return "real"
    if isinstance(v, str):
        return "str"
    try:
        import numpy as np
        if isinstance(v, np.bool_):
            return "bool"
        if isinstance(v, np.integer):
            return "int"
        if isinstance(v, np.floating):
            return "real"
    except ImportError:
        pass
    return None


def term(v, kind=None):
    """z3 term of a scalar value (Sym or concrete), coerced to `kind` when given"""
    k = kind_of(v)
    if k is None:
        raise TypeError("not a scalar: %r" % (v,))
    if isinstance(v, Sym):
        t = v.t
    elif k == "bool":
        t = z3.BoolVal(bool(v))
    elif k == "int":
        t = z3.IntVal(int(v))
    elif k == "real":
        t = realval(float(v))
    else:
        t = z3.StringVal(v)
    if kind is None or kind == k:
        return t
    if kind == "real":
        if k == "int":
            return z3.ToReal(t)
        if k == "bool":
            return z3.If(t, z3.RealVal(1), z3.RealVal(0))
    if kind == "int" and k == "bool":
        return z3.If(t, z3.IntVal(1), z3.IntVal(0))
    if kind == "bool":
        return truth_term(v)
    raise TypeError(f"cannot coerce {k} to {kind}")


def num_kind(a, b):
    ka, kb = kind_of(a), kind_of(b)
    if ka not in ("int", "real", "bool") or kb not in ("int", "real", "bool"):
        return None
    if "real" in (ka, kb):
        return "real"
    return "int"


def truth_term(v):
    if isinstance(v, Sym):
        if v.k == "bool":
            return v.t
        if v.k == "int":
            return v.t != 0
        if v.k == "real":
            return v.t != 0
        if v.k == "str":
            return z3.Length(v.t) > 0
    raise TypeError("truth_term of %r" % (v,))


def as_bool_term(v):
    if isinstance(v, Sym):
        return truth_term(v)
    return z3.BoolVal(bool(v))


def is_np_bool(v):
    import numpy
    return isinstance(v, numpy.bool_) or (isinstance(v, Sym) and v.k == "bool" and v.np)


def mk(t, k, np=False):
    t = smt.simp(t)
    # fold back to concrete when the term is a literal
    if k == "bool":
        if z3.is_true(t):
            return __import__("numpy").bool_(True) if np else True
        if z3.is_false(t):
            return __import__("numpy").bool_(False) if np else False
        return Sym(t, k, np)
    elif k == "int" and z3.is_int_value(t):
        return t.as_long()
    elif k == "str" and z3.is_string_value(t):
        return t.as_string()
    return Sym(t, k)


def ite(c, a, b):
    ka, kb = kind_of(a), kind_of(b)
    if ka is None or kb is None:
        if a is None and b is None:
            return None
        return None
    if ka == kb:
        return mk(z3.If(c, term(a), term(b)), ka)
    nk = num_kind(a, b)
    if nk:
        return mk(z3.If(c, term(a, nk), term(b, nk)), nk)
    return None


def unary(op, v):
    if isinstance(op, ast.USub):
        if v.k == "bool":
            return mk(-term(v, "int"), "int")
        return mk(-v.t, v.k)
    if isinstance(op, ast.UAdd):
        return v
    raise TypeError("unary op on symbolic value")


def str_concat(parts):
    ts = []
    for p in parts:
        if isinstance(p, str):
            ts.append(z3.StringVal(p))
        elif isinstance(p, Sym) and p.k == "str":
            ts.append(p.t)
        else:
            raise TypeError("concat of non-string")
    if len(ts) == 1:
        return mk(ts[0], "str")
    return mk(z3.Concat(*ts), "str")


def py_trunc(x_real):
    return z3.If(x_real >= 0, z3.ToInt(x_real), -z3.ToInt(-x_real))


def floordiv_int(a, b):
    # z3 div is floor for positive divisors
    return z3.If(b > 0, a / b, (-a) / (-b))


def floor_divmod(ctx, a, b):
    """(q, r) with a = b*q + r and r in [0,b) for b>0, (b,0] for b<0 -- Python's // and % on ints.
    A constant divisor uses the solver's own div/mod (linear).  A symbolic divisor gets explicit
    witnesses, shared between all divisions of the same operands on the path, so that the nonlinear
    product b*q occurs as one term and everything else is linear."""
    if z3.is_int_value(b):
        q = floordiv_int(a, b)
        return q, a - b * q
    cache = ctx.ghost.setdefault("divmod", {})
    key = (a.get_id(), b.get_id())
    if key in cache:
        return cache[key][:2]
    q = ctx.fresh("int", "q").t
    r = ctx.fresh("int", "r").t
    ctx.pc.append(a == b * q + r)
    ctx.pc.append(z3.Implies(b > 0, z3.And(0 <= r, r < b)))
    ctx.pc.append(z3.Implies(b < 0, z3.And(b < r, r <= 0)))
    # sign facts that follow from the definition (help the nonlinear solver)
    ctx.pc.append(z3.Implies(z3.And(a >= 0, b > 0), q >= 0))
    ctx.pc.append(z3.Implies(z3.And(a >= 0, b > 0), q <= a))
    cache[key] = (q, r, a, b)   # keep the terms alive: ids are only unique among live terms
    return q, r


def trunc_div_witness(ctx, a, b):
    """int(a / b) for Int terms, b != 0: truncation toward zero, from the floor quotient"""
    q, r = floor_divmod(ctx, a, b)
    return z3.If(z3.And(r != 0, (a < 0) != (b < 0)), q + 1, q)


def ceil_div_witness(ctx, a, b):
    q, r = floor_divmod(ctx, a, b)
    return z3.If(r != 0, q + 1, q)


def array_dtype(items):
    """numpy's result type for a one-dimensional array of these (possibly symbolic) scalars"""
    kinds = set()
    for x in items:
        if isinstance(x, Sym):
            kinds.add({"int": "int", "real": "float", "bool": "bool", "str": "str"}[x.k])
        elif isinstance(x, bool):
            kinds.add("bool")
        elif isinstance(x, int):
            kinds.add("int")
        elif isinstance(x, float):
            kinds.add("float")
        elif isinstance(x, str):
            kinds.add("str")
        else:
            kinds.add("object")
    if not kinds:
        return "float"
    if kinds <= {"bool"}:
        return "bool"
    if kinds <= {"bool", "int"}:
        return "int"
    if kinds <= {"bool", "int", "float"}:
        return "float"
    return "str" if kinds <= {"str"} else "object"


def cast_elem(ctx, x, dtype):
    """numpy's cast of one element to the array's dtype (float -> int truncates toward zero)"""
    if dtype == "float":
        if isinstance(x, Sym):
            return x if x.k == "real" else mk(term(x, "real"), "real")
        return float(x) if isinstance(x, (int, float, bool)) else x
    if dtype == "int":
        if isinstance(x, Sym):
            if x.k == "real":
                return mk(py_trunc(x.t), "int")
            return x if x.k == "int" else mk(term(x, "int"), "int")
        return int(x) if isinstance(x, (int, float, bool)) else x
    return x


def fixed_width(dt):
    """the numpy dtype when `dt` names a fixed-width integer type whose range the engine has to respect (anything but int64)"""
    import numpy as np
    try:
        d = np.dtype(dt)
    except TypeError:
        return None
    return d if d.kind in "iu" and d != np.dtype(np.int64) else None


def wrap_elem(x, npdt):
    """two's-complement wrap-around of an integer stored with the fixed-width dtype `npdt` (numpy 1.x: silent)"""
    m = 1 << (npdt.itemsize * 8)
    lo = 0 if npdt.kind == "u" else -(m >> 1)
    if isinstance(x, Sym):
        return mk(((term(x, "int") - lo) % m) + lo, "int")
    return ((int(x) - lo) % m) + lo


def make_array(ctx, items, dtype=None, npdtype=None):
    items = list(items)
    dt = "int" if npdtype is not None else (dtype or array_dtype(items))
    if dt in ("float", "int"):
        items = [cast_elem(ctx, x, dt) for x in items]
    if npdtype is not None:
        ctx.assumed.add("fixed-width integer arrays: every stored element is reduced modulo 2**bits into the dtype's range (numpy 1.x wrap-around)")
        items = [wrap_elem(x, npdtype) for x in items]
    r = ctx.new_list(items)
    c = ctx.cell(r)
    c.is_array = True
    c.dtype = dt
    c.npdtype = npdtype
    return r


def _array_cell(ctx, v):
    if isinstance(v, Ref):
        c = ctx.cell(v)
        if isinstance(c, HList) and getattr(c, "is_array", False) and c.items is not None:
            return c
    return None


def array_binop(ctx, op, a, b, inplace):
    """numpy semantics for one-dimensional arrays of (symbolic) scalars: element-wise with scalar broadcasting; the
    augmented form writes into the left array object itself"""
    ca, cb = _array_cell(ctx, a), _array_cell(ctx, b)
    n = len((ca or cb).items)
    if ca is not None and cb is not None and len(ca.items) != len(cb.items):
        ctx.raise_exc("ValueError", ("operands could not be broadcast together",))
    xs = list(ca.items) if ca is not None else [a] * n
    ys = list(cb.items) if cb is not None else [b] * n
    res = [binop(ctx, op, x, y) for x, y in zip(xs, ys)]
    if inplace and ca is not None:
        dt = getattr(ca, "dtype", "float")
        if dt == "int" and array_dtype(res) == "float":
            # numpy refuses to write a float result into an integer array (same-kind casting rule)
            ctx.raise_exc("TypeError", ("Cannot cast ufunc output from dtype('float64') to dtype('int64') with casting rule 'same_kind'",))
        npd = getattr(ca, "npdtype", None)
        out = [cast_elem(ctx, x, dt) for x in res] if dt in ("int", "float") else res
        ctx.wcell(a, "[]").items[:] = [wrap_elem(x, npd) for x in out] if npd is not None else out
        return a
    # array (op) python scalar, and two arrays of one dtype, keep a fixed-width integer dtype: + - * wrap around
    npd = None
    if isinstance(op, (ast.Add, ast.Sub, ast.Mult)) and array_dtype(res) in ("int", "bool"):
        nds = [getattr(cx, "npdtype", None) for cx in (ca, cb) if cx is not None]
        if all(d is not None and d == nds[0] for d in nds):
            npd = nds[0]
    return make_array(ctx, res, npdtype=npd)


def binop(ctx, op, a, b, inplace=False):
    from .interp import Unsupported
    # operator overloading on repo objects
    dn = _DUNDER.get(type(op))
    if _array_cell(ctx, a) is not None or _array_cell(ctx, b) is not None:
        other = b if _array_cell(ctx, a) is not None else a
        if not (isinstance(other, Ref) and isinstance(ctx.cell(other), HObj)):
            if isinstance(other, Ref) and _array_cell(ctx, other) is None and isinstance(ctx.cell(other), HList):
                other_items = ctx.cell(other).items   # list operand: numpy converts it
                if other_items is not None:
                    tmp = make_array(ctx, list(other_items))
                    a, b = (a, tmp) if other is b else (tmp, b)
            return array_binop(ctx, op, a, b, inplace)
    for x, other, refl in ((a, b, False), (b, a, True)):
        if isinstance(x, Ref):
            c = ctx.cell(x)
            if isinstance(c, HObj) and dn:
                names = []
                if not refl:
                    if inplace:
                        names.append("__i" + dn + "__")
                    names.append("__" + dn + "__")
                else:
                    names.append("__r" + dn + "__")
                for name in names:
                    f, _ = c.cls.lookup(name)
                    if f is not None:
                        r = ctx.call(BoundMethod(f, x), [other], {})
                        if r is not NotImplemented and not (isinstance(r, Ext) and r.obj is NotImplemented):
                            return r
            elif isinstance(c, (HList,)) and not refl:
                return list_binop(ctx, op, x, c, other, inplace)
            elif isinstance(c, HDict) and not refl and isinstance(op, ast.BitOr) and isinstance(other, Ref) and isinstance(ctx.cell(other), HDict):
                d = dict(c.d)
                d.update(ctx.cell(other).d)
                if inplace:
                    ctx.wcell(x, "{}").d = d
                    return x
                return ctx.alloc(HDict(d))
    if isinstance(a, Ref) or isinstance(b, Ref):
        if isinstance(b, Ref) and isinstance(ctx.cell(b), HList) and isinstance(op, ast.Mult) and isinstance(a, int):
            return list_binop(ctx, op, b, ctx.cell(b), a, False)
        if isinstance(op, ast.Mod) and isinstance(a, str):
            raise Unsupported("%-formatting with heap values")
        ctx.raise_exc("TypeError", ("unsupported operand types",))
    if not has_sym(a) and not has_sym(b):
        if a is None or b is None:
            ctx.raise_exc("TypeError", ("unsupported operand type(s): NoneType",))
        if isinstance(a, (Ext, ClassVal, FuncVal, EnumMember)) or isinstance(b, (Ext, ClassVal, FuncVal, EnumMember)):
            ctx.raise_exc("TypeError", ("unsupported operand types",))
        try:
            return _NATIVE[type(op)](a, b)
        except ZeroDivisionError:
            ctx.raise_exc("ZeroDivisionError", ("division by zero",))
        except TypeError as e:
            ctx.raise_exc("TypeError", (str(e),))
        except OverflowError as e:
            ctx.raise_exc("OverflowError", (str(e),))
    # tuples
    if isinstance(a, tuple) and isinstance(b, tuple) and isinstance(op, ast.Add):
        return a + b
    if isinstance(a, tuple) and isinstance(b, int) and isinstance(op, ast.Mult):
        return a * b
    if isinstance(a, tuple) or isinstance(b, tuple):
        ctx.raise_exc("TypeError", ("unsupported operand types (tuple)",))
    ka, kb = kind_of(a), kind_of(b)
    if ka is None or kb is None:
        if a is None or b is None:
            ctx.raise_exc("TypeError", ("unsupported operand type(s): NoneType",))
        raise Unsupported(f"symbolic binop on {type(a).__name__}/{type(b).__name__}")
    # strings
    if ka == "str" or kb == "str":
        if ka == "str" and kb == "str" and isinstance(op, ast.Add):
            return str_concat([a, b])
        if isinstance(op, ast.Mult):
            raise Unsupported("symbolic string repetition")
        ctx.raise_exc("TypeError", ("unsupported operand types (str)",))
    if ka == "bool" and kb == "bool" and isinstance(op, (ast.BitOr, ast.BitAnd, ast.BitXor)):
        ta, tb = term(a), term(b)
        return mk({ast.BitOr: z3.Or, ast.BitAnd: z3.And, ast.BitXor: z3.Xor}[type(op)](ta, tb), "bool", np=is_np_bool(a) or is_np_bool(b))
    nk = num_kind(a, b)
    ta, tb = term(a, nk), term(b, nk)
    if isinstance(op, ast.Add):
        return mk(ta + tb, nk)
    if isinstance(op, ast.Sub):
        return mk(ta - tb, nk)
    if isinstance(op, ast.Mult):
        return mk(ta * tb, nk)
    if isinstance(op, ast.Div):
        if ctx.ghost.get("assume_nonzero_divisors") and not ctx.spec_mode:
            ctx.assume(mk(tb != 0, "bool"))
        elif not ctx.spec_mode and ctx.branch(tb == 0):
            ctx.raise_exc("ZeroDivisionError", ("division by zero",))
        ra, rb = term(a, "real"), term(b, "real")
        return mk(ra / rb, "real")
    if isinstance(op, ast.FloorDiv):
        if not ctx.spec_mode and ctx.branch(tb == 0):
            ctx.raise_exc("ZeroDivisionError", ("division by zero",))
        if nk == "int":
            return mk(floor_divmod(ctx, ta, tb)[0], "int")
        return mk(z3.ToReal(z3.ToInt(ta / tb)), "real")
    if isinstance(op, ast.Mod):
        if not ctx.spec_mode and ctx.branch(tb == 0):
            ctx.raise_exc("ZeroDivisionError", ("modulo by zero",))
        if nk == "int":
            return mk(floor_divmod(ctx, ta, tb)[1], "int")
        return mk(ta - tb * z3.ToReal(z3.ToInt(ta / tb)), "real")
    if isinstance(op, ast.Pow):
        return power(ctx, a, b)
    raise Unsupported("symbolic operator " + type(op).__name__)


def power(ctx, a, b):
    """a ** b.  Small constant integer exponents are expanded; everything else goes through the
    uninterpreted real function pow(x, y) (axioms are added by the contracts that need them)."""
    from .interp import Unsupported
    if not isinstance(b, Sym):
        if isinstance(b, (int,)) and not isinstance(b, bool) and 0 <= b <= 6:
            nk = kind_of(a) if kind_of(a) != "bool" else "int"
            t = z3.IntVal(1) if nk == "int" else z3.RealVal(1)
            for _ in range(b):
                t = t * term(a, nk)
            return mk(t, nk)
        if isinstance(b, int) and -6 <= b < 0:
            ta = term(a, "real")
            if ctx.branch(ta == 0):
                ctx.raise_exc("ZeroDivisionError", ("0.0 cannot be raised to a negative power",))
            t = z3.RealVal(1)
            for _ in range(-b):
                t = t * ta
            return mk(1 / t, "real")
        if isinstance(b, float) and b == int(b) and abs(b) <= 6:
            r = power(ctx, a, int(b))
            return mk(term(r, "real"), "real")
    ctx.assumed.add("pow(x,y): uninterpreted real function (float ** float)")
    f = smt.uf("pow", z3.RealSort(), z3.RealSort(), z3.RealSort())
    return mk(f(term(a, "real"), term(b, "real")), "real")


def list_binop(ctx, op, ref, cell, other, inplace):
    from .interp import Unsupported
    if isinstance(op, ast.Add):
        if isinstance(other, Ref) and isinstance(ctx.cell(other), HList):
            oc = ctx.cell(other)
            if cell.items is not None and oc.items is not None:
                if inplace:
                    ctx.wcell(ref, "[]").items.extend(oc.items)
                    return ref
                return ctx.new_list(cell.items + oc.items)
            sa, sb = seq_term(ctx, cell), seq_term(ctx, oc)
            new = HList(seq=z3.Concat(sa, sb), ek=cell.ek or oc.ek)
            if inplace:
                w = ctx.wcell(ref, "[]")
                w.items, w.seq, w.ek = None, new.seq, new.ek
                return ref
            return ctx.alloc(new)
        if inplace and isinstance(other, tuple) and cell.items is not None:
            ctx.wcell(ref, "[]").items.extend(other)
            return ref
        ctx.raise_exc("TypeError", ("can only concatenate list to list",))
    if isinstance(op, ast.Mult) and isinstance(other, int) and cell.items is not None:
        return ctx.new_list(cell.items * other)
    ctx.raise_exc("TypeError", ("unsupported operand types (list)",))


def elem_sort(ek):
    return {"int": z3.IntSort(), "real": z3.RealSort(), "bool": z3.BoolSort(), "str": STR}[ek]


def seq_term(ctx, cell):
    if cell.seq is not None:
        return cell.seq
    ek = cell.ek
    if not cell.items:
        if ek is None:
            raise TypeError("empty list without element kind in symbolic context")
        return z3.Empty(z3.SeqSort(elem_sort(ek)))
    ek = ek or kind_of(cell.items[0])
    units = [z3.Unit(term(x, ek)) for x in cell.items]
    return units[0] if len(units) == 1 else z3.Concat(*units)


_DUNDER = {ast.Add: "add", ast.Sub: "sub", ast.Mult: "mul", ast.Div: "truediv", ast.Pow: "pow",
           ast.Mod: "mod", ast.FloorDiv: "floordiv", ast.MatMult: "matmul", ast.BitAnd: "and",
           ast.BitOr: "or", ast.BitXor: "xor", ast.LShift: "lshift", ast.RShift: "rshift"}

_NATIVE = {ast.Add: lambda a, b: a + b, ast.Sub: lambda a, b: a - b, ast.Mult: lambda a, b: a * b,
           ast.Div: lambda a, b: a / b, ast.Pow: lambda a, b: a ** b, ast.Mod: lambda a, b: a % b,
           ast.FloorDiv: lambda a, b: a // b, ast.BitAnd: lambda a, b: a & b,
           ast.BitOr: lambda a, b: a | b, ast.BitXor: lambda a, b: a ^ b,
           ast.LShift: lambda a, b: a << b, ast.RShift: lambda a, b: a >> b,
           ast.MatMult: lambda a, b: a @ b}

_CMP_DUNDER = {ast.Eq: ("__eq__", "__eq__"), ast.NotEq: ("__ne__", "__ne__"), ast.Lt: ("__lt__", "__gt__"),
               ast.Gt: ("__gt__", "__lt__"), ast.LtE: ("__le__", "__ge__"), ast.GtE: ("__ge__", "__le__")}


def compare(ctx, op, a, b):
    from .interp import Unsupported
    if isinstance(op, ast.Is):
        return identical(a, b)
    if isinstance(op, ast.IsNot):
        return not identical(a, b)
    if isinstance(op, ast.In):
        return contains(ctx, b, a)
    if isinstance(op, ast.NotIn):
        r = contains(ctx, b, a)
        if isinstance(r, Sym):
            return mk(z3.Not(truth_term(r)), "bool")
        return not ctx.truthy(r)
    # dunder dispatch for repo objects
    for x, other, idx in ((a, b, 0), (b, a, 1)):
        if isinstance(x, Ref) and isinstance(ctx.cell(x), HObj):
            c = ctx.cell(x)
            name = _CMP_DUNDER[type(op)][idx]
            f, _ = c.cls.lookup(name)
            if f is not None:
                return ctx.call(BoundMethod(f, x), [other], {})
            if isinstance(op, ast.NotEq):
                f, _ = c.cls.lookup("__eq__")
                if f is not None:
                    r = ctx.call(BoundMethod(f, x), [other], {})
                    return not ctx.truthy(r)
            if c.cls.is_dataclass and isinstance(op, (ast.Eq, ast.NotEq)) and isinstance(other, Ref) \
                    and isinstance(ctx.cell(other), HObj) and ctx.cell(other).cls is c.cls:
                oc = ctx.cell(other)
                res = True
                for n in c.cls.ann:
                    r = compare(ctx, ast.Eq(), c.fields.get(n), oc.fields.get(n))
                    if not ctx.truthy(r):
                        res = False
                        break
                return res if isinstance(op, ast.Eq) else not res
    ca, cb = _array_cell(ctx, a), _array_cell(ctx, b)
    if (ca is not None or cb is not None) and type(op) in _NCMP and \
            (ca is not None or not isinstance(a, Ref)) and (cb is not None or not isinstance(b, Ref)) and a is not None and b is not None:
        # numpy: a comparison with an array broadcasts element-wise and yields a boolean array (whose truth value is an error
        # for more than one element)
        n = len((ca if ca is not None else cb).items)
        if ca is not None and cb is not None and len(ca.items) != len(cb.items):
            raise Unsupported("comparison of arrays of different length")
        xs = ca.items if ca is not None else [a] * n
        ys = cb.items if cb is not None else [b] * n
        return make_array(ctx, [compare(ctx, op, x, y) for x, y in zip(xs, ys)], dtype="bool")
    if isinstance(a, Ref) or isinstance(b, Ref):
        if isinstance(op, (ast.Eq, ast.NotEq)):
            r = heap_equal(ctx, a, b)
            if isinstance(op, ast.Eq):
                return r
            if isinstance(r, Sym):
                return mk(z3.Not(r.t), "bool")
            return not r
        ctx.raise_exc("TypeError", ("ordering not supported between these instances",))
    if not has_sym(a) and not has_sym(b) and not _has_ref(a) and not _has_ref(b):
        try:
            r = _NCMP[type(op)](a, b)
        except TypeError as e:
            ctx.raise_exc("TypeError", (str(e),))
        if isinstance(r, bool):
            return r
        try:
            import numpy as np
            if isinstance(r, np.bool_):
                return bool(r)
        except ImportError:
            pass
        return r
    if isinstance(a, tuple) or isinstance(b, tuple):
        if isinstance(op, (ast.Eq, ast.NotEq)):
            if not (isinstance(a, tuple) and isinstance(b, tuple)) or len(a) != len(b):
                return isinstance(op, ast.NotEq)
            conj = []
            for x, y in zip(a, b):
                r = compare(ctx, ast.Eq(), x, y)
                if isinstance(r, Sym):
                    conj.append(r.t)
                elif not ctx.truthy(r):
                    return isinstance(op, ast.NotEq)
            t = z3.And(*conj) if conj else z3.BoolVal(True)
            return mk(t if isinstance(op, ast.Eq) else z3.Not(t), "bool")
        if not has_sym(a) and not has_sym(b):
            ctx.raise_exc("TypeError", ("ordering of tuples holding objects",))
        raise Unsupported("ordering of tuples with symbolic elements")
    ka, kb = kind_of(a), kind_of(b)
    if ka is None or kb is None:
        # None / class / enum against a symbolic scalar
        if isinstance(op, ast.Eq):
            return False
        if isinstance(op, ast.NotEq):
            return True
        ctx.raise_exc("TypeError", ("ordering not supported",))
    if (ka == "str") != (kb == "str"):
        if isinstance(op, ast.Eq):
            return False
        if isinstance(op, ast.NotEq):
            return True
        ctx.raise_exc("TypeError", ("ordering str/number",))
    if ka == "str":
        ta, tb = term(a), term(b)
        if isinstance(op, ast.Eq):
            return mk(ta == tb, "bool")
        if isinstance(op, ast.NotEq):
            return mk(ta != tb, "bool")
        if isinstance(op, ast.Lt):
            return mk(ta < tb, "bool")
        if isinstance(op, ast.LtE):
            return mk(ta <= tb, "bool")
        if isinstance(op, ast.Gt):
            return mk(tb < ta, "bool")
        return mk(tb <= ta, "bool")
    if ka == "bool" and kb == "bool" and isinstance(op, (ast.Eq, ast.NotEq)):
        ta, tb = term(a), term(b)
        return mk(ta == tb if isinstance(op, ast.Eq) else ta != tb, "bool")
    nk = num_kind(a, b)
    ta, tb = term(a, nk), term(b, nk)
    t = {ast.Eq: lambda: ta == tb, ast.NotEq: lambda: ta != tb, ast.Lt: lambda: ta < tb,
         ast.LtE: lambda: ta <= tb, ast.Gt: lambda: ta > tb, ast.GtE: lambda: ta >= tb}[type(op)]()
    return mk(t, "bool")


def _has_ref(v):
    if isinstance(v, Ref):
        return True
    if isinstance(v, tuple):
        return any(_has_ref(x) for x in v)
    return False


_NCMP = {ast.Eq: lambda a, b: a == b, ast.NotEq: lambda a, b: a != b, ast.Lt: lambda a, b: a < b,
         ast.LtE: lambda a, b: a <= b, ast.Gt: lambda a, b: a > b, ast.GtE: lambda a, b: a >= b}


def identical(a, b):
    if isinstance(a, Sym) or isinstance(b, Sym):
        if a is None or b is None:
            return False
        if a is b:
            return True
        # `is` between symbolic scalars: only meaningful against None/True/False in the code base
        if isinstance(b, bool) and isinstance(a, Sym) and a.k == "bool":
            return mk(a.t == z3.BoolVal(b), "bool")
        if isinstance(a, bool) and isinstance(b, Sym) and b.k == "bool":
            return mk(b.t == z3.BoolVal(a), "bool")
        return False
    if isinstance(a, Ref) and isinstance(b, Ref):
        return a.id == b.id
    if isinstance(a, Ext) and isinstance(b, Ext):
        return a.obj is b.obj
    if isinstance(a, bool) or isinstance(b, bool) or a is None or b is None:
        return a is b
    if isinstance(a, (int, str, float)) and isinstance(b, (int, str, float)):
        return type(a) is type(b) and a == b
    return a is b


def heap_equal(ctx, a, b):
    if isinstance(a, Ref) and isinstance(b, Ref):
        if a.id == b.id:
            return True
        ca, cb = ctx.cell(a), ctx.cell(b)
        if isinstance(ca, HList) and isinstance(cb, HList):
            if ca.items is not None and cb.items is not None:
                if len(ca.items) != len(cb.items):
                    return False
                conj = []
                for x, y in zip(ca.items, cb.items):
                    r = compare(ctx, ast.Eq(), x, y)
                    if isinstance(r, Sym):
                        conj.append(truth_term(r))
                    elif not ctx.truthy(r):
                        return False
                return mk(z3.And(*conj), "bool") if conj else True
            return mk(seq_term(ctx, ca) == seq_term(ctx, cb), "bool")
        if isinstance(ca, HDict) and isinstance(cb, HDict):
            if set(ca.d.keys()) != set(cb.d.keys()):
                return False
            conj = []
            for k in ca.d:
                r = compare(ctx, ast.Eq(), ca.d[k], cb.d[k])
                if isinstance(r, Sym):
                    conj.append(truth_term(r))
                elif not ctx.truthy(r):
                    return False
            return mk(z3.And(*conj), "bool") if conj else True
        if isinstance(ca, HSet) and isinstance(cb, HSet):
            return ca.s == cb.s
        return False
    # list against tuple etc.
    return False


def contains(ctx, container, item):
    from .interp import Unsupported
    if isinstance(container, Ref):
        c = ctx.cell(container)
        if isinstance(c, HObj):
            f, _ = c.cls.lookup("__contains__")
            if f is not None:
                return ctx.truthy(ctx.call(BoundMethod(f, container), [item], {}))
            raise Unsupported("`in` on object without __contains__")
        if isinstance(c, HDict):
            if isinstance(item, Sym):
                disj = [truth_term(r) if isinstance(r, Sym) else z3.BoolVal(bool(r))
                        for r in (compare(ctx, ast.Eq(), k, item) for k in c.d)]
                return mk(z3.Or(*disj), "bool") if disj else False
            return ctx.hashable(item) in c.d
        if isinstance(c, HSet):
            return ctx.hashable(item) in c.s
        if isinstance(c, HList):
            if c.items is not None:
                disj = []
                for x in c.items:
                    r = compare(ctx, ast.Eq(), x, item)
                    if isinstance(r, Sym):
                        disj.append(truth_term(r))
                    elif ctx.truthy(r):
                        return True
                return mk(z3.Or(*disj), "bool") if disj else False
            ek = c.ek
            return mk(z3.Contains(c.seq, z3.Unit(term(item, ek))), "bool")
    if isinstance(container, tuple):
        disj = []
        for x in container:
            r = compare(ctx, ast.Eq(), x, item)
            if isinstance(r, Sym):
                disj.append(truth_term(r))
            elif ctx.truthy(r):
                return True
        return mk(z3.Or(*disj), "bool") if disj else False
    if isinstance(container, (str, Sym)) and kind_of(container) == "str":
        if kind_of(item) != "str":
            ctx.raise_exc("TypeError", ("'in <string>' requires string as left operand",))
        if not isinstance(container, Sym) and not isinstance(item, Sym):
            return item in container
        return mk(z3.Contains(term(container), term(item)), "bool")
    if isinstance(container, Ext) or not isinstance(container, (Sym, Ref)):
        try:
            if has_sym(item):
                raise Unsupported("symbolic item in native container")
            obj = container.obj if isinstance(container, Ext) else container
            return bool(item in obj)
        except TypeError as e:
            ctx.raise_exc("TypeError", (str(e),))
    raise Unsupported("`in` on %r" % (container,))
