"""AST interpreter for the Python subset used by scinumtools, with symbolic scalars.

The code that is interpreted is the real source: modules are parsed from /repo/src/scinumtools on
every run and looked up by qualified name.  Concrete operations are executed by CPython itself;
only operations that involve a symbolic scalar are encoded (see ops.py).  Branching on a symbolic
condition forks the path (exploration by re-execution with a decision prefix, see Explorer).
"""
import ast
import builtins as _builtins
import copy as _copy
import os

import z3

from .values import *
from . import smt
from . import ops

SRC_ROOT = os.environ.get("PYVC_SRC", "/repo/src")
PKG = "scinumtools"


class PyRaise(Exception):
    def __init__(self, exc):
        self.exc = exc  # HExc


class ReturnEx(Exception):
    def __init__(self, v):
        self.v = v


class BreakEx(Exception):
    pass


class ContinueEx(Exception):
    pass


class _GenKill(BaseException):
    """unwinds the thread of a generator that is abandoned at the end of a path"""


class PathEnd(Exception):
    """the current path stops here without reaching the function exit (loop back-edge)"""


class Infeasible(Exception):
    pass


class Unsupported(Exception):
    pass


class ObligationHit(Exception):
    pass


# --------------------------------------------------------------------------------------------
# modules


class ModuleVal:
    def __init__(self, name, path):
        self.name = name
        self.path = path
        self.globals = {}
        self.tree = None
        self.loaded = False
        self.source = None

    def __repr__(self):
        return f"<module {self.name}>"


class World:
    """Parsed repository modules plus the heap produced by executing their top level once
    (concretely).  Every path starts from a copy-on-write view of that heap."""

    def __init__(self, src_root=None, extra_modules=None):
        self.src_root = src_root or SRC_ROOT
        self.modules = {}
        self.base_heap = {}
        self.next_id = 1
        self.loader = Ctx(self, loader=True)
        self.intrinsics = {}
        self.classes = []
        self.contract_hook = None
        from . import intrinsics
        intrinsics.install(self)
        for m in ("vfs", "faults", "npstate"):    # loaded up front, so that their objects are part of every path's base heap
            self.model_module(m)

    def module_path(self, modname):
        rel = modname.replace(".", "/")
        p = os.path.join(self.src_root, rel + ".py")
        if os.path.exists(p):
            return p
        p = os.path.join(self.src_root, rel, "__init__.py")
        if os.path.exists(p):
            return p
        return None

    def load_module(self, modname):
        if modname in self.modules:
            return self.modules[modname]
        # like CPython: importing a.b.c first imports the packages a and a.b
        if "." in modname:
            parent = modname.rsplit(".", 1)[0]
            if parent not in self.modules and self.module_path(parent):
                self.load_module(parent)
                if modname in self.modules:
                    return self.modules[modname]
        path = self.module_path(modname)
        if path is None:
            raise Unsupported(f"module {modname} not found")
        m = ModuleVal(modname, path)
        self.modules[modname] = m
        m.source = open(path).read()
        m.tree = ast.parse(m.source, filename=path)
        m.is_pkg = path.endswith("__init__.py")
        m.globals["__name__"] = modname
        fr = Frame(m, m.globals, None)
        self.loader.exec_block(m.tree.body, fr)
        m.loaded = True
        return m

    def model_module(self, name):
        """a model written as Python source under pyvc/models/, run by this interpreter (e.g. the virtual file system)"""
        key = "<model>." + name
        if key in self.modules:
            return self.modules[key]
        path = os.path.join(os.path.dirname(os.path.abspath(__file__)), "models", name + ".py")
        m = ModuleVal(key, path)
        self.modules[key] = m
        m.source = open(path).read()
        m.tree = ast.parse(m.source, filename=path)
        m.is_pkg = False
        m.globals["__name__"] = key
        self.loader.exec_block(m.tree.body, Frame(m, m.globals, None))
        m.loaded = True
        return m

    def load_file(self, relpath):
        """relpath like 'units/fraction.py' -> module scinumtools.units.fraction"""
        mod = PKG + "." + relpath[:-3].replace("/", ".")
        if mod.endswith(".__init__"):
            mod = mod[: -len(".__init__")]
        return self.load_module(mod)

    def lookup(self, qual):
        """'units/fraction.py::Fraction.__add__' -> FuncVal / ClassVal / value"""
        rel, name = qual.split("::")
        m = self.load_file(rel)
        parts = name.split(".")
        v = m.globals[parts[0]]
        for p in parts[1:]:
            if isinstance(v, ClassVal):
                a, _ = v.lookup(p)
                if a is None:
                    raise KeyError(qual)
                v = a
            else:
                raise KeyError(qual)
        return v

    def alloc_id(self):
        i = self.next_id
        self.next_id += 1
        return i


class Frame:
    def __init__(self, module, locs, func, closure=None):
        self.module = module
        self.locals = locs
        self.func = func
        self.closure = closure
        self.yields = None
        self.cls_self = None  # (ClassVal, self) for zero-arg super()


# --------------------------------------------------------------------------------------------


class Ctx:
    """execution context of one path"""

    MAX_STEPS = 20000000

    def __init__(self, world, loader=False, prefix=None, work=None):
        self.world = world
        self.loader = loader
        self.local = world.base_heap if loader else {}
        self.next_id = None if loader else world.next_id
        self.pc = []
        self.prefix = prefix or []
        self.pos = 0
        self.decisions = []
        self.feas_cache = {}
        self.work = work if work is not None else []
        self.fresh_n = 0
        self.writes = {}      # (id, field) -> True, pre-existing objects only
        self.live_gens = []
        self.write_log = []   # ids of all objects written to, in order (used to detect generator bodies with effects)
        self.entry_id = None   # allocation watermark at function entry
        self.assumed = set()   # names of external models / axioms used on this path
        self.steps = 0
        self.spec_mode = 0
        self.loop_contracts = {}   # (funcqual, ordinal) -> LoopSpec
        self.obligation_sink = None
        self.call_depth = 0
        self.notes = []
        self.axioms = []       # z3 facts about uninterpreted functions instantiated on this path
        self.ghost = {}

    # ---- heap -------------------------------------------------------------------------------
    def alloc(self, cell):
        if self.loader:
            i = self.world.alloc_id()
        else:
            i = self.next_id
            self.next_id += 1
        self.local[i] = cell
        return Ref(i)

    def cell(self, ref):
        c = self.local.get(ref.id)
        if c is None:
            c = self.world.base_heap[ref.id]
        return c

    def wcell(self, ref, field=None):
        self.write_log.append(ref.id)
        c = self.local.get(ref.id)
        if c is not None and field == "{}" and getattr(c, "owner", None) is not None:
            self.wcell(c.owner, "__dict__")     # a write through obj.__dict__ is a write to obj
        if c is None:
            b = self.world.base_heap[ref.id]
            c = _copy.copy(b)
            if isinstance(b, HObj):
                c.fields = dict(b.fields)
            elif isinstance(b, HList):
                c.items = list(b.items) if b.items is not None else None
            elif isinstance(b, HDict):
                c.d = dict(b.d)
            elif isinstance(b, HSet):
                c.s = set(b.s)
            self.local[ref.id] = c
        if self.entry_id is not None and ref.id < self.entry_id and (ref.id, field) not in self.writes:
            # remember the entry value of the location (frame conditions ignore writes that restore it)
            if isinstance(c, HObj):
                old = dict(c.fields) if field == "__dict__" else c.fields.get(field, _NOFIELD)
            elif isinstance(c, HList):
                old = (list(c.items) if c.items is not None else None, c.seq)
            elif isinstance(c, HDict):
                old = dict(c.d)
            elif isinstance(c, HSet):
                old = set(c.s)
            else:
                old = None
            self.writes[(ref.id, field)] = old
        return c

    def new_list(self, items):
        return self.alloc(HList(items=list(items)))

    def new_dict(self, d=None):
        return self.alloc(HDict(dict(d) if d else {}))

    # ---- symbols / branching ----------------------------------------------------------------
    def fresh(self, kind, hint="v"):
        self.fresh_n += 1
        name = f"{hint}!{self.fresh_n}"
        return Sym(ops.mk_const(name, kind), kind)

    def assume(self, t):
        if isinstance(t, Sym):
            t = ops.as_bool_term(t)
        if t is True:
            return
        if t is False:
            raise Infeasible()
        t = smt.simp(t)
        if smt.is_true(t):
            return
        if smt.is_false(t):
            raise Infeasible()
        self.pc.append(t)

    def branch(self, cond):
        """cond: z3 Bool term; returns the python bool chosen for this path.
        A condition that the path condition already decides (the other side is unsat) is not added to it again;
        decisions are recorded as (value, implied) so that a re-executed prefix makes the same choices without asking."""
        cond = smt.simp(cond)
        if smt.is_true(cond):
            return True
        if smt.is_false(cond):
            return False
        if self.pos < len(self.prefix):
            d, implied = self.prefix[self.pos]
        else:
            key = (len(self.pc), len(self.axioms), cond.get_id())
            hit = self.feas_cache.get(key)
            if hit is None:
                base = self.pc + self.axioms
                ft = smt.feasible(base + [cond])
                ff = smt.feasible(base + [z3.Not(cond)])
                hit = self.feas_cache[key] = (ft, ff, cond)   # the term is kept alive: ids of dead terms are reused
            ft, ff = hit[0], hit[1]
            implied = not (ft and ff)
            if ft and ff:
                d = True
                self.work.append(self.decisions + [(False, False)])
            elif ft:
                d = True
            elif ff:
                d = False
            else:
                raise Infeasible()
        self.pos += 1
        self.decisions.append((d, implied))
        if not implied:
            self.pc.append(cond if d else smt.simp(z3.Not(cond)))
        return d

    def choose(self, n, label=""):
        """non-deterministic choice among n alternatives (structural fork, e.g. loop: body/exit)"""
        if n == 1:
            return 0
        if self.pos < len(self.prefix):
            d = self.prefix[self.pos]
        else:
            d = 0
            for k in range(n - 1, 0, -1):
                self.work.append(self.decisions + [k])
        self.pos += 1
        self.decisions.append(d)
        return d

    def truthy(self, v):
        if isinstance(v, Sym):
            return self.branch(ops.truth_term(v))
        if isinstance(v, Ref):
            c = self.cell(v)
            if isinstance(c, HList):
                if getattr(c, "is_array", False) and c.items is not None:
                    # numpy: an empty array is false (deprecated), one element decides, several elements have no truth value
                    if len(c.items) == 1:
                        return self.truthy(c.items[0])
                    if len(c.items) > 1:
                        self.raise_exc("ValueError", ("The truth value of an array with more than one element is ambiguous. Use a.any() or a.all()",))
                    return False
                if c.items is not None:
                    return len(c.items) > 0
                return self.branch(z3.Length(c.seq) > 0)
            if isinstance(c, HDict):
                return len(c.d) > 0
            if isinstance(c, HSet):
                return len(c.s) > 0
            if isinstance(c, HObj):
                f, _ = c.cls.lookup("__bool__")
                if f is not None:
                    return self.truthy(self.call(BoundMethod(f, v), [], {}))
                f, _ = c.cls.lookup("__len__")
                if f is not None:
                    return self.truthy(self.call(BoundMethod(f, v), [], {}))
                return True
            return True
        if isinstance(v, (ClassVal, FuncVal, BoundMethod, Ext, EnumMember, SpecFn, ModuleVal)):
            if isinstance(v, Ext):
                try:
                    return bool(v.obj)
                except Exception:
                    return True
            return True
        if isinstance(v, tuple):
            return len(v) > 0
        try:
            return bool(v)
        except ValueError:
            # numpy array truthiness is an error in CPython as well
            self.raise_exc("ValueError", ("truth value of an array is ambiguous",))

    # ---- exceptions -------------------------------------------------------------------------
    def raise_exc(self, tname, args=()):
        e = HExc(tname, tuple(args), getattr(_builtins, tname, Exception))
        e.where = getattr(self, "where", None)
        raise PyRaise(e)

    # ---- statements -------------------------------------------------------------------------
    def tick(self):
        self.steps += 1
        if self.steps > self.MAX_STEPS:
            raise Unsupported("step budget exhausted (unbounded loop without invariant?)")

    def exec_block(self, stmts, fr):
        for s in stmts:
            self.exec_stmt(s, fr)

    def exec_stmt(self, s, fr):
        self.tick()
        self.where = f"{fr.module.name}:{getattr(s, 'lineno', '?')}"
        m = getattr(self, "st_" + type(s).__name__, None)
        if m is None:
            raise Unsupported("statement " + type(s).__name__)
        return m(s, fr)

    def st_Expr(self, s, fr):
        self.eval(s.value, fr)

    def st_Pass(self, s, fr):
        pass

    def st_Assign(self, s, fr):
        v = self.eval(s.value, fr)
        for t in s.targets:
            self.assign(t, v, fr)

    def st_AnnAssign(self, s, fr):
        if s.value is not None:
            self.assign(s.target, self.eval(s.value, fr), fr)

    def st_AugAssign(self, s, fr):
        t = s.target
        if isinstance(t, ast.Name):
            cur = self.lookup_name(t.id, fr)
            new = self.binop(s.op, cur, self.eval(s.value, fr), inplace=True)
            self.assign(t, new, fr)
        elif isinstance(t, ast.Attribute):
            o = self.eval(t.value, fr)
            cur = self.getattr(o, t.attr)
            new = self.binop(s.op, cur, self.eval(s.value, fr), inplace=True)
            self.setattr(o, t.attr, new)
        elif isinstance(t, ast.Subscript):
            o = self.eval(t.value, fr)
            k = self.eval_index(t.slice, fr)
            cur = self.getitem(o, k)
            new = self.binop(s.op, cur, self.eval(s.value, fr), inplace=True)
            self.setitem(o, k, new)
        else:
            raise Unsupported("augassign target")

    def st_Return(self, s, fr):
        raise ReturnEx(self.eval(s.value, fr) if s.value is not None else None)

    def st_Raise(self, s, fr):
        if s.exc is None:
            f = fr
            while f is not None and getattr(f, "current_exc", None) is None:
                f = f.closure
            if f is None:
                self.raise_exc("RuntimeError", ("No active exception to reraise",))
            raise PyRaise(f.current_exc)
        v = self.eval(s.exc, fr)
        if isinstance(v, Ext) and isinstance(v.obj, type):
            v = self.call(v, [], {})
        if isinstance(v, ClassVal):
            v = self.call(v, [], {})
        if isinstance(v, Ref) and isinstance(self.cell(v), HExc):
            raise PyRaise(self.cell(v))
        if isinstance(v, Ref) and isinstance(self.cell(v), HObj):
            c = self.cell(v)
            e = HExc(c.cls.name, tuple(c.fields.get("args", ())), Exception)
            e.obj = v
            raise PyRaise(e)
        if isinstance(v, HExc):
            raise PyRaise(v)
        raise Unsupported("raise of %r" % (v,))

    def st_Assert(self, s, fr):
        if not self.truthy(self.eval(s.test, fr)):
            self.raise_exc("AssertionError", ())

    def st_If(self, s, fr):
        if self.truthy(self.eval(s.test, fr)):
            self.exec_block(s.body, fr)
        else:
            self.exec_block(s.orelse, fr)

    def st_Import(self, s, fr):
        for a in s.names:
            name = a.asname or a.name.split(".")[0]
            if a.name.startswith(PKG):
                mv = self.world.load_module(a.name)
                if a.asname:
                    fr.locals[name] = mv
                else:
                    fr.locals[name] = self.world.load_module(PKG)
            else:
                mod = __import__(a.name)
                if a.asname:
                    import importlib
                    mod = importlib.import_module(a.name)
                fr.locals[name] = Ext(mod, a.name)

    def st_ImportFrom(self, s, fr):
        if s.level > 0:
            base = fr.module.name.split(".")
            if not getattr(fr.module, "is_pkg", False):
                base = base[:-1]
            if s.level > 1:
                base = base[: len(base) - (s.level - 1)]
            modname = ".".join(base + ([s.module] if s.module else []))
        else:
            modname = s.module
        if modname.startswith(PKG):
            for a in s.names:
                if a.name != "*" and self.world.module_path(modname + "." + a.name):
                    sub = self.world.load_module(modname + "." + a.name)
                    fr.locals[a.asname or a.name] = sub
                    continue
                mv = self.world.load_module(modname)
                if a.name == "*":
                    for k, v in mv.globals.items():
                        if not k.startswith("_"):
                            fr.locals[k] = v
                    # submodules already imported are attributes of the package, hence part of `*`
                    for mn, sub in list(self.world.modules.items()):
                        if mn.startswith(modname + ".") and "." not in mn[len(modname) + 1:] and not mn.rsplit(".", 1)[1].startswith("_"):
                            fr.locals.setdefault(mn.rsplit(".", 1)[1], sub)
                else:
                    if a.name not in mv.globals:
                        raise Unsupported(f"cannot import {a.name} from {modname} (circular import?)")
                    fr.locals[a.asname or a.name] = mv.globals[a.name]
        else:
            import importlib
            try:
                mod = importlib.import_module(modname)
            except ImportError:
                mod = None
            for a in s.names:
                if a.name == "*":
                    raise Unsupported("star import of external module")
                if mod is None or not hasattr(mod, a.name):
                    fr.locals[a.asname or a.name] = Ext(None, f"{modname}.{a.name}(missing)")
                else:
                    fr.locals[a.asname or a.name] = self.wrap_native(getattr(mod, a.name), f"{modname}.{a.name}")

    def wrap_native(self, obj, name=None):
        if isinstance(obj, (int, float, str, bool, type(None), complex)):
            return obj
        return Ext(obj, name)

    def st_FunctionDef(self, s, fr):
        fv = self.make_func(s, fr, None)
        v = fv
        for d in reversed(s.decorator_list):
            dv = self.eval(d, fr)
            v = self.call(dv, [v], {})
        fr.locals[s.name] = v

    def make_func(self, s, fr, cls):
        qual = (cls.name + "." if cls else "") + s.name
        closure = fr if fr.func is not None else None
        fv = FuncVal(s, fr.module, qual, closure, cls)
        a = s.args
        fv.defaults = [self.eval(d, fr) for d in a.defaults]
        fv.kw_defaults = [self.eval(d, fr) if d is not None else None for d in a.kw_defaults]
        fv.is_gen = any(isinstance(n, (ast.Yield, ast.YieldFrom)) for n in _walk_func(s))
        return fv

    def st_ClassDef(self, s, fr):
        bases = [self.eval(b, fr) for b in s.bases]
        cv = ClassVal(s.name, s, fr.module, bases)
        for d in s.decorator_list:
            nm = d.id if isinstance(d, ast.Name) else (d.func.id if isinstance(d, ast.Call) and isinstance(d.func, ast.Name) else None)
            if nm == "dataclass":
                cv.is_dataclass = True
            else:
                raise Unsupported("class decorator")
        is_enum = any(isinstance(b, Ext) and isinstance(b.obj, type) and issubclass(b.obj, __import__("enum").Enum) for b in bases)
        cfr = Frame(fr.module, {}, None, closure=fr if fr.func is not None else None)
        cfr.in_class = cv
        for st in s.body:
            if isinstance(st, ast.FunctionDef):
                fv = self.make_func(st, fr, cv)
                static = False
                for d in st.decorator_list:
                    if isinstance(d, ast.Name) and d.id == "staticmethod":
                        static = True
                    elif isinstance(d, ast.Name) and d.id == "classmethod":
                        raise Unsupported("classmethod")
                    else:
                        raise Unsupported("method decorator")
                if static:
                    cv.static.add(st.name)
                cv.attrs[st.name] = fv
                cfr.locals[st.name] = fv
            elif isinstance(st, ast.AnnAssign):
                if isinstance(st.target, ast.Name):
                    cv.ann.append(st.target.id)
                    if st.value is not None:
                        v = self.eval_dc_default(st.value, cfr, cv, st.target.id)
                        cv.attrs[st.target.id] = v
                        cfr.locals[st.target.id] = v
            elif isinstance(st, ast.Assign):
                v = self.eval(st.value, cfr)
                for t in st.targets:
                    if isinstance(t, ast.Name):
                        if is_enum:
                            v2 = EnumMember(cv, t.id, v)
                            cv.attrs[t.id] = v2
                            cfr.locals[t.id] = v2
                        else:
                            cv.attrs[t.id] = v
                            cfr.locals[t.id] = v
                    else:
                        raise Unsupported("class body assignment target")
            elif isinstance(st, ast.Expr):
                if not isinstance(st.value, ast.Constant):
                    self.eval(st.value, cfr)
            elif isinstance(st, ast.Pass):
                pass
            else:
                raise Unsupported("class body statement " + type(st).__name__)
        fr.locals[s.name] = cv
        self.world.classes.append(cv)

    def eval_dc_default(self, node, cfr, cv, name):
        # dataclasses.field(default=..., default_factory=...)
        if isinstance(node, ast.Call) and isinstance(node.func, ast.Name) and node.func.id == "field":
            kw = {k.arg: k.value for k in node.keywords}
            if "default_factory" in kw:
                fac = self.eval(kw["default_factory"], cfr)
                cv.__dict__.setdefault("dc_factories", {})[name] = fac
                return _DC_FACTORY
            if "default" in kw:
                return self.eval(kw["default"], cfr)
            return _DC_FACTORY
        return self.eval(node, cfr)

    def st_While(self, s, fr):
        spec = self.loop_spec(s, fr)
        if spec is not None:
            return self.cut_loop(s, fr, spec)
        while True:
            self.tick()
            if not self.truthy(self.eval(s.test, fr)):
                self.exec_block(s.orelse, fr)
                return
            try:
                self.exec_block(s.body, fr)
            except BreakEx:
                return
            except ContinueEx:
                continue

    def st_For(self, s, fr):
        it = self.eval(s.iter, fr)
        spec = self.loop_spec(s, fr)
        if spec is not None:
            return self.cut_for(s, fr, spec, it)
        if isinstance(it, Ref) and isinstance(self.cell(it), HGenFn):
            g = self.cell(it)
            while True:
                kind, v = self.gen_next(g)   # one item at a time: the loop body runs between the generator's steps
                if kind == "stop":
                    break
                self.tick()
                self.assign(s.target, v, fr)
                try:
                    self.exec_block(s.body, fr)
                except BreakEx:
                    return
                except ContinueEx:
                    continue
            self.exec_block(s.orelse, fr)
            return
        if isinstance(it, Ref) and isinstance(self.cell(it), HList) and self.cell(it).items is not None:
            # a list is iterated by position over its CURRENT content: items removed or added by the body shift what comes next
            i = 0
            while i < len(self.cell(it).items):
                v = self.cell(it).items[i]
                i += 1
                self.tick()
                self.assign(s.target, v, fr)
                try:
                    self.exec_block(s.body, fr)
                except BreakEx:
                    return
                except ContinueEx:
                    continue
            self.exec_block(s.orelse, fr)
            return
        sized = None
        if isinstance(it, Ref) and isinstance(self.cell(it), (HDict, HSet)):
            sized = (lambda: len(self.cell(it).d)) if isinstance(self.cell(it), HDict) else (lambda: len(self.cell(it).s))
            size0 = sized()
        seq = self.iterate(it)
        for v in seq:
            if sized is not None and sized() != size0:
                self.raise_exc("RuntimeError", ("dictionary changed size during iteration" if isinstance(self.cell(it), HDict) else "Set changed size during iteration",))
            self.tick()
            self.assign(s.target, v, fr)
            try:
                self.exec_block(s.body, fr)
            except BreakEx:
                return
            except ContinueEx:
                continue
        self.exec_block(s.orelse, fr)

    def st_Break(self, s, fr):
        raise BreakEx()

    def st_Continue(self, s, fr):
        raise ContinueEx()

    def st_With(self, s, fr):
        mgrs = []
        for item in s.items:
            m = self.eval(item.context_expr, fr)
            ent = self.call(self.getattr(m, "__enter__"), [], {})
            mgrs.append(m)
            if item.optional_vars is not None:
                self.assign(item.optional_vars, ent, fr)
        try:
            self.exec_block(s.body, fr)
        except PyRaise as e:
            for m in reversed(mgrs):
                r = self.call(self.getattr(m, "__exit__"), [Ext(Exception), e.exc, None], {})
                if self.truthy(r):
                    raise Unsupported("__exit__ suppressing an exception")
            raise
        except (ReturnEx, BreakEx, ContinueEx):
            for m in reversed(mgrs):
                self.call(self.getattr(m, "__exit__"), [None, None, None], {})
            raise
        for m in reversed(mgrs):
            self.call(self.getattr(m, "__exit__"), [None, None, None], {})

    def st_Try(self, s, fr):
        try:
            try:
                self.exec_block(s.body, fr)
            except PyRaise as e:
                for h in s.handlers:
                    if h.type is None or self.exc_matches(e.exc, self.eval(h.type, fr)):
                        if h.name:
                            fr.locals[h.name] = self.alloc(e.exc) if not hasattr(e.exc, "obj") else e.exc.obj
                        prev = getattr(fr, "current_exc", None)
                        fr.current_exc = e.exc
                        try:
                            self.exec_block(h.body, fr)
                        finally:
                            fr.current_exc = prev
                        break
                else:
                    raise
            else:
                self.exec_block(s.orelse, fr)
        finally:
            # finally blocks of the interpreted program
            if s.finalbody:
                self.exec_block(s.finalbody, fr)

    def exc_matches(self, exc, t):
        if isinstance(t, tuple):
            return any(self.exc_matches(exc, x) for x in t)
        if isinstance(t, Ext) and isinstance(t.obj, type):
            pc = exc.pycls if isinstance(exc.pycls, type) else Exception
            return issubclass(pc, t.obj)
        if isinstance(t, ClassVal):
            return exc.tname == t.name
        return False

    def st_Delete(self, s, fr):
        for t in s.targets:
            if isinstance(t, ast.Subscript):
                o = self.eval(t.value, fr)
                k = self.eval_index(t.slice, fr)
                self.delitem(o, k)
            elif isinstance(t, ast.Name):
                del fr.locals[t.id]
            else:
                raise Unsupported("del target")

    def st_Global(self, s, fr):
        fr.globals_decl = getattr(fr, "globals_decl", set()) | set(s.names)

    # ---- loops with contracts (cut points) ------------------------------------------------------
    def loop_spec(self, s, fr):
        if not self.loop_contracts or fr.func is None:
            return None
        key = (fr.func.qualname, id(s))
        return self.loop_contracts.get(key)

    def cut_loop(self, s, fr, spec):
        from .loops import run_cut_loop
        return run_cut_loop(self, s, fr, spec, None)

    def cut_for(self, s, fr, spec, it):
        from .loops import run_cut_loop
        return run_cut_loop(self, s, fr, spec, it)

    # ---- assignment -------------------------------------------------------------------------
    def assign(self, t, v, fr):
        if isinstance(t, ast.Name):
            if t.id in getattr(fr, "globals_decl", ()):
                fr.module.globals[t.id] = v
            else:
                fr.locals[t.id] = v
        elif isinstance(t, (ast.Tuple, ast.List)):
            vals = self.iterate(v)
            if len(vals) != len(t.elts):
                self.raise_exc("ValueError", ("unpack",))
            for te, ve in zip(t.elts, vals):
                self.assign(te, ve, fr)
        elif isinstance(t, ast.Attribute):
            self.setattr(self.eval(t.value, fr), t.attr, v)
        elif isinstance(t, ast.Subscript):
            o = self.eval(t.value, fr)
            self.setitem(o, self.eval_index(t.slice, fr), v)
        else:
            raise Unsupported("assign target " + type(t).__name__)

    def lookup_name(self, name, fr):
        f = fr
        while f is not None:
            if name in f.locals:
                return f.locals[name]
            f = f.closure
        g = fr.module.globals
        if name in g:
            return g[name]
        w = self.world
        if name in w.intrinsics:
            return w.intrinsics[name]
        if hasattr(_builtins, name):
            return self.wrap_native(getattr(_builtins, name), name)
        self.raise_exc("NameError", (name,))

    # ---- expressions ------------------------------------------------------------------------
    def eval(self, e, fr):
        m = getattr(self, "ex_" + type(e).__name__, None)
        if m is None:
            raise Unsupported("expression " + type(e).__name__)
        return m(e, fr)

    def ex_Constant(self, e, fr):
        return e.value

    def ex_Name(self, e, fr):
        return self.lookup_name(e.id, fr)

    def ex_NamedExpr(self, e, fr):
        v = self.eval(e.value, fr)
        self.assign(e.target, v, fr)
        return v

    def ex_Tuple(self, e, fr):
        out = []
        for x in e.elts:
            if isinstance(x, ast.Starred):
                out.extend(self.iterate(self.eval(x.value, fr)))
            else:
                out.append(self.eval(x, fr))
        return tuple(out)

    def ex_List(self, e, fr):
        out = []
        for x in e.elts:
            if isinstance(x, ast.Starred):
                out.extend(self.iterate(self.eval(x.value, fr)))
            else:
                out.append(self.eval(x, fr))
        return self.new_list(out)

    def ex_Set(self, e, fr):
        return self.alloc(HSet(set(self.hashable(self.eval(x, fr)) for x in e.elts)))

    def ex_Dict(self, e, fr):
        d = {}
        for k, v in zip(e.keys, e.values):
            if k is None:
                src = self.eval(v, fr)
                for kk, vv in self.dict_items(src):
                    d[kk] = vv
            else:
                d[self.hashable(self.eval(k, fr))] = self.eval(v, fr)
        return self.alloc(HDict(d))

    def hashable(self, k):
        if isinstance(k, Sym):
            raise Unsupported("symbolic dict key / set element")
        if isinstance(k, tuple):
            return tuple(self.hashable(x) for x in k)
        if isinstance(k, Ref):
            c = self.cell(k)
            if isinstance(c, (HList, HDict, HSet)):
                self.raise_exc("TypeError", ("unhashable",))
        return k

    def ex_JoinedStr(self, e, fr):
        parts = []
        for v in e.values:
            if isinstance(v, ast.Constant):
                parts.append(v.value)
            else:
                val = self.eval(v.value, fr)
                spec = None
                if v.format_spec is not None:
                    spec = self.eval(v.format_spec, fr)
                    if isinstance(spec, Sym):
                        raise Unsupported("symbolic format spec")
                if v.conversion == 114:
                    s = self.to_repr(val)
                else:
                    s = self.format_value(val, spec)
                parts.append(s)
        if all(isinstance(p, str) for p in parts):
            return "".join(parts)
        return ops.str_concat(parts)

    def format_value(self, val, spec):
        if isinstance(val, Sym):
            if val.k == "str" and not spec or spec == "s":
                return val
            reg = self.ghost.setdefault("fmt_terms", {})
            if not spec and val.k == "int":
                # str(i) of an integer: exact (SMT-LIB int.to.str on the absolute value, with the sign)
                t = z3.If(val.t >= 0, z3.IntToStr(val.t), z3.Concat(z3.StringVal("-"), z3.IntToStr(-val.t)))
                reg[t.get_id()] = val
                return Sym(t, "str")
            if not spec and val.k == "bool":
                return Sym(z3.If(val.t, z3.StringVal("True"), z3.StringVal("False")), "str")
            # the text of a symbolic float is an opaque symbolic string: non-empty and none of the keywords
            self.assumed.add("format(float): uninterpreted function from numbers to non-empty strings other than none/true/false")
            f = smt.uf("fmt_" + val.k + "_" + (spec or "").replace(".", "_"), ops.elem_sort(val.k) if val.k != "real" else z3.RealSort(), ops.STR)
            t = f(val.t)
            if t.get_id() not in reg:
                self.axioms.append(z3.And(z3.Length(t) > 0, *[t != z3.StringVal(w) for w in ("none", "true", "false", "None", "True", "False")]))
            reg[t.get_id()] = val
            return Sym(t, "str")
        if isinstance(val, Ref):
            c = self.cell(val)
            if isinstance(c, HObj):
                if spec:
                    raise Unsupported("format spec on object")
                return self.to_str(val)
            return self.to_str(val)
        if isinstance(val, (ClassVal, FuncVal, EnumMember)):
            return repr(val)
        return format(val, spec or "")

    def to_str(self, v):
        if isinstance(v, Sym):
            if v.k == "str":
                return v
            return self.format_value(v, None)
        if isinstance(v, Ref):
            c = self.cell(v)
            if isinstance(c, HObj):
                f, _ = c.cls.lookup("__str__")
                if f is None:
                    f, _ = c.cls.lookup("__repr__")
                if f is not None:
                    return self.call(BoundMethod(f, v), [], {})
                return f"<{c.cls.name} object>"
            if isinstance(c, HList):
                if c.items is None:
                    raise Unsupported("str of symbolic list")
                parts = [self.to_repr(x) for x in c.items]
                if not all(isinstance(p, str) for p in parts):
                    raise Unsupported("str of list with symbolic elements")
                return "[" + ", ".join(parts) + "]"
            if isinstance(c, HDict):
                parts = [f"{k!r}: {self.to_repr(x)}" for k, x in c.d.items()]
                return "{" + ", ".join(parts) + "}"
            if isinstance(c, HExc):
                return str(c.args[0]) if len(c.args) == 1 else str(c.args)
        if isinstance(v, tuple):
            parts = [self.to_repr(x) for x in v]
            return "(" + ", ".join(parts) + ("," if len(parts) == 1 else "") + ")"
        return str(v)

    def to_repr(self, v):
        if isinstance(v, str):
            return repr(v)
        if isinstance(v, Ref):
            c = self.cell(v)
            if isinstance(c, HObj):
                f, _ = c.cls.lookup("__repr__")
                if f is not None:
                    return self.call(BoundMethod(f, v), [], {})
        return self.to_str(v)

    def ex_UnaryOp(self, e, fr):
        v = self.eval(e.operand, fr)
        if isinstance(e.op, ast.Not):
            if isinstance(v, Sym) and self.spec_mode:
                return Sym(z3.Not(ops.truth_term(v)), "bool")
            return not self.truthy(v)
        if isinstance(v, Ref) and isinstance(self.cell(v), HObj):
            name = {ast.USub: "__neg__", ast.UAdd: "__pos__", ast.Invert: "__invert__"}[type(e.op)]
            return self.call(self.getattr(v, name), [], {})
        if isinstance(v, Sym):
            return ops.unary(e.op, v)
        if isinstance(v, Ref) and ops._array_cell(self, v) is not None and isinstance(e.op, (ast.USub, ast.UAdd)):
            # element-wise on an array: a new array
            items = [ops.unary(e.op, x) if isinstance(x, Sym) else (-x if isinstance(e.op, ast.USub) else +x) for x in ops._array_cell(self, v).items]
            return ops.make_array(self, items, npdtype=getattr(ops._array_cell(self, v), "npdtype", None))
        if isinstance(e.op, ast.USub):
            return -v
        if isinstance(e.op, ast.UAdd):
            return +v
        if isinstance(e.op, ast.Invert):
            return ~v
        raise Unsupported("unary op")

    def ex_BoolOp(self, e, fr):
        is_and = isinstance(e.op, ast.And)
        if self.spec_mode:
            # specification expressions: symbolic booleans are accumulated into one formula instead of
            # forking; concrete operands short-circuit as in Python; other values follow Python's
            # value semantics (`a and b` is a or b)
            acc = []
            v = None
            for x in e.values:
                v = self.eval(x, fr)
                if isinstance(v, Sym) and v.k == "bool":
                    acc.append(v.t)
                    continue
                t = self.truthy(v)
                if (is_and and not t) or ((not is_and) and t):
                    if not acc:
                        return v
                    if isinstance(v, bool):
                        return ops.mk(z3.And(*acc, z3.BoolVal(False)) if is_and else z3.Or(*acc, z3.BoolVal(True)), "bool")
                    raise Unsupported("spec connective mixing symbolic booleans and non-boolean values")
                if acc and not isinstance(v, bool):
                    raise Unsupported("spec connective mixing symbolic booleans and non-boolean values")
            if acc:
                return ops.mk(z3.And(*acc) if is_and else z3.Or(*acc), "bool")
            return v
        v = None
        for x in e.values:
            v = self.eval(x, fr)
            t = self.truthy(v)
            if is_and and not t:
                return v
            if (not is_and) and t:
                return v
        return v

    def ex_IfExp(self, e, fr):
        c = self.eval(e.test, fr)
        if self.spec_mode and isinstance(c, Sym):
            a = self.eval(e.body, fr)
            b = self.eval(e.orelse, fr)
            r = ops.ite(ops.truth_term(c), a, b)
            if r is not None:
                return r
            raise Unsupported("spec if-expression over non-scalar values")
        if self.truthy(c):
            return self.eval(e.body, fr)
        return self.eval(e.orelse, fr)

    def ex_BinOp(self, e, fr):
        a = self.eval(e.left, fr)
        b = self.eval(e.right, fr)
        return self.binop(e.op, a, b)

    def ex_Compare(self, e, fr):
        left = self.eval(e.left, fr)
        result = None
        for op, rn in zip(e.ops, e.comparators):
            right = self.eval(rn, fr)
            r = self.compare(op, left, right)
            if len(e.ops) == 1:
                return r
            if self.spec_mode and isinstance(r, Sym):
                result = r if result is None else Sym(z3.And(ops.truth_term(result), ops.truth_term(r)), "bool")
            else:
                if not self.truthy(r):
                    return r
                result = r if result is None or not isinstance(result, Sym) else result
            left = right
        return result

    def ex_Attribute(self, e, fr):
        return self.getattr(self.eval(e.value, fr), e.attr)

    def ex_Subscript(self, e, fr):
        o = self.eval(e.value, fr)
        return self.getitem(o, self.eval_index(e.slice, fr))

    def eval_index(self, sl, fr):
        if isinstance(sl, ast.Slice):
            lo = self.eval(sl.lower, fr) if sl.lower is not None else None
            hi = self.eval(sl.upper, fr) if sl.upper is not None else None
            st = self.eval(sl.step, fr) if sl.step is not None else None
            return SliceV(lo, hi, st)
        return self.eval(sl, fr)

    def ex_Slice(self, e, fr):
        return self.eval_index(e, fr)

    def ex_Lambda(self, e, fr):
        fn = ast.FunctionDef(name="<lambda>", args=e.args, body=[ast.Return(value=e.body)], decorator_list=[])
        ast.copy_location(fn, e)
        ast.fix_missing_locations(fn)
        fv = FuncVal(fn, fr.module, "<lambda>", fr, None)
        fv.defaults = [self.eval(d, fr) for d in e.args.defaults]
        fv.kw_defaults = [self.eval(d, fr) if d is not None else None for d in e.args.kw_defaults]
        fv.is_gen = False
        return fv

    def ex_Starred(self, e, fr):
        raise Unsupported("starred expression")

    def comp_iter(self, gens, fr, k, emit):
        if k == len(gens):
            emit()
            return
        g = gens[k]
        for v in self.iterate(self.eval(g.iter, fr)):
            self.tick()
            self.assign(g.target, v, fr)
            if all(self.truthy(self.eval(c, fr)) for c in g.ifs):
                self.comp_iter(gens, fr, k + 1, emit)

    def comp_frame(self, fr):
        return Frame(fr.module, {}, fr.func, closure=fr)

    def ex_ListComp(self, e, fr):
        out = []
        cf = self.comp_frame(fr)
        self.comp_iter(e.generators, cf, 0, lambda: out.append(self.eval(e.elt, cf)))
        return self.new_list(out)

    def ex_GeneratorExp(self, e, fr):
        if self.spec_mode:
            return self.ex_ListComp(e, fr)   # specifications are pure: laziness is unobservable
        cf = self.comp_frame(fr)
        first = e.generators[0]
        it0 = self.iterate(self.eval(first.iter, fr))   # the outermost iterable is evaluated when the generator is created

        def thunk():
            out = []

            def rest():
                self.comp_iter(e.generators, cf, 1, lambda: out.append(self.eval(e.elt, cf)))
            for v in it0:
                self.tick()
                self.assign(first.target, v, cf)
                if all(self.truthy(self.eval(c, cf)) for c in first.ifs):
                    rest()
            return out
        return self.alloc(HGen(thunk))

    def ex_SetComp(self, e, fr):
        out = set()
        cf = self.comp_frame(fr)
        self.comp_iter(e.generators, cf, 0, lambda: out.add(self.hashable(self.eval(e.elt, cf))))
        return self.alloc(HSet(out))

    def ex_DictComp(self, e, fr):
        out = {}
        cf = self.comp_frame(fr)

        def emit():
            k = self.hashable(self.eval(e.key, cf))
            out[k] = self.eval(e.value, cf)
        self.comp_iter(e.generators, cf, 0, emit)
        return self.alloc(HDict(out))

    def ex_Yield(self, e, fr):
        v = self.eval(e.value, fr) if e.value is not None else None
        return self.do_yield(fr, v)

    def do_yield(self, fr, v):
        f = fr
        while f is not None and f.yields is None:
            f = f.closure
        if f is None:
            raise Unsupported("yield outside generator")
        g = getattr(f, "genobj", None)
        if g is not None:
            # hand the value to the consumer and wait until it asks for the next one
            g.msg = ("value", v)
            g.to_con.release()
            g.to_gen.acquire()
            if g.killed:
                raise _GenKill()
            return None
        if self.obligation_sink is not None:
            self.obligation_sink.on_yield(self, fr, v)
        f.yields.append(v)
        return None

    def ex_YieldFrom(self, e, fr):
        it = self.eval(e.value, fr)
        if isinstance(it, Ref) and isinstance(self.cell(it), HGenFn):
            while True:
                kind, v = self.gen_next(self.cell(it))
                if kind == "stop":
                    break
                self.do_yield(fr, v)
            return None
        for v in self.iterate(it):
            self.do_yield(fr, v)
        return None

    def gen_next(self, g):
        """resume the generator for one item: ('value', v) or ('stop', None); exceptions of its body are raised here"""
        import threading
        if g.done:
            return ("stop", None)
        if g.thread is None:
            def run():
                g.to_gen.acquire()
                try:
                    if g.killed:
                        raise _GenKill()
                    self.call_depth += 1
                    try:
                        self.exec_block(g.fv.node.body, g.fr)
                    finally:
                        self.call_depth -= 1
                    g.msg = ("stop", None)
                except ReturnEx:
                    g.msg = ("stop", None)
                except _GenKill:
                    g.msg = ("killed", None)
                except BaseException as ex:   # PyRaise, Infeasible, Unsupported, PathEnd ...: re-raised at the consumer
                    g.msg = ("exc", ex)
                g.done = True
                g.to_con.release()
            threading.stack_size(256 * 1024 * 1024)
            g.thread = threading.Thread(target=run, daemon=True)
            g.thread.start()
        g.to_gen.release()
        g.to_con.acquire()
        kind, v = g.msg
        if kind == "exc":
            raise v
        if kind == "killed":
            return ("stop", None)
        return (kind, v)

    def kill_generators(self):
        for g in self.live_gens:
            if g.thread is not None and not g.done:
                g.killed = True
                g.to_gen.release()
                g.thread.join(timeout=10)
        self.live_gens = []

    def loop_contracts_for(self, fv):
        return any(k[0] == fv.qualname for k in (self.loop_contracts or {}))

    def ex_Call(self, e, fr):
        # zero-argument super()
        if isinstance(e.func, ast.Name) and e.func.id == "super" and not e.args:
            f = fr
            while f is not None and f.func is None:
                f = f.closure
            if f is None or f.func.cls is None:
                raise Unsupported("super() outside method")
            selfname = f.func.node.args.args[0].arg
            return SuperProxy(f.func.cls, f.locals[selfname])
        fn = self.eval(e.func, fr)
        args = []
        for a in e.args:
            if isinstance(a, ast.Starred):
                args.extend(self.iterate(self.eval(a.value, fr)))
            else:
                args.append(self.eval(a, fr))
        kwargs = {}
        for k in e.keywords:
            if k.arg is None:
                for kk, vv in self.dict_items(self.eval(k.value, fr)):
                    kwargs[kk] = vv
            else:
                kwargs[k.arg] = self.eval(k.value, fr)
        return self.call(fn, args, kwargs, node=e)

    # ---- calls ------------------------------------------------------------------------------
    def call(self, fn, args, kwargs, node=None):
        self.tick()
        if isinstance(fn, BoundMethod):
            return self.call(fn.func, [fn.self_v] + list(args), kwargs, node)
        if isinstance(fn, FuncVal):
            hook = self.world.contract_hook
            if hook is not None and not self.loader:
                r = hook(self, fn, args, kwargs)
                if r is not NotImplemented:
                    return r
            return self.call_func(fn, args, kwargs)
        if isinstance(fn, ClassVal):
            return self.instantiate(fn, args, kwargs)
        if isinstance(fn, SpecFn):
            return fn.fn(self, args, kwargs)
        if isinstance(fn, Ext):
            return self.call_ext(fn, args, kwargs)
        if isinstance(fn, Ref):
            c = self.cell(fn)
            if isinstance(c, HObj):
                f, _ = c.cls.lookup("__call__")
                if f is not None:
                    return self.call(BoundMethod(f, fn), args, kwargs)
        raise Unsupported("call of %r" % (fn,))

    def bind(self, fv, args, kwargs):
        a = fv.node.args
        names = [x.arg for x in a.posonlyargs + a.args]
        locs = {}
        args = list(args)
        n = len(names)
        for i, nm in enumerate(names):
            if i < len(args):
                locs[nm] = args[i]
        extra = args[n:]
        if a.vararg is not None:
            locs[a.vararg.arg] = tuple(extra)
        elif extra:
            self.raise_exc("TypeError", (f"{fv.qualname}() takes {n} positional arguments but {len(args)} were given",))
        kw = dict(kwargs)
        for nm in names:
            if nm in kw:
                if nm in locs:
                    self.raise_exc("TypeError", ("multiple values for argument " + nm,))
                locs[nm] = kw.pop(nm)
        nd = len(fv.defaults)
        for i, nm in enumerate(names):
            if nm not in locs:
                j = i - (n - nd)
                if j >= 0:
                    locs[nm] = fv.defaults[j]
                else:
                    self.raise_exc("TypeError", (f"{fv.qualname}() missing required argument {nm}",))
        for x, d in zip(a.kwonlyargs, fv.kw_defaults):
            if x.arg in kw:
                locs[x.arg] = kw.pop(x.arg)
            elif d is not None or True:
                locs[x.arg] = d
        if a.kwarg is not None:
            locs[a.kwarg.arg] = self.alloc(HDict(kw))
        elif kw:
            self.raise_exc("TypeError", (f"{fv.qualname}() got an unexpected keyword argument {list(kw)[0]}",))
        return locs

    def call_func(self, fv, args, kwargs, frame_out=None, eager_generator=False):
        locs = self.bind(fv, args, kwargs)
        fr = Frame(fv.module, locs, fv, closure=fv.closure)
        if frame_out is not None:
            frame_out.append(fr)
        if fv.is_gen and not eager_generator and not self.spec_mode and not self.loop_contracts_for(fv):
            # called from interpreted code: a lazy generator object (the function under contract itself is run eagerly
            # by the verifier, which checks its yields one by one)
            fr.yields = []
            g = HGenFn(fv, fr)
            fr.genobj = g
            self.live_gens.append(g)
            return self.alloc(g)
        self.call_depth += 1
        if self.call_depth > 60:
            raise Unsupported("recursion depth (recursive function without contract?)")
        try:
            if fv.is_gen:
                # generator functions are run to completion here and their values handed over as a list; that is the
                # same as CPython's lazy evaluation only if the body has no effect on objects that existed before the
                # call and does not raise -- otherwise the order of effects relative to the consumer matters
                fr.yields = []
                first_new, n0 = self.next_id, len(self.write_log)
                try:
                    self.exec_block(fv.node.body, fr)
                except ReturnEx:
                    pass
                except PyRaise:
                    if eager_generator:
                        raise    # the function under contract: consumed to the end by the verifier, so the raise is the call's outcome
                    raise Unsupported("generator function that raises (evaluated eagerly by the engine)")
                if not eager_generator and any(i < first_new for i in self.write_log[n0:]):
                    raise Unsupported("generator function with side effects on existing objects (evaluated eagerly by the engine)")
                return self.new_list(fr.yields)
            try:
                self.exec_block(fv.node.body, fr)
            except ReturnEx as r:
                return r.v
            return None
        finally:
            self.call_depth -= 1

    def instantiate(self, cv, args, kwargs):
        if cv.ext_base(BaseException):
            return self.alloc(HExc(cv.name, tuple(args), Exception))
        new, _ = cv.lookup("__new__")
        if new is not None:
            obj = self.call_func(new, [cv] + list(args), kwargs)
            if not (isinstance(obj, Ref) and isinstance(self.cell(obj), HObj) and self.cell(obj).cls.issub(cv)):
                return obj
        else:
            obj = self.alloc(HObj(cv))
        init, owner = cv.lookup("__init__")
        if init is not None:
            self.call(BoundMethod(init, obj), args, kwargs)
        elif any(c.is_dataclass for c in cv.linear()):
            self.dataclass_init(cv, obj, args, kwargs)
        elif args or kwargs:
            if new is None:
                self.raise_exc("TypeError", (cv.name + "() takes no arguments",))
        return obj

    def dataclass_init(self, cv, obj, args, kwargs):
        names = []
        for c in reversed(cv.linear()):
            if c.is_dataclass:
                for n in c.ann:
                    if n not in names:
                        names.append(n)
        cell = self.wcell(obj)
        args = list(args)
        kw = dict(kwargs)
        if len(args) > len(names):
            self.raise_exc("TypeError", ("too many positional arguments",))
        for i, n in enumerate(names):
            if i < len(args):
                cell.fields[n] = args[i]
            elif n in kw:
                cell.fields[n] = kw.pop(n)
            else:
                d, owner = cv.lookup(n)
                if d is _DC_FACTORY:
                    fac = None
                    for c in cv.linear():
                        fac = c.__dict__.get("dc_factories", {}).get(n)
                        if fac is not None:
                            break
                    cell.fields[n] = self.call(fac, [], {})
                elif owner is not None:
                    cell.fields[n] = d
                else:
                    self.raise_exc("TypeError", ("missing argument " + n,))
        if kw:
            self.raise_exc("TypeError", ("unexpected keyword " + list(kw)[0],))
        post, _ = cv.lookup("__post_init__")
        if post is not None:
            self.call(BoundMethod(post, obj), [], {})

    def call_ext(self, fn, args, kwargs):
        from . import intrinsics
        return intrinsics.call_ext(self, fn, args, kwargs)

    # ---- attribute access -------------------------------------------------------------------
    def getattr(self, o, name, default=_builtins.NotImplemented):
        from . import intrinsics
        return intrinsics.get_attr(self, o, name, default)

    def setattr(self, o, name, v):
        if isinstance(o, Ref):
            c = self.cell(o)
            if isinstance(c, HObj):
                self.wcell(o, name).fields[name] = v
                return
        if isinstance(o, ClassVal):
            if not self.loader:
                raise Unsupported("assignment to class attribute at run time")
            o.attrs[name] = v
            return
        raise Unsupported("setattr on %r" % (o,))

    def getitem(self, o, k):
        from . import intrinsics
        return intrinsics.get_item(self, o, k)

    def setitem(self, o, k, v):
        from . import intrinsics
        return intrinsics.set_item(self, o, k, v)

    def delitem(self, o, k):
        from . import intrinsics
        return intrinsics.del_item(self, o, k)

    def iterate(self, v):
        from . import intrinsics
        return intrinsics.iterate(self, v)

    def dict_items(self, v):
        if isinstance(v, Ref):
            c = self.cell(v)
            if isinstance(c, HDict):
                return list(c.d.items())
        raise Unsupported("** of non-dict")

    def binop(self, op, a, b, inplace=False):
        return ops.binop(self, op, a, b, inplace)

    def compare(self, op, a, b):
        return ops.compare(self, op, a, b)


_NOFIELD = object()


class SliceV:
    def __init__(self, lo, hi, st):
        self.lo, self.hi, self.st = lo, hi, st


class _DcFactory:
    def __repr__(self):
        return "<dataclass default_factory>"


_DC_FACTORY = _DcFactory()


def _walk_func(fn):
    """walk a function body without descending into nested function/class definitions"""
    todo = list(fn.body)
    while todo:
        n = todo.pop()
        yield n
        for c in ast.iter_child_nodes(n):
            if isinstance(c, (ast.FunctionDef, ast.ClassDef, ast.Lambda)):
                continue
            todo.append(c)
