"""Loops with contracts: cut-point treatment (invariant initially / preserved / used at exit)."""
import ast

import z3

from .values import *
from . import ops, smt
from .interp import PathEnd, BreakEx, ContinueEx, Unsupported, Infeasible
from .intrinsics import RangeV


def _havoc_value(ctx, cur, hint, kind=None):
    if kind is None:
        k = ops.kind_of(cur)
        if k is None:
            raise Unsupported(f"cannot havoc {hint}: value {cur!r} has no scalar kind (state kinds= in the loop frame)")
        kind = k
    return ctx.fresh(kind, hint)


def havoc(ctx, fr, target, spec):
    t = target.strip()
    kind = spec.kinds.get(t)
    if t.endswith("[]"):
        o = ctx.eval(ast.parse(t[:-2], mode="eval").body, fr)
        c = ctx.wcell(o, "[]")
        ek = kind or c.ek
        if ek is None and c.items:
            ek = ops.kind_of(c.items[0])
        if ek is None:
            raise Unsupported("havoc of list without element kind: " + t)
        ctx.fresh_n += 1
        c.items, c.ek = None, ek
        c.seq = z3.Const(f"{t}!{ctx.fresh_n}", z3.SeqSort(ops.elem_sort(ek)))
        return
    node = ast.parse(t, mode="eval").body
    if isinstance(node, ast.Name):
        cur = fr.locals.get(node.id)
        fr.locals[node.id] = _havoc_value(ctx, cur, node.id, kind)
        return
    if isinstance(node, ast.Attribute):
        o = ctx.eval(node.value, fr)
        cur = ctx.getattr(o, node.attr)
        ctx.setattr(o, node.attr, _havoc_value(ctx, cur, node.attr, kind))
        return
    raise Unsupported("loop frame target " + t)


def run_cut_loop(ctx, s, fr, spec, it):
    sink = ctx.obligation_sink
    tag = f"loop[{spec.ordinal}]"
    is_for = isinstance(s, ast.For)
    idx_name = "it_index"
    lo = hi = seq = None
    enum_start = None
    if is_for:
        from .intrinsics import EnumV
        if isinstance(it, EnumV):
            enum_start = it.start
            it = it.inner
        if isinstance(it, RangeV):
            if it.step != 1:
                raise Unsupported("symbolic range with step")
            lo, hi = it.lo, it.hi
        elif isinstance(it, Ref) and isinstance(ctx.cell(it), HList):
            c = ctx.cell(it)
            seq = c
            lo = 0
            hi = len(c.items) if c.items is not None else ops.mk(z3.Length(c.seq), "int")
        elif isinstance(it, tuple):
            raise Unsupported("loop contract on a concrete tuple iteration (unrolled instead)")
        else:
            raise Unsupported("loop contract over this iterable")
        fr.locals[idx_name] = lo
    # 1. invariant holds on entry
    for lab, e in spec.invariants:
        v = sink.eval_in_code_frame(ctx, fr, e)
        sink.check(ctx, f"{tag}/{lab}/init", v)
    # 2. havoc the loop frame, assume the invariant
    for t in spec.modifies:
        havoc(ctx, fr, t, spec)
    if is_for:
        i = ctx.fresh("int", idx_name)
        fr.locals[idx_name] = i
        ctx.assume(ops.mk(ops.term(i, "int") >= ops.term(lo, "int"), "bool"))
    for lab, e in spec.invariants:
        v = sink.eval_in_code_frame(ctx, fr, e)
        if isinstance(v, Sym):
            ctx.assume(ops.truth_term(v))
        elif not ctx.truthy(v):
            raise Infeasible()
    # 3. one arbitrary iteration, or exit
    if is_for:
        i = fr.locals[idx_name]
        more = ops.mk(ops.term(i, "int") < ops.term(hi, "int"), "bool")
        go = ctx.truthy(more)
    else:
        go = ctx.truthy(ctx.eval(s.test, fr))
    if go:
        gen = fr
        while gen is not None and gen.yields is None:
            gen = gen.closure
        ny0 = len(gen.yields) if gen is not None else 0
        d0 = None
        if spec.decreases:
            d0 = sink.eval_in_code_frame(ctx, fr, spec.decreases)
        if is_for:
            i = fr.locals[idx_name]
            if seq is not None:
                if seq.items is not None:
                    raise Unsupported("loop contract over a concrete list")
                elem = ops.mk(seq.seq[ops.term(i, "int")], seq.ek)
            else:
                elem = i
            if enum_start is not None:
                elem = (ctx.binop(ast.Add(), i, enum_start), elem)
            ctx.assign(s.target, elem, fr)
        try:
            ctx.exec_block(s.body, fr)
        except ContinueEx:
            pass
        except BreakEx:
            return  # continue after the loop; `else` is skipped
        if is_for:
            fr.locals[idx_name] = ctx.binop(ast.Add(), fr.locals[idx_name], 1)
        for lab, e in spec.invariants:
            v = sink.eval_in_code_frame(ctx, fr, e)
            sink.check(ctx, f"{tag}/{lab}/preserved", v)
        want = getattr(spec, "yields_per_iteration", None)
        if want is not None:
            got = (len(gen.yields) - ny0) if gen is not None else 0
            sink.check(ctx, f"{tag}/yields-per-iteration", got == want)
        if spec.decreases:
            d1 = sink.eval_in_code_frame(ctx, fr, spec.decreases)
            g = ops.mk(z3.And(ops.term(d0, "int") >= 0, ops.term(d1, "int") < ops.term(d0, "int")), "bool")
            sink.check(ctx, f"{tag}/decreases", g)
        raise PathEnd()
    # exit: invariant and negated guard are in the path condition
    ctx.exec_block(s.orelse, fr)
