"""Helpers available inside clause expressions and spec functions (both symbolically and natively)."""
import z3

from .values import *
from . import ops, smt
from .ops import mk, term


def _implies(ctx, args, kw):
    a, b = args
    if isinstance(a, Sym) or isinstance(b, Sym):
        return mk(z3.Implies(ops.as_bool_term(a) if not isinstance(a, bool) else z3.BoolVal(a),
                             ops.as_bool_term(b) if not isinstance(b, bool) else z3.BoolVal(b)), "bool")
    return (not a) or bool(b)


def _iff(ctx, args, kw):
    a, b = args
    if isinstance(a, Sym) or isinstance(b, Sym):
        ta = ops.as_bool_term(a) if not isinstance(a, bool) else z3.BoolVal(a)
        tb = ops.as_bool_term(b) if not isinstance(b, bool) else z3.BoolVal(b)
        return mk(ta == tb, "bool")
    return bool(a) == bool(b)


def _ite(ctx, args, kw):
    c, a, b = args
    if isinstance(c, Sym):
        r = ops.ite(ops.truth_term(c), a, b)
        if r is None:
            from .interp import Unsupported
            raise Unsupported("ite over non-scalars")
        return r
    return a if c else b


def _is_fresh(ctx, args, kw):
    v = args[0]
    return isinstance(v, Ref) and ctx.entry_id is None and v.id >= getattr(ctx, "last_entry_id", 0)


def _same_object(ctx, args, kw):
    a, b = args
    return isinstance(a, Ref) and isinstance(b, Ref) and a.id == b.id


def _typename(ctx, args, kw):
    v = args[0]
    if isinstance(v, Ref):
        c = ctx.cell(v)
        if isinstance(c, HObj):
            return c.cls.name
        return {"list": "list", "dict": "dict", "set": "set", "exc": "Exception", "gen": "generator", "genfn": "generator"}[c.kind]
    if isinstance(v, Sym):
        return {"int": "int", "real": "float", "bool": "bool", "str": "str"}[v.k]
    if v is None:
        return "NoneType"
    return type(v).__name__


def _approx(ctx, args, kw):
    """approx(a, b, rel): |a-b| <= rel*max(|a|,|b|) -- exact equality in the real-arithmetic proof"""
    a, b = args[0], args[1]
    if isinstance(a, Sym) or isinstance(b, Sym):
        return mk(term(a, "real") == term(b, "real"), "bool")
    rel = args[2] if len(args) > 2 else 1e-9
    return abs(a - b) <= rel * max(abs(a), abs(b), 1e-300)


def _mathfn(np_name):
    def f(ctx, args, kw):
        import numpy as np
        from .intrinsics import EXT_MODELS, _key
        fn = getattr(np, np_name)
        if isinstance(args[0], Sym):
            return EXT_MODELS[_key(fn)](ctx, args, kw)
        return float(fn(args[0]))
    return f


def _pow10(ctx, args, kw):
    import numpy as np
    from .intrinsics import m_power
    if isinstance(args[0], Sym):
        return m_power(ctx, [10, args[0]], kw)
    return float(np.power(10.0, args[0]))


def install_spec_helpers(g):
    g["log10"] = SpecFn("log10", _mathfn("log10"))
    g["ln"] = SpecFn("ln", _mathfn("log"))
    g["exp"] = SpecFn("exp", _mathfn("exp"))
    g["pow10"] = SpecFn("pow10", _pow10)
    for nm in ("sin", "cos", "tan", "sqrt"):
        g[nm] = SpecFn(nm, _mathfn(nm))
    g["implies"] = SpecFn("implies", _implies)
    g["iff"] = SpecFn("iff", _iff)
    g["ite"] = SpecFn("ite", _ite)
    g["same_object"] = SpecFn("same_object", _same_object)
    g["typename"] = SpecFn("typename", _typename)
    g["approx"] = SpecFn("approx", _approx)


# native counterparts (used when clauses are evaluated by CPython)
def n_implies(a, b):
    return (not a) or bool(b)


def n_iff(a, b):
    return bool(a) == bool(b)


def n_ite(c, a, b):
    return a if c else b


def n_same_object(a, b):
    return a is b


def n_typename(v):
    return type(v).__name__


def n_approx(a, b, rel=1e-9):
    try:
        return abs(a - b) <= rel * max(abs(a), abs(b)) + 1e-300
    except TypeError:
        return a == b


import math as _math

NATIVE_HELPERS = {"sin": _math.sin, "cos": _math.cos, "tan": _math.tan, "sqrt": _math.sqrt, "log10": _math.log10, "ln": _math.log, "exp": _math.exp, "pow10": lambda x: 10.0 ** x,"implies": n_implies, "iff": n_iff, "ite": n_ite, "same_object": n_same_object,
                  "typename": n_typename, "approx": n_approx}
