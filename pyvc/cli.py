"""./check <property> [--tier quick|thorough] [--replay path] [--update-baseline]"""
import argparse
import glob
import hashlib
import importlib
import json
import os
import random
import sys
import time
import traceback

ROOT = os.path.dirname(os.path.dirname(os.path.abspath(__file__)))

GLOBAL_ASSUMPTIONS = [
    "generator FUNCTIONS (yield) are run to completion when called and their values handed over as a list (sound for the generators of this repository, whose bodies have no effects besides yielding); generator EXPRESSIONS are evaluated when first iterated",
    "engine: the pyvc symbolic executor and its encoding of the Python subset (pyvc/*.py) are trusted; guarded by canaries, the CPython cross-check and seeded mutants, not verified",
    "solvers: z3 5.1 (in process) and cvc5 1.0.3 (CLI, only for queries z3 leaves unknown) are trusted",
    "machine arithmetic treated as mathematical: Python float -> SMT Real (no rounding, no nan/inf); Python int -> SMT Int (exact)",
    "verified text: every function under contract is re-parsed from /repo/src on every run; comments, docstrings and type annotations are dropped, nothing else",
    "callees without their own contract are executed inline (their real body, same run); callees outside the repository (numpy, math, re, ...) are executed natively on concrete arguments and through the stated models on symbolic ones",
    "module-level tables (units, prefixes, periodic table) are the values produced by executing the repository's own module code in the interpreter on this run",
]


def main(argv=None):
    ap = argparse.ArgumentParser()
    ap.add_argument("prop")
    ap.add_argument("--tier", default=os.environ.get("VERIF_TIER", "quick"))
    ap.add_argument("--replay")
    ap.add_argument("--update-baseline", action="store_true")
    ap.add_argument("--jobs", type=int, default=None)
    ap.add_argument("-v", "--verbose", action="store_true")
    a = ap.parse_args(argv)
    seed = int(os.environ.get("VERIF_SEED", "0"))
    sys.path.insert(0, ROOT)
    os.environ["PYVC_TIER"] = a.tier
    if os.environ.get("PYVC_SRC"):
        # development aid: verify a scratch copy of the sources (also used natively for replay)
        sys.path.insert(0, os.environ["PYVC_SRC"])
    try:
        if a.replay:
            return replay_file(a.prop, a.replay)
        return check(a.prop, a.tier, seed, a)
    except SystemExit:
        raise
    except Exception:
        traceback.print_exc()
        print(f"CHECKER-ERROR property={a.prop}")
        return 3


def baseline_path(tier="quick"):
    """reference obligation names per tier (the thorough tier generates more scenarios under other names)"""
    return os.path.join(ROOT, "baseline", "obligations.json" if tier != "thorough" else "obligations.thorough.json")


def load_baseline(tier="quick"):
    p = baseline_path(tier)
    if os.path.exists(p):
        return json.load(open(p))
    return {}


def check(prop, tier, seed, a):
    from . import driver
    from .native import run_native, _short
    from contracts.index import PROPS
    t0 = time.time()
    cfg = PROPS[prop]
    contracts, lemmas, out = driver.run_property(prop, tier, seed, jobs=a.jobs)
    obs, meta, crashes = driver.aggregate(prop, contracts, lemmas, out)
    timeouts = [c for c in crashes if c.startswith("TIMEOUT ")]
    hard = [c for c in crashes if not c.startswith("TIMEOUT ")]
    for c in hard:
        print("CHECKER-ERROR", c)
    if hard:
        return 3
    if not obs:
        for c in timeouts:
            print("UNDECIDED", c.strip())
        print("CHECKER-ERROR no obligations generated")
        return 3
    baseline = load_baseline(tier).get(prop, {})
    findings = [f for f in driver.load_known_findings() if f["property"] == prop]
    open_findings = [f for f in findings if f.get("status") == "open"]
    violations, undecided, known_hits = [], [], []
    os.makedirs(os.path.join(ROOT, "replay"), exist_ok=True)
    for old in glob.glob(os.path.join(ROOT, "replay", f"{prop}-*.json")):
        os.remove(old)
    for name, o in sorted(obs.items()):
        if o["status"] == "proved":
            continue
        if o["status"] == "unknown":
            undecided.append((name, o))
            continue
        # violated: replay the counter-model against the real code
        x = o["fail"]
        rep = dict(property=prop, obligation=name, backend=x["backend"], model=x["model"], path=x["path"],
                   solver_output="sat: " + (x["detail"] or ""), reproduced=False)
        if o["contract"] is not None:
            c = contracts[o["contract"]]
            rep["function"] = c.target
            rep["source_sha256"] = meta[c.name].get("sha")
            rep["scenario"] = o["sname"]
            try:
                # in a forked child: the real code may leave process-wide tables changed (that is what some violations are about),
                # which must not leak into the replay of the next counter-model
                from .driver import _native_in_child, _preimport_native
                _preimport_native()
                no = _native_in_child(c, o["sname"], x["model"] or {}, tolerant=False)
                if no is None:
                    rep["native"] = dict(error="the replay process ended without a result")
                else:
                    rep["native"] = dict(pre_ok=no["pre_ok"], exit=no["exit"], exc=no["exc_text"], result=no.get("result"), failed=no["failed"], error=no["error"])
                    rep["reproduced"] = bool(no["pre_ok"] and no["failed"])
            except Exception as e:
                rep["native"] = dict(error=f"{type(e).__name__}: {e}")
        kf = match_finding(open_findings, name, rep)
        if kf is not None:
            known_hits.append((kf, name))
            continue
        if name not in baseline and not rep["reproduced"] and baseline:
            undecided.append((name, o))
            continue
        path = os.path.join("replay", f"{prop}-{hashlib.sha1(name.encode()).hexdigest()[:10]}.json")
        json.dump(rep, open(os.path.join(ROOT, path), "w"), indent=1, default=str)
        violations.append((name, path, rep))
    missing = [n for n in baseline if n not in obs]
    bounded_crash = None
    # CPython cross-check of the proofs (sampled inputs through the real function, same clause text)
    cross_n, disagree = 0, []
    for cname, m in meta.items():
        cc = m.get("crosscheck") or {}
        cross_n += cc.get("evaluations", 0)
        for d in cc.get("disagreements", []):
            name = f"{prop}/{cname}/{d['obligation']}"
            if obs.get(name, {}).get("status") == "proved":
                disagree.append(dict(d, obligation=name))
    # bounded stand-in
    bounded = None
    if cfg.get("bounded"):
        bm = importlib.import_module(cfg["bounded"])
        try:
            bounded = bm.run(tier=tier, seed=seed, contracts=contracts)
        except Exception:
            # the stand-in itself crashed (it runs the real code; a changed tree can break the harness' own clean-up):
            # a checker error unless the proof obligations already decided the run
            bounded_crash = traceback.format_exc()
            bounded = None
        for v in (bounded or {}).get("violations", []):
            kf = match_finding(open_findings, v.get("obligation", ""), v)
            if kf is not None:
                known_hits.append((kf, v.get("obligation", "bounded")))
                continue
            path = os.path.join("replay", f"{prop}-bounded-{len(violations):03d}.json")
            json.dump(dict(property=prop, bounded=True, **v), open(os.path.join(ROOT, path), "w"), indent=1, default=str)
            violations.append((v.get("obligation", "bounded"), path, dict(reproduced=True, bounded=True)))
    wall = time.time() - t0
    n_ob = len(obs)
    n_dis = sum(1 for o in obs.values() if o["status"] == "proved")
    write_evidence(prop, tier, seed, cfg, contracts, obs, meta, bounded, violations, undecided, known_hits, wall, missing,
                   crosscheck=dict(evaluations=cross_n, disagreements=disagree,
                                   what="each scenario's real function run natively on sampled inputs satisfying the precondition; the clauses proved "
                                        "symbolically were evaluated by CPython on the outcome; a disagreement means an engine defect or float rounding and leaves the check UNDECIDED"))
    if a.update_baseline:
        os.makedirs(os.path.dirname(baseline_path(tier)), exist_ok=True)
        full = load_baseline(tier)
        full[prop] = {n: dict(backend=sorted(o["backends"]), paths=o["paths"]) for n, o in sorted(obs.items()) if o["status"] == "proved"}
        json.dump(full, open(baseline_path(tier), "w"), indent=1, sort_keys=True)
    seen = set()
    for kf, name in known_hits:
        if kf["id"] not in seen:
            seen.add(kf["id"])
            print(f"KNOWN-FINDING: property={prop} {kf['id']}: {kf['what']}")
    n_b = sum(1 for o in obs.values() if o.get("bound"))
    print(f"{prop}: obligations={n_ob - n_b}+{n_b} bounded-structure discharged={n_dis} undecided={len(undecided)} violations={len(violations)} "
          f"known={len(seen)} bounded={'%d evaluations' % bounded['evaluations'] if bounded else 'none'} crosscheck={cross_n} wall={wall:.1f}s")
    if bounded_crash and not violations:
        print(bounded_crash)
        print(f"CHECKER-ERROR property={prop} bounded stand-in crashed")
        return 3
    if violations:
        if bounded_crash:
            print("note: the bounded stand-in crashed on this tree: " + bounded_crash.strip().splitlines()[-1])
        for name, path, rep in violations:
            tail = "" if rep.get("reproduced") else " no-failing-input-found"
            print(f"  failed obligation: {name}")
            print(f"VIOLATION property={prop} replay={path}{tail}")
        return 1
    if undecided or missing or timeouts or disagree:
        for d in disagree:
            print(f"UNDECIDED crosscheck obligation={d['obligation']}: proved symbolically but fails natively on {d['inputs']}: {d['label']} {d['detail']}")
        for c in timeouts:
            print("UNDECIDED", c.strip())
        for name, o in undecided:
            print(f"UNDECIDED obligation={name}: {(o['fail'] or {}).get('detail')}")
        for n in missing:
            print(f"UNDECIDED obligation={n}: in the baseline but not generated on this run (function renamed or removed?)")
        return 2
    return 0


def match_finding(findings, name, rep):
    for f in findings:
        for pat in ([f["obligation"]] if f.get("obligation") else []) + list(f.get("obligations", [])):
            if pat == name or (pat.endswith("*") and name.startswith(pat[:-1])):
                return f
    return None


def write_evidence(prop, tier, seed, cfg, contracts, obs, meta, bounded, violations, undecided, known_hits, wall, missing, crosscheck=None):
    unb = {n: o for n, o in obs.items() if not o.get("bound")}
    bnd = {n: o for n, o in obs.items() if o.get("bound")}
    n_ob = len(unb)
    n_dis = sum(1 for o in unb.values() if o["status"] == "proved")
    backends = {}
    for o in obs.values():
        if o["status"] == "proved":
            for b in o["backends"]:
                backends[b] = backends.get(b, 0) + 1
    assumed = set()
    for m in meta.values():
        assumed |= set(m.get("assumed", []))
    slow = sorted(obs.items(), key=lambda kv: -kv[1]["secs"])[:3]
    samples = []
    for name, o in (list(sorted(unb.items()))[:5] + list(sorted(bnd.items()))[:2]):
        samples.append(dict(obligation=name, status=o["status"], backends=sorted(o["backends"]), paths=o["paths"], seconds=round(o["secs"], 4)))
    level = cfg.get("level", "other")
    if level == "proof" and (n_dis != n_ob):
        level = "other"
    cov = dict(
        obligations=n_ob, discharged=n_dis,
        checker_cmd=f"./check {prop} --tier {tier}",
        trusted_base=["pyvc symbolic executor (this repository, /verif/pyvc)", "z3 5.1", "cvc5 1.0.3", "CPython 3.12 (concrete evaluation)"],
        explanation=cfg.get("explanation", "contracts on the real functions, obligations generated from /repo's current AST by symbolic execution and discharged by SMT; bounded stand-in reported separately"),
        functions_under_contract=[dict(contract=k, target=v["target"], source_sha256=v.get("sha"), source_lines=v.get("lines"), paths=v["paths"], exits=v["exits"], seconds=v["secs"]) for k, v in sorted(meta.items())],
        discharged_by_backend=backends,
        solver_seconds=round(sum(o["secs"] for o in obs.values()), 3),
        slowest=[dict(obligation=n, seconds=round(o["secs"], 3)) for n, o in slow],
        undecided=[n for n, _ in undecided] + missing,
        known_findings=sorted({kf["id"] for kf, _ in known_hits}),
        samples=samples,
        evaluations=len(obs) + (bounded["evaluations"] if bounded else 0),
        distinct_nontrivial=n_dis,
        rule="one obligation = one named clause of one contract scenario (all paths); non-trivial = discharged by a solver query or by ground evaluation on a feasible path",
    )
    if bnd:
        cov["bounded_structure"] = dict(
            labelled="bounded",
            note="obligations generated and discharged like the others, but from scenarios whose data-structure size is enumerated up to a bound (cell values symbolic); NOT counted in obligations/discharged",
            obligations=len(bnd), discharged=sum(1 for o in bnd.values() if o["status"] == "proved"),
            bounds=sorted({o["bound"] for o in bnd.values()}))
    if bounded:
        cov["bounded"] = dict(labelled="bounded", **{k: v for k, v in bounded.items() if k != "violations"})
    if crosscheck is not None:
        cov["cpython_crosscheck"] = crosscheck
    ev = dict(property_id=prop, tier=tier if tier in ("quick", "thorough") else "quick", seed=seed, level=level,
              coverage=cov, assumptions=GLOBAL_ASSUMPTIONS + sorted(assumed) + list(cfg.get("assumptions", [])),
              wall_s=round(wall, 2), violations=len(violations))
    os.makedirs(os.path.join(ROOT, "evidence"), exist_ok=True)
    json.dump(ev, open(os.path.join(ROOT, "evidence", f"{prop}.json"), "w"), indent=1, default=str)


def replay_file(prop, path):
    from . import driver
    from .native import run_native
    from contracts.index import PROPS
    rep = json.load(open(path if os.path.isabs(path) else os.path.join(ROOT, path)))
    if rep.get("bounded"):
        print(json.dumps(rep, indent=1)[:2000])
        return 1
    contracts, lemmas = driver._load(PROPS[prop]["contracts"])
    for c in contracts:
        if rep["obligation"].startswith(f"{prop}/{c.name}/"):
            no = run_native(c, rep["scenario"], rep["model"] or {})
            print("pre_ok", no.pre_ok, "exit", no.exit, "exc", no.exc, "failed", no.failed)
            return 1 if (no.pre_ok and no.failed) else 0
    print("obligation not found")
    return 3


if __name__ == "__main__":
    sys.exit(main())
