"""Builtins, container methods, string methods and models of external functions (numpy, math).

Every model of an external function that is applied to a symbolic argument adds its name to
ctx.assumed, so the evidence lists exactly which assumed contracts a proof depends on.
"""
import ast
import builtins as _b
import math
from decimal import Decimal

import numpy as np
import z3

from .values import *
from . import ops, smt
from .ops import mk, term, kind_of


def U():
    from .interp import Unsupported
    return Unsupported


# --------------------------------------------------------------------------------------------
# native <-> interpreter conversion


def to_native(ctx, v, depth=0):
    if isinstance(v, Sym):
        raise U()("symbolic value passed to an unmodelled external function")
    if isinstance(v, Ref):
        c = ctx.cell(v)
        if isinstance(c, HList):
            if c.items is None:
                raise U()("symbolic list passed to external function")
            return [to_native(ctx, x, depth + 1) for x in c.items]
        if isinstance(c, HDict):
            return {k: to_native(ctx, x, depth + 1) for k, x in c.d.items()}
        if isinstance(c, HSet):
            return set(c.s)
        if isinstance(c, HExc):
            return Exception(*c.args)
        raise U()("repo object passed to an unmodelled external function")
    if isinstance(v, tuple):
        return tuple(to_native(ctx, x, depth + 1) for x in v)
    if isinstance(v, Ext):
        return v.obj
    if isinstance(v, (FuncVal, BoundMethod)):
        # callback into the interpreted program (e.g. the replacement function of re.sub)
        def bridge(*a, **k):
            r = ctx.call(v, [from_native(ctx, x) for x in a], {kk: from_native(ctx, x) for kk, x in k.items()})
            return to_native(ctx, r)
        return bridge
    if isinstance(v, (ClassVal, SpecFn)):
        raise U()("repo code object passed to external function")
    if isinstance(v, EnumMember):
        raise U()("enum member passed to external function")
    return v


def from_native(ctx, v):
    if isinstance(v, list):
        return ctx.new_list([from_native(ctx, x) for x in v])
    if isinstance(v, dict):
        return ctx.alloc(HDict({k: from_native(ctx, x) for k, x in v.items()}))
    if isinstance(v, set):
        return ctx.alloc(HSet(set(v)))
    if isinstance(v, tuple):
        return tuple(from_native(ctx, x) for x in v)
    if isinstance(v, (int, float, str, bool, type(None), complex, Decimal, np.ndarray, np.generic, bytes)):
        return v
    if isinstance(v, type(_b.NotImplemented)):
        return v
    return Ext(v)


def any_sym(ctx, vals):
    for v in vals:
        if isinstance(v, Sym):
            return True
        if isinstance(v, tuple) and has_sym(v):
            return True
        if isinstance(v, Ref):
            c = ctx.cell(v)
            if isinstance(c, HList):
                if c.items is None or any_sym(ctx, c.items):
                    return True
            elif isinstance(c, HDict):
                if any_sym(ctx, c.d.values()):
                    return True
    return False


# --------------------------------------------------------------------------------------------
# external calls


def _materialize_generators(ctx, args):
    """an external consumer (max, sum, sorted, str.join, np.array ...) iterates over a generator argument: evaluate it now"""
    out = []
    for a in args:
        if isinstance(a, Ref) and isinstance(ctx.cell(a), (HGen, HGenFn)):
            a = ctx.new_list(iterate(ctx, a))
        out.append(a)
    return out


def _protocol_owner(ctx, args, name):
    """the first argument that is an instance of a repository class defining `name` (numpy's dispatch protocols)"""
    for a in args:
        if isinstance(a, Ref) and isinstance(ctx.cell(a), HObj):
            f, _ = ctx.cell(a).cls.lookup(name)
            if f is not None:
                return a, f
    return None, None


def call_ext(ctx, fn, args, kwargs):
    args = _materialize_generators(ctx, args)
    obj = fn.obj
    if isinstance(obj, np.ufunc):
        # numpy hands a ufunc call with an operand that defines __array_ufunc__ over to that method
        owner, f = _protocol_owner(ctx, args, "__array_ufunc__")
        if owner is not None:
            return ctx.call(BoundMethod(f, owner), [fn, "__call__"] + list(args), dict(kwargs))
    elif getattr(obj, "__module__", None) and str(getattr(obj, "__module__", "")).startswith("numpy") and callable(obj) and not isinstance(obj, type):
        owner, f = _protocol_owner(ctx, args, "__array_function__")
        if owner is not None:
            types = tuple({ctx.cell(a).cls.name: ctx.cell(a).cls for a in args if isinstance(a, Ref) and isinstance(ctx.cell(a), HObj)}.values())
            return ctx.call(BoundMethod(f, owner), [fn, types, tuple(args), ctx.new_dict(dict(kwargs))], {})
    model = EXT_MODELS.get(_key(obj))
    if model is not None:
        r = model(ctx, args, kwargs)
        if r is not NotImplemented:
            return r
    if isinstance(obj, np.ufunc) and not kwargs and any(ops._array_cell(ctx, a) is not None for a in args):
        # a numpy ufunc on arrays of (symbolic) scalars: element-wise with scalar broadcasting, a new array
        n = max(len(ops._array_cell(ctx, a).items) for a in args if ops._array_cell(ctx, a) is not None)
        cols = [list(ops._array_cell(ctx, a).items) if ops._array_cell(ctx, a) is not None else [a] * n for a in args]
        if any(len(c) != n for c in cols):
            ctx.raise_exc("ValueError", ("operands could not be broadcast together",))
        return _mk_array(ctx, [call_ext(ctx, fn, [c[i] for c in cols], {}) for i in range(n)])
    if obj is None:
        raise U()(f"call of unavailable external {fn.name}")
    if isinstance(obj, type) and issubclass(obj, BaseException):
        return ctx.alloc(HExc(obj.__name__, tuple(args), obj))
    if any_sym(ctx, list(args) + list(kwargs.values())):
        raise U()(f"external function {fn.name} applied to symbolic arguments has no model")
    nargs = [to_native(ctx, a) for a in args]
    nkw = {k: to_native(ctx, v) for k, v in kwargs.items()}
    try:
        r = obj(*nargs, **nkw)
    except Exception as e:  # the external raised: exceptional path of the interpreted program
        ctx.raise_exc(type(e).__name__, e.args)
    return from_native(ctx, r)


def _key(obj):
    try:
        hash(obj)
        return obj
    except TypeError:
        return id(obj)


EXT_MODELS = {}


def model(*objs):
    def deco(f):
        for o in objs:
            EXT_MODELS[_key(o)] = f
        return f
    return deco


def _scalar(ctx, v):
    return isinstance(v, Sym) or (kind_of(v) in ("int", "real", "bool"))


_NOATTR = object()


def _array_attr(ctx, o, c, name):
    """attributes of a one-dimensional ndarray of (symbolic) scalars"""
    if name == "shape":
        return (len(c.items),)
    if name == "size":
        return len(c.items)
    if name == "ndim":
        return 1
    if name == "astype":
        def astype(cx, a, k, _o=o):
            items = cx.cell(_o).items
            t = a[0] if a else k.get("dtype")
            if isinstance(t, Ext) and isinstance(t.obj, np.dtype):
                # astype(dtype object): the same cast as with the scalar type; fixed-width integer types wrap around
                d = t.obj
                if d.kind in "iu":
                    return _mk_array(cx, list(items), "int", ops.fixed_width(d))
                if d.kind == "f":
                    return _mk_array(cx, list(items), "float")
            if isinstance(t, Ext) and t.obj in (float, np.float64, np.float32):
                return _mk_array(cx, list(items), "float")   # a new array (copy), as numpy does by default
            if isinstance(t, Ext) and t.obj in (int, np.int64, np.int32):
                return _mk_array(cx, list(items), "int")
            return _mk_array(cx, [cx.call(t, [x], {}) for x in items])
        return SpecFn("ndarray.astype", astype)
    if name in ("copy", "flatten", "ravel"):
        return SpecFn("ndarray." + name, lambda cx, a, k, _o=o: _mk_array(cx, list(cx.cell(_o).items), getattr(cx.cell(_o), "dtype", None), getattr(cx.cell(_o), "npdtype", None)))
    if name == "tolist":
        return SpecFn("ndarray.tolist", lambda cx, a, k, _o=o: cx.new_list(list(cx.cell(_o).items)))
    if name == "dtype" and getattr(c, "npdtype", None) is not None:
        return Ext(c.npdtype)
    if name == "dtype":
        return Ext(np.dtype({"int": np.int64, "bool": np.bool_, "str": np.str_}.get(getattr(c, "dtype", "float"), np.float64)))
    return _NOATTR


@model(np.shape)
def m_np_shape(ctx, args, kw):
    v = args[0]
    if isinstance(v, Sym):
        return ()
    c = ops._array_cell(ctx, v)
    if c is not None:
        return (len(c.items),)
    if isinstance(v, Ref) and isinstance(ctx.cell(v), HList) and ctx.cell(v).items is not None and any_sym(ctx, ctx.cell(v).items):
        return (len(ctx.cell(v).items),)
    return NotImplemented


@model(np.full_like)
def m_full_like(ctx, args, kw):
    c = ops._array_cell(ctx, args[0])
    if c is None:
        return NotImplemented
    fill = args[1]
    fc = ops._array_cell(ctx, fill)
    # the new array has the dtype of the prototype: a float fill value is truncated when the prototype holds integers
    return _mk_array(ctx, list(fc.items) if fc is not None else [fill] * len(c.items), getattr(c, "dtype", "float"))


@model(np.abs, np.absolute, _b.abs, np.fabs)
def m_abs(ctx, args, kw):
    x = args[0]
    if isinstance(x, Sym):
        return mk(z3.If(x.t >= 0, x.t, -x.t), x.k)
    if ops._array_cell(ctx, x) is not None:
        return _mk_array(ctx, [m_abs(ctx, [v], {}) if isinstance(v, Sym) else abs(v) for v in ops._array_cell(ctx, x).items])
    if isinstance(x, Ref) and isinstance(ctx.cell(x), HObj):
        return ctx.call(ctx.getattr(x, "__abs__"), [], {})
    return NotImplemented


@model(_b.max, np.maximum)
def m_max(ctx, args, kw):
    return _minmax(ctx, args, kw, True)


@model(_b.min, np.minimum)
def m_min(ctx, args, kw):
    return _minmax(ctx, args, kw, False)


def _flatten(ctx, v):
    """all scalar elements of a (nested) list / array, as numpy's reductions without an axis see them"""
    if isinstance(v, Ref) and isinstance(ctx.cell(v), HList) and ctx.cell(v).items is not None:
        out = []
        for x in ctx.cell(v).items:
            out += _flatten(ctx, x)
        return out
    if isinstance(v, (list, tuple)):
        out = []
        for x in v:
            out += _flatten(ctx, x)
        return out
    if isinstance(v, np.ndarray):
        return [x for x in v.flatten().tolist()]
    return [v]


@model(np.max, np.amax)
def m_npmax(ctx, args, kw):
    if len(args) == 1 and not kw and any(isinstance(x, Sym) for x in _flatten(ctx, args[0])):
        return _minmax(ctx, [ctx.new_list(_flatten(ctx, args[0]))], {}, True)
    return _minmax(ctx, args, kw, True) if (len(args) != 1 or not isinstance(args[0], Ref)) else NotImplemented if not any(isinstance(x, Sym) for x in _flatten(ctx, args[0])) else NotImplemented


@model(np.min, np.amin)
def m_npmin(ctx, args, kw):
    if len(args) == 1 and not kw and any(isinstance(x, Sym) for x in _flatten(ctx, args[0])):
        return _minmax(ctx, [ctx.new_list(_flatten(ctx, args[0]))], {}, False)
    return _minmax(ctx, args, kw, False) if (len(args) != 1 or not isinstance(args[0], Ref)) else NotImplemented


def _minmax(ctx, args, kw, is_max):
    if len(args) == 1:
        items = ctx.iterate(args[0])
    else:
        items = list(args)
    if "key" in kw:
        key = kw["key"]
        if not items:
            ctx.raise_exc("ValueError", ("max() arg is an empty sequence",))
        best, bk = items[0], ctx.call(key, [items[0]], {})
        for x in items[1:]:
            k = ctx.call(key, [x], {})
            r = ctx.compare(ast.Gt() if is_max else ast.Lt(), k, bk)
            if ctx.truthy(r):
                best, bk = x, k
        return best
    if not any(isinstance(x, Sym) for x in items):
        if any(isinstance(x, Ref) for x in items):
            best = items[0]
            for x in items[1:]:
                if ctx.truthy(ctx.compare(ast.Gt() if is_max else ast.Lt(), x, best)):
                    best = x
            return best
        return NotImplemented
    if not items:
        ctx.raise_exc("ValueError", ("empty sequence",))
    nk = "real" if any(kind_of(x) == "real" for x in items) else "int"
    t = term(items[0], nk)
    for x in items[1:]:
        tx = term(x, nk)
        t = z3.If(tx > t, tx, t) if is_max else z3.If(tx < t, tx, t)
    return mk(t, nk)


def _uf1(name, axioms=None):
    def f(ctx, args, kw):
        x = args[0]
        if not isinstance(x, Sym):
            return NotImplemented
        ctx.assumed.add(f"{name}: uninterpreted real function with the axioms stated in pyvc/axioms.py")
        fn = smt.uf(name, z3.RealSort(), z3.RealSort())
        xt = canon_coeff(term(x, "real"))
        r = fn(xt)
        if axioms:
            axioms(ctx, xt, r)
        return mk(r, "real")
    return f


def canon_coeff(t):
    """Arguments of transcendental functions: numeric coefficients are rounded to 13 significant
    digits, so that c1*x and c2*x are the same term when c1 and c2 differ only by float rounding of
    the table constants (relative 1e-13).  Part of 'machine arithmetic treated as mathematical'."""
    from fractions import Fraction as _Q
    t = z3.simplify(t, som=True)

    def rnd(v):
        q = _Q(v.numerator_as_long(), v.denominator_as_long())
        if q == 0:
            return v
        f = float(q)
        return z3.RealVal(str(_Q(repr(float(f"{f:.12e}")))))

    def walk(e):
        if z3.is_rational_value(e):
            return rnd(e)
        if z3.is_app(e) and e.decl().kind() in (z3.Z3_OP_MUL, z3.Z3_OP_ADD, z3.Z3_OP_DIV, z3.Z3_OP_UMINUS, z3.Z3_OP_SUB):
            return e.decl()(*[walk(c) for c in e.children()])
        return e
    return z3.simplify(walk(t), som=True)


def _ax_log10(ctx, x, r):
    p = smt.uf("pow10", z3.RealSort(), z3.RealSort())
    ctx.axioms.append(z3.Implies(x > 0, p(r) == x))


def _ax_pow10(ctx, x, r):
    l = smt.uf("log10", z3.RealSort(), z3.RealSort())
    ctx.axioms.append(r > 0)
    ctx.axioms.append(l(r) == x)


def _ax_ln(ctx, x, r):
    e = smt.uf("exp", z3.RealSort(), z3.RealSort())
    ctx.axioms.append(z3.Implies(x > 0, e(r) == x))


def _ax_exp(ctx, x, r):
    l = smt.uf("ln", z3.RealSort(), z3.RealSort())
    ctx.axioms.append(r > 0)
    ctx.axioms.append(l(r) == x)


def _ax_sqrt(ctx, x, r):
    ctx.axioms.append(z3.Implies(x >= 0, z3.And(r >= 0, r * r == x)))


model(np.log10, math.log10)(_uf1("log10", _ax_log10))
model(np.log, math.log)(_uf1("ln", _ax_ln))
model(np.exp, math.exp)(_uf1("exp", _ax_exp))
model(np.sqrt, math.sqrt)(_uf1("sqrt", _ax_sqrt))
model(np.sin, math.sin)(_uf1("sin"))
model(np.cos, math.cos)(_uf1("cos"))
model(np.tan, math.tan)(_uf1("tan"))


@model(np.power)
def m_power(ctx, args, kw):
    a, b = args[0], args[1]
    if not (isinstance(a, Sym) or isinstance(b, Sym)):
        return NotImplemented
    if not isinstance(a, Sym) and a == 10:
        ctx.assumed.add("pow10: uninterpreted real function with the axioms stated in pyvc/axioms.py")
        fn = smt.uf("pow10", z3.RealSort(), z3.RealSort())
        x = canon_coeff(term(b, "real"))
        r = fn(x)
        _ax_pow10(ctx, x, r)
        return mk(r, "real")
    return ops.power(ctx, a, b)


@model(np.isscalar)
def m_isscalar(ctx, args, kw):
    if isinstance(args[0], Sym):
        return True
    if isinstance(args[0], (Ref, tuple)):
        return False
    return NotImplemented


@model(np.ceil, math.ceil)
def m_ceil(ctx, args, kw):
    x = args[0]
    if not isinstance(x, Sym):
        return NotImplemented
    if x.k == "int":
        return mk(z3.ToReal(x.t), "real")
    t = x.t
    if z3.is_app(t) and t.decl().kind() == z3.Z3_OP_DIV and t.num_args() == 2:
        ia, ib = _int_of_real(t.arg(0)), _int_of_real(t.arg(1))
        if ia is not None and ib is not None:
            return mk(z3.ToReal(ops.ceil_div_witness(ctx, ia, ib)), "real")
    return mk(z3.ToReal(-z3.ToInt(-x.t)), "real")


@model(np.round, np.around, np.rint)
def m_round(ctx, args, kw):
    """round half to even, no decimals: n with |x - n| <= 1/2, and n even on a tie"""
    x = args[0]
    if not isinstance(x, Sym) or len(args) > 1 or kw:
        return NotImplemented
    if x.k == "int":
        return x
    n = ctx.fresh("int", "round")
    d = x.t - z3.ToReal(n.t)
    ctx.assume(z3.And(d <= z3.RealVal("1/2"), d >= z3.RealVal("-1/2"),
                      z3.Implies(z3.Or(d == z3.RealVal("1/2"), d == z3.RealVal("-1/2")), n.t % 2 == 0)))
    return mk(z3.ToReal(n.t), "real")


@model(np.floor, math.floor)
def m_floor(ctx, args, kw):
    x = args[0]
    if not isinstance(x, Sym):
        return NotImplemented
    if x.k == "int":
        return mk(z3.ToReal(x.t), "real")
    return mk(z3.ToReal(z3.ToInt(x.t)), "real")


@model(np.gcd, math.gcd)
def m_gcd(ctx, args, kw):
    a, b = args
    if not (isinstance(a, Sym) or isinstance(b, Sym)):
        return NotImplemented
    # assumed contract of gcd on integers: g >= 0, g divides both, the cofactors are coprime
    ctx.assumed.add("gcd(a,b): assumed contract g>=0, a=g*a', b=g*b', gcd(a',b')=1, g=0 iff a=b=0")
    g = ctx.fresh("int", "gcd").t
    ca = ctx.fresh("int", "cofa").t
    cb = ctx.fresh("int", "cofb").t
    ta, tb = term(a, "int"), term(b, "int")
    G = smt.uf("gcd", z3.IntSort(), z3.IntSort(), z3.IntSort())
    ctx.pc.append(G(ta, tb) == g)
    ctx.pc.append(g >= 0)
    ctx.pc.append(ta == g * ca)
    ctx.pc.append(tb == g * cb)
    ctx.pc.append(z3.Implies(g > 0, G(ca, cb) == 1))
    ctx.pc.append((g == 0) == z3.And(ta == 0, tb == 0))
    ctx.pc.append(z3.Implies(z3.Or(ta == 1, tb == 1, ta == -1, tb == -1), g == 1))
    return mk(g, "int")


@model(np.lcm, math.lcm)
def m_lcm(ctx, args, kw):
    a, b = args
    if not (isinstance(a, Sym) or isinstance(b, Sym)):
        return NotImplemented
    # lcm through the assumed contract of gcd: a = g*a', b = g*b' with coprime cofactors, lcm = |g*a'*b'|
    g = m_gcd(ctx, [a, b], {})
    ctx.assumed.add("lcm(a,b) = |a*b| / gcd(a,b) (0 when a or b is 0)")
    ta, tb = term(a, "int"), term(b, "int")
    l = ctx.fresh("int", "lcm").t
    ctx.pc.append(l >= 0)
    ctx.pc.append(z3.Implies(z3.Or(ta == 0, tb == 0), l == 0))
    ctx.pc.append(z3.Implies(z3.And(ta != 0, tb != 0), z3.And(l * g.t == z3.If(ta * tb >= 0, ta * tb, -(ta * tb)), l > 0)))
    return mk(l, "int")


@model(math.isclose)
def m_isclose(ctx, args, kw):
    a, b = args[0], args[1]
    if not (isinstance(a, Sym) or isinstance(b, Sym)):
        return NotImplemented
    rel = kw.get("rel_tol", 1e-09)
    abs_tol = kw.get("abs_tol", 0.0)
    ta, tb = term(a, "real"), term(b, "real")
    d = z3.If(ta - tb >= 0, ta - tb, tb - ta)
    aa = z3.If(ta >= 0, ta, -ta)
    ab = z3.If(tb >= 0, tb, -tb)
    mx = z3.If(aa >= ab, aa, ab)
    bound1 = ops.realval(rel) * mx
    bound2 = ops.realval(abs_tol)
    return mk(z3.Or(ta == tb, d <= bound1, d <= bound2), "bool")


@model(np.isclose)
def m_np_isclose(ctx, args, kw):
    a, b = args[0], args[1]
    if not (isinstance(a, Sym) or isinstance(b, Sym)):
        return NotImplemented
    rtol = kw.get("rtol", 1e-05)
    atol = kw.get("atol", 1e-08)
    ta, tb = term(a, "real"), term(b, "real")
    d = z3.If(ta - tb >= 0, ta - tb, tb - ta)
    ab = z3.If(tb >= 0, tb, -tb)
    return mk(d <= ops.realval(atol) + ops.realval(rtol) * ab, "bool", np=not kw.pop("_py_bool", False))


@model(np.allclose)
def m_np_allclose(ctx, args, kw):
    return m_np_isclose(ctx, args, dict(kw, _py_bool=True))    # allclose returns a Python bool, isclose a numpy.bool_


@model(np.all, np.any)
def m_all(ctx, args, kw):
    x = args[0]
    if isinstance(x, Sym):
        return mk(ops.truth_term(x), "bool", np=True)
    if isinstance(x, bool):
        return np.bool_(x)
    return NotImplemented


# --------------------------------------------------------------------------------------------
# builtins implemented in the executor


def bi_isinstance(ctx, args, kw):
    v, t = args
    return _isinstance(ctx, v, t)


def _isinstance(ctx, v, t):
    if isinstance(t, tuple):
        return any(_isinstance(ctx, v, x) for x in t)
    if isinstance(t, Ref) and isinstance(ctx.cell(t), HList):
        ctx.raise_exc("TypeError", ("isinstance() arg 2 must be a type, a tuple of types, or a union",))
    if isinstance(t, ClassVal):
        if isinstance(v, Ref):
            c = ctx.cell(v)
            if isinstance(c, HObj):
                return c.cls.issub(t)
            if isinstance(c, HExc):
                return c.tname == t.name
        if isinstance(v, EnumMember):
            return v.cls.issub(t)
        return False
    if isinstance(t, Ext):
        py = t.obj
        if not isinstance(py, type):
            if py is None:
                raise U()("isinstance against unavailable external type")
            try:
                return isinstance(to_native(ctx, v), py)
            except TypeError as e:
                ctx.raise_exc("TypeError", (str(e),))
        if isinstance(v, Sym):
            pyt = {"int": int, "real": float, "bool": bool, "str": str}[v.k]
            if v.k == "bool" and v.np:
                pyt = np.bool_
            return issubclass(pyt, py)
        if isinstance(v, Ref):
            c = ctx.cell(v)
            if isinstance(c, HList):
                return issubclass(np.ndarray if getattr(c, "is_array", False) else list, py)
            if isinstance(c, HDict):
                return issubclass(dict, py)
            if isinstance(c, HSet):
                return issubclass(set, py)
            if isinstance(c, HObj):
                return py is object or c.cls.ext_base(py)
            if isinstance(c, HExc):
                return issubclass(c.pycls, py) if isinstance(c.pycls, type) else py in (Exception, BaseException, object)
        if isinstance(v, (ClassVal,)):
            return py in (type, object)
        if isinstance(v, (FuncVal, BoundMethod, SpecFn)):
            return py is object
        if isinstance(v, Ext):
            return isinstance(v.obj, py)
        if isinstance(v, EnumMember):
            return py is object
        return isinstance(v, py)
    if isinstance(t, (FuncVal, BoundMethod, SpecFn)) or t is None or isinstance(t, (int, float, str)):
        # CPython: the second argument must be a type (or a tuple of types)
        ctx.raise_exc("TypeError", ("isinstance() arg 2 must be a type, a tuple of types, or a union",))
    raise U()("isinstance against %r" % (t,))


def bi_len(ctx, args, kw):
    v = args[0]
    if isinstance(v, Ref):
        c = ctx.cell(v)
        if isinstance(c, HList):
            if c.items is not None:
                return len(c.items)
            return mk(z3.Length(c.seq), "int")
        if isinstance(c, HDict):
            return len(c.d)
        if isinstance(c, HSet):
            return len(c.s)
        if isinstance(c, HObj):
            f, _ = c.cls.lookup("__len__")
            if f is None:
                ctx.raise_exc("TypeError", ("object has no len()",))
            return ctx.call(BoundMethod(f, v), [], {})
    if isinstance(v, Sym):
        if v.k == "str":
            return mk(z3.Length(v.t), "int")
        ctx.raise_exc("TypeError", ("object of this type has no len()",))
    if isinstance(v, Ext):
        return len(v.obj)
    try:
        return len(v)
    except TypeError as e:
        ctx.raise_exc("TypeError", (str(e),))


def bi_int(ctx, args, kw):
    if not args:
        return 0
    v = args[0]
    if isinstance(v, Sym):
        if v.k == "int":
            return v
        if v.k == "bool":
            return mk(term(v, "int"), "int")
        if v.k == "real":
            # recognise int(a / b) on integer terms: truncating division with explicit witnesses
            t = v.t
            if z3.is_app(t) and t.decl().kind() == z3.Z3_OP_DIV and t.num_args() == 2:
                a, b = t.arg(0), t.arg(1)
                ia, ib = _int_of_real(a), _int_of_real(b)
                if ia is not None and ib is not None:
                    return mk(ops.trunc_div_witness(ctx, ia, ib), "int")
            return mk(ops.py_trunc(t), "int")
        if v.k == "str":
            src = _formatted_number(ctx, v)
            if src is not None and src.k in ("int", "bool"):
                ctx.assumed.add("int(str(i)) == i for integers i (exact in CPython)")
                return mk(term(src, "int"), "int")
            if src is not None and src.k == "real":
                ctx.raise_exc("ValueError", ("invalid literal for int() with base 10: text of a float",))
            raise U()("int() of a symbolic string")
    if isinstance(v, Ref):
        c = ctx.cell(v)
        if isinstance(c, HObj):
            f, _ = c.cls.lookup("__int__")
            if f is not None:
                return ctx.call(BoundMethod(f, v), [], {})
        ctx.raise_exc("TypeError", ("int() argument must be a string or a number",))
    if v is None or isinstance(v, (ClassVal, FuncVal, tuple)):
        ctx.raise_exc("TypeError", ("int() argument must be a string or a number",))
    try:
        return int(v, *args[1:]) if len(args) > 1 else int(v)
    except ValueError as e:
        ctx.raise_exc("ValueError", (str(e),))
    except TypeError as e:
        ctx.raise_exc("TypeError", (str(e),))
    except OverflowError as e:
        ctx.raise_exc("OverflowError", (str(e),))


def _formatted_number(ctx, v):
    """the number x when the symbolic string v is str(x) (format without a spec), else None"""
    src = ctx.ghost.get("fmt_terms", {}).get(v.t.get_id())
    if src is None:
        return None
    t = v.t
    if src.k == "real" and not (z3.is_app(t) and t.decl().name() == "fmt_real_"):
        return None   # formatted with a spec: not the repr
    return src


def _int_of_real(t):
    """the Int term i when the Real term t is ToReal(i) (or an integral numeral)"""
    if z3.is_app(t) and t.decl().kind() == z3.Z3_OP_TO_REAL:
        return t.arg(0)
    if z3.is_rational_value(t) and t.denominator_as_long() == 1:
        return z3.IntVal(t.numerator_as_long())
    return None


def bi_float(ctx, args, kw):
    if not args:
        return 0.0
    v = args[0]
    lits = ctx.ghost.get("symbolic_literals")
    if lits and isinstance(v, str) and v.strip() in lits:
        # harness facility: an atom spelled as one of the declared names denotes an arbitrary real number
        return lits[v.strip()]
    if isinstance(v, Sym):
        if v.k in ("int", "bool", "real"):
            return mk(term(v, "real"), "real")
        src = _formatted_number(ctx, v)
        if src is not None:
            ctx.assumed.add("float(str(x)) == x for floats and integers x (repr round-trips in CPython 3)")
            return mk(term(src, "real"), "real")
        raise U()("float() of a symbolic string")
    if isinstance(v, Ref):
        c = ctx.cell(v)
        if isinstance(c, HObj):
            f, _ = c.cls.lookup("__float__")
            if f is not None:
                return ctx.call(BoundMethod(f, v), [], {})
        ctx.raise_exc("TypeError", ("float() argument must be a string or a real number",))
    if v is None or isinstance(v, (ClassVal, FuncVal, tuple)):
        ctx.raise_exc("TypeError", ("float() argument must be a string or a real number",))
    try:
        return float(v)
    except ValueError as e:
        ctx.raise_exc("ValueError", (str(e),))
    except TypeError as e:
        ctx.raise_exc("TypeError", (str(e),))


def bi_bool(ctx, args, kw):
    if not args:
        return False
    v = args[0]
    if isinstance(v, Sym) and ctx.spec_mode:
        return mk(ops.truth_term(v), "bool")
    return ctx.truthy(v)


def bi_str(ctx, args, kw):
    if not args:
        return ""
    return ctx.to_str(args[0])


def bi_repr(ctx, args, kw):
    return ctx.to_repr(args[0])


def bi_list(ctx, args, kw):
    if not args:
        return ctx.new_list([])
    v = args[0]
    if isinstance(v, Ref):
        c = ctx.cell(v)
        if isinstance(c, HList) and c.items is None:
            return ctx.alloc(HList(seq=c.seq, ek=c.ek))
    return ctx.new_list(ctx.iterate(v))


def bi_tuple(ctx, args, kw):
    if not args:
        return ()
    return tuple(ctx.iterate(args[0]))


def bi_dict(ctx, args, kw):
    d = {}
    if args:
        v = args[0]
        if isinstance(v, Ref) and isinstance(ctx.cell(v), HDict):
            d.update(ctx.cell(v).d)
        else:
            for it in ctx.iterate(v):
                k, x = ctx.iterate(it)
                d[ctx.hashable(k)] = x
    for k, x in kw.items():
        d[k] = x
    return ctx.alloc(HDict(d))


def bi_set(ctx, args, kw):
    if not args:
        return ctx.alloc(HSet(set()))
    return ctx.alloc(HSet(set(ctx.hashable(x) for x in ctx.iterate(args[0]))))


def bi_range(ctx, args, kw):
    if any(isinstance(a, Sym) for a in args):
        return RangeV(*args) if len(args) > 1 else RangeV(0, args[0])
    try:
        return tuple(range(*args))
    except TypeError as e:
        ctx.raise_exc("TypeError", (str(e),))


class RangeV:
    def __init__(self, lo, hi, step=1):
        self.lo, self.hi, self.step = lo, hi, step


class EnumV:
    def __init__(self, inner, start):
        self.inner, self.start = inner, start


def bi_enumerate(ctx, args, kw):
    start = args[1] if len(args) > 1 else kw.get("start", 0)
    a0 = args[0]
    if isinstance(a0, RangeV) or (isinstance(a0, Ref) and isinstance(ctx.cell(a0), HList) and ctx.cell(a0).items is None):
        return EnumV(a0, start)
    return tuple((start + i, x) for i, x in enumerate(ctx.iterate(args[0])))


def bi_zip(ctx, args, kw):
    seqs = [ctx.iterate(a) for a in args]
    return tuple(zip(*seqs))


def bi_map(ctx, args, kw):
    """map(f, *iterables): a lazy iterator -- f is applied when something iterates over the result (all elements at that moment)"""
    f, seqs = args[0], list(args[1:])

    def thunk():
        cols = [ctx.iterate(s) for s in seqs]
        return [ctx.call(f, list(row), {}) for row in zip(*cols)]
    return ctx.alloc(HGen(thunk))


def bi_filter(ctx, args, kw):
    f, seq = args

    def thunk():
        return [x for x in ctx.iterate(seq) if ctx.truthy(x if f is None else ctx.call(f, [x], {}))]
    return ctx.alloc(HGen(thunk))


def bi_sum(ctx, args, kw):
    items = ctx.iterate(args[0])
    acc = args[1] if len(args) > 1 else 0
    for x in items:
        acc = ctx.binop(ast.Add(), acc, x)
    return acc


def bi_sorted(ctx, args, kw):
    items = ctx.iterate(args[0])
    if any_sym(ctx, items) or any(isinstance(x, Ref) for x in items) or "key" in kw:
        if "key" in kw and not any_sym(ctx, items):
            keyed = [(ctx.call(kw["key"], [x], {}), i, x) for i, x in enumerate(items)]
            if not any_sym(ctx, [k for k, _, _ in keyed]):
                keyed.sort(key=lambda t: (t[0], t[1]), reverse=bool(kw.get("reverse", False)))
                return ctx.new_list([x for _, _, x in keyed])
        raise U()("sorted() over symbolic or heap values")
    return ctx.new_list(sorted(items, reverse=bool(kw.get("reverse", False))))


def bi_reversed(ctx, args, kw):
    return tuple(reversed(ctx.iterate(args[0])))


def bi_any(ctx, args, kw):
    for x in ctx.iterate(args[0]):
        if ctx.truthy(x):
            return True
    return False


def bi_all(ctx, args, kw):
    if ctx.spec_mode:
        conj = []
        for x in ctx.iterate(args[0]):
            if isinstance(x, Sym):
                conj.append(ops.truth_term(x))
            elif not ctx.truthy(x):
                return False
        return mk(z3.And(*conj), "bool") if conj else True
    for x in ctx.iterate(args[0]):
        if not ctx.truthy(x):
            return False
    return True


def bi_getattr(ctx, args, kw):
    o, name = args[0], args[1]
    if isinstance(name, Sym):
        raise U()("getattr with symbolic name")
    if len(args) > 2:
        return ctx.getattr(o, name, args[2])
    return ctx.getattr(o, name)


def bi_setattr(ctx, args, kw):
    o, name, v = args
    if isinstance(name, Sym):
        raise U()("setattr with symbolic name")
    ctx.setattr(o, name, v)


def bi_hasattr(ctx, args, kw):
    o, name = args
    sentinel = object()
    return ctx.getattr(o, name, sentinel) is not sentinel


def bi_type(ctx, args, kw):
    v = args[0]
    if isinstance(v, Ref):
        c = ctx.cell(v)
        if isinstance(c, HObj):
            return c.cls
        if isinstance(c, HList):
            return Ext(list)
        if isinstance(c, HDict):
            return Ext(dict)
        if isinstance(c, HSet):
            return Ext(set)
    if isinstance(v, Sym):
        return Ext({"int": int, "real": float, "bool": bool, "str": str}[v.k])
    if isinstance(v, EnumMember):
        return v.cls
    if isinstance(v, ClassVal):
        return Ext(type)
    return Ext(type(v))


def bi_print(ctx, args, kw):
    return None


def _vfs_path(v):
    return isinstance(v, str) and v.startswith("/vfs/")


def _vfs(ctx, name):
    return ctx.world.model_module("vfs").globals[name]


@model(_b.open)
def m_open(ctx, args, kw):
    if args and _vfs_path(args[0]):
        return ctx.call(_vfs(ctx, "File"), list(args), dict(kw))
    return NotImplemented


import os as _os


@model(_os.path.isfile, _os.path.exists)
def m_isfile(ctx, args, kw):
    if args and _vfs_path(args[0]):
        return ctx.call(_vfs(ctx, "isfile"), list(args), {})
    return NotImplemented


@model(_os.path.getsize)
def m_getsize(ctx, args, kw):
    if args and _vfs_path(args[0]):
        return ctx.call(_vfs(ctx, "getsize"), list(args), {})
    return NotImplemented


@model(_os.remove, _os.unlink)
def m_remove(ctx, args, kw):
    if args and _vfs_path(args[0]):
        return ctx.call(_vfs(ctx, "remove"), list(args), {})
    return NotImplemented


@model(np.seterr)
def m_seterr(ctx, args, kw):
    return ctx.call(ctx.world.model_module("npstate").globals["seterr"], list(args), dict(kw))


@model(np.geterr)
def m_geterr(ctx, args, kw):
    return ctx.call(ctx.world.model_module("npstate").globals["geterr"], [], {})


def bi_round(ctx, args, kw):
    """round(x[, ndigits]) in real arithmetic: the multiple of 10**-ndigits nearest to x, ties to even"""
    if not any(isinstance(a, Sym) for a in args):
        return round(*args)
    x = args[0]
    nd = args[1] if len(args) > 1 else kw.get("ndigits")
    if not isinstance(x, Sym) or x.k not in ("int", "real") or isinstance(nd, Sym) or kw and set(kw) != {"ndigits"}:
        raise U()("round() of symbolic value")
    if x.k == "int" and (nd is None or nd >= 0):
        return x
    from fractions import Fraction
    scale = Fraction(10) ** (nd or 0)
    sc = z3.RealVal(str(scale))
    y = term(x, "real") * sc
    n = ctx.fresh("int", "round")
    d = y - z3.ToReal(n.t)
    ctx.assume(z3.And(d <= z3.RealVal("1/2"), d >= z3.RealVal("-1/2"),
                      z3.Implies(z3.Or(d == z3.RealVal("1/2"), d == z3.RealVal("-1/2")), n.t % 2 == 0)))
    if nd is None:
        return n
    return mk(z3.ToReal(n.t) / sc, "real")


def bi_id(ctx, args, kw):
    v = args[0]
    if isinstance(v, Ref):
        return v.id
    return id(v)


def bi_callable(ctx, args, kw):
    v = args[0]
    if isinstance(v, (FuncVal, BoundMethod, ClassVal, SpecFn)):
        return True
    if isinstance(v, Ext):
        return callable(v.obj)
    return False


def bi_iter(ctx, args, kw):
    return tuple(ctx.iterate(args[0]))


def bi_issubclass(ctx, args, kw):
    a, b = args
    if isinstance(b, tuple):
        return any(bi_issubclass(ctx, [a, x], {}) for x in b)
    if isinstance(a, ClassVal):
        return a.issub(b)
    if isinstance(a, Ext) and isinstance(b, Ext):
        return issubclass(a.obj, b.obj)
    return False


def install(world):
    I = world.intrinsics
    for name, fn in [("isinstance", bi_isinstance), ("len", bi_len), ("repr", bi_repr),
                     ("sum", bi_sum), ("sorted", bi_sorted),
                     ("reversed", bi_reversed), ("any", bi_any), ("all", bi_all), ("getattr", bi_getattr),
                     ("setattr", bi_setattr), ("hasattr", bi_hasattr), ("print", bi_print),
                     ("round", bi_round), ("id", bi_id), ("callable", bi_callable), ("iter", bi_iter),
                     ("issubclass", bi_issubclass)]:
        I[name] = SpecFn(name, fn)
    I["abs"] = Ext(_b.abs, "abs")
    I["max"] = Ext(_b.max, "max")
    I["min"] = Ext(_b.min, "min")
    # type names used in isinstance tests keep their identity as real types
    for t in (int, float, str, bool, list, dict, tuple, set, object, type):
        pass


# the type objects int/float/... are reached as Ext(builtins.<name>) for isinstance tests, but a *call*
# of them must go to the intrinsic: route by identity
_TYPE_CALLS = {int: bi_int, float: bi_float, str: bi_str, bool: bi_bool, list: bi_list, dict: bi_dict,
               tuple: bi_tuple, set: bi_set, range: bi_range, enumerate: bi_enumerate, zip: bi_zip,
               type: bi_type, map: bi_map, filter: bi_filter}
for _t, _f in _TYPE_CALLS.items():
    EXT_MODELS[_t] = _f


# --------------------------------------------------------------------------------------------
# attributes


def get_attr(ctx, o, name, default=NotImplemented):
    def missing():
        if default is not NotImplemented:
            return default
        ctx.raise_exc("AttributeError", (f"{_tname(ctx, o)!s} has no attribute {name!r}",))

    if isinstance(o, Ref):
        c = ctx.cell(o)
        if isinstance(c, HObj):
            if name in c.fields:
                return c.fields[name]
            if name == "__class__":
                return c.cls
            if name == "__dict__":
                # the instance dictionary: a dict cell that IS the object's field map (writes through it are writes to the object)
                c = ctx.wcell(o, "__dict__")
                ref = getattr(c, "dict_ref", None)
                if ref is None or ctx.cell(ref).d is not c.fields:
                    hd = HDict(c.fields)
                    hd.owner = o
                    ref = ctx.alloc(hd)
                    c.dict_ref = ref
                return ref
            a, owner = c.cls.lookup(name)
            if owner is not None:
                if isinstance(a, FuncVal):
                    if name in owner.static:
                        return a
                    return BoundMethod(a, o)
                if a is _dc_factory():
                    return missing()
                return a
            ga, _ = c.cls.lookup("__getattr__")
            if ga is not None and not name.startswith("__"):
                return ctx.call(BoundMethod(ga, o), [name], {})
            return missing()
        if isinstance(c, HList):
            if getattr(c, "is_array", False) and c.items is not None:
                r = _array_attr(ctx, o, c, name)
                if r is not _NOATTR:
                    return r
                return missing()
            if name in LIST_METHODS:
                return SpecFn("list." + name, lambda cx, a, k, _o=o, _n=name: LIST_METHODS[_n](cx, _o, a, k))
            return missing()
        if isinstance(c, HDict):
            if name in DICT_METHODS:
                return SpecFn("dict." + name, lambda cx, a, k, _o=o, _n=name: DICT_METHODS[_n](cx, _o, a, k))
            return missing()
        if isinstance(c, HSet):
            if name in SET_METHODS:
                return SpecFn("set." + name, lambda cx, a, k, _o=o, _n=name: SET_METHODS[_n](cx, _o, a, k))
            return missing()
        if isinstance(c, HExc):
            if name == "args":
                return c.args
            return missing()
    if isinstance(o, SuperProxy):
        mro = ctx.cell(o.self_v).cls.linear() if isinstance(o.self_v, Ref) else o.cls.linear()
        idx = mro.index(o.cls)
        for k in mro[idx + 1:]:
            if name in k.attrs:
                a = k.attrs[name]
                if isinstance(a, FuncVal):
                    return BoundMethod(a, o.self_v)
                return a
        if name == "__init__":
            for k in mro[idx + 1:]:
                if k.is_dataclass:
                    return SpecFn("dataclass.__init__", lambda cx, a, kw, _k=k, _s=o.self_v: cx.dataclass_init(_k, _s, a, kw))
            return SpecFn("object.__init__", lambda cx, a, k: None)
        return missing()
    if isinstance(o, ClassVal):
        a, owner = o.lookup(name)
        if owner is not None:
            return a
        if name == "__name__":
            return o.name
        if name == "__subclasses__":
            return SpecFn("__subclasses__", lambda cx, a, k, _o=o: cx.new_list([c for c in cx.world.classes if _o in c.bases]))
        return missing()
    if isinstance(o, EnumMember):
        if name == "name":
            return o.name
        if name == "value":
            return o.value
        return missing()
    from .interp import ModuleVal
    if isinstance(o, ModuleVal):
        if name in o.globals:
            return o.globals[name]
        sub = ctx.world.module_path(o.name + "." + name)
        if sub:
            return ctx.world.load_module(o.name + "." + name)
        return missing()
    if isinstance(o, Ext):
        if o.obj is None:
            raise U()(f"attribute of unavailable external {o.name}")
        if not hasattr(o.obj, name):
            return missing()
        return ctx.wrap_native(getattr(o.obj, name), f"{o.name}.{name}")
    if isinstance(o, FuncVal):
        if name == "__name__":
            return o.node.name
        return missing()
    if isinstance(o, BoundMethod):
        if name == "__name__":
            return get_attr(ctx, o.func, "__name__", default) if not isinstance(o.func, FuncVal) else o.func.node.name
        if name == "__self__":
            return o.self_v
        if name == "__func__":
            return o.func
        return missing()
    if isinstance(o, Sym):
        if o.k == "str" and name in STR_METHODS:
            return SpecFn("str." + name, lambda cx, a, k, _o=o, _n=name: STR_METHODS[_n](cx, _o, a, k))
        if o.k in ("real", "int") and name == "astype":
            return SpecFn("astype", lambda cx, a, k, _o=o: bi_float(cx, [_o], {}) if a and isinstance(a[0], Ext) and a[0].obj is float
                          else (bi_int(cx, [_o], {}) if a and isinstance(a[0], Ext) and a[0].obj is int else _o))
        if o.k in ("real", "int", "bool") and name in ("tolist", "item"):
            return SpecFn(name, lambda cx, a, k, _o=o: _o)    # numpy scalar -> the Python scalar of the same value
        return missing()
    if isinstance(o, str):
        if name in STR_METHODS:
            return SpecFn("str." + name, lambda cx, a, k, _o=o, _n=name: STR_METHODS[_n](cx, _o, a, k))
        if hasattr(o, name):
            return SpecFn("str." + name, lambda cx, a, k, _o=o, _n=name: _native_method(cx, _o, _n, a, k))
        return missing()
    if o is None or isinstance(o, (int, float, bool, tuple, Decimal, np.ndarray, np.generic, complex)):
        if isinstance(o, tuple) and has_sym(o):
            raise U()("method on tuple with symbolic members")
        if hasattr(o, name):
            a = getattr(o, name)
            if callable(a):
                return SpecFn(f"{type(o).__name__}.{name}", lambda cx, ar, k, _o=o, _n=name: _native_method(cx, _o, _n, ar, k))
            return from_native(ctx, a)
        return missing()
    if isinstance(o, BoundMethod):
        return missing()
    raise U()("attribute %s of %r" % (name, o))


def _dc_factory():
    from .interp import _DC_FACTORY
    return _DC_FACTORY


def _tname(ctx, o):
    if isinstance(o, Ref):
        c = ctx.cell(o)
        if isinstance(c, HObj):
            return c.cls.name
        return c.kind
    return type(o).__name__


def _native_method(ctx, o, name, args, kw):
    if any_sym(ctx, list(args) + list(kw.values())):
        raise U()(f"native method {name} with symbolic arguments")
    nargs = [to_native(ctx, a) for a in args]
    nkw = {k: to_native(ctx, v) for k, v in kw.items()}
    try:
        r = getattr(o, name)(*nargs, **nkw)
    except Exception as e:
        ctx.raise_exc(type(e).__name__, e.args)
    return from_native(ctx, r)


# ---- list methods


def _l_append(ctx, o, a, k):
    c = ctx.wcell(o, "[]")
    if c.items is not None:
        c.items.append(a[0])
    else:
        c.seq = z3.Concat(c.seq, z3.Unit(term(a[0], c.ek)))


def _l_pop(ctx, o, a, k):
    c = ctx.cell(o)
    idx = a[0] if a else -1
    if c.items is not None:
        if isinstance(idx, Sym):
            raise U()("pop with symbolic index")
        if not c.items or not (-len(c.items) <= idx < len(c.items)):
            ctx.raise_exc("IndexError", ("pop from empty list" if not c.items else "pop index out of range",))
        return ctx.wcell(o, "[]").items.pop(idx)
    n = z3.Length(c.seq)
    if ctx.branch(n == 0):
        ctx.raise_exc("IndexError", ("pop from empty list",))
    w = ctx.wcell(o, "[]")
    if idx == -1:
        v = mk(w.seq[n - 1], w.ek)
        w.seq = smt.simp(z3.SubSeq(w.seq, 0, n - 1))
        return v
    if idx == 0:
        v = mk(w.seq[0], w.ek)
        w.seq = smt.simp(z3.SubSeq(w.seq, 1, n - 1))
        return v
    raise U()("pop(i) on symbolic list")


def _l_insert(ctx, o, a, k):
    c = ctx.wcell(o, "[]")
    idx, v = a
    if c.items is not None:
        if isinstance(idx, Sym):
            raise U()("insert with symbolic index")
        c.items.insert(idx, v)
        return
    if idx == 0:
        c.seq = z3.Concat(z3.Unit(term(v, c.ek)), c.seq)
        return
    raise U()("insert(i) on symbolic list")


def _l_remove(ctx, o, a, k):
    c = ctx.cell(o)
    if c.items is None:
        raise U()("remove on symbolic list")
    for i, x in enumerate(c.items):
        if ctx.truthy(ctx.compare(ast.Eq(), x, a[0])):
            del ctx.wcell(o, "[]").items[i]
            return
    ctx.raise_exc("ValueError", ("list.remove(x): x not in list",))


def _l_extend(ctx, o, a, k):
    items = ctx.iterate(a[0])
    c = ctx.wcell(o, "[]")
    if c.items is None:
        raise U()("extend on symbolic list")
    c.items.extend(items)


def _l_index(ctx, o, a, k):
    c = ctx.cell(o)
    if c.items is None:
        raise U()("index on symbolic list")
    for i, x in enumerate(c.items):
        if ctx.truthy(ctx.compare(ast.Eq(), x, a[0])):
            return i
    ctx.raise_exc("ValueError", ("x not in list",))


def _l_copy(ctx, o, a, k):
    c = ctx.cell(o)
    if c.items is not None:
        return ctx.new_list(c.items)
    return ctx.alloc(HList(seq=c.seq, ek=c.ek))


def _l_reverse(ctx, o, a, k):
    c = ctx.wcell(o, "[]")
    if c.items is None:
        raise U()("reverse on symbolic list")
    c.items.reverse()


def _l_sort(ctx, o, a, k):
    c = ctx.cell(o)
    if c.items is None or any_sym(ctx, c.items) or any(isinstance(x, Ref) for x in c.items):
        raise U()("sort on symbolic list")
    if "key" in k:
        raise U()("sort with key")
    ctx.wcell(o, "[]").items.sort(reverse=bool(k.get("reverse", False)))


def _l_count(ctx, o, a, k):
    c = ctx.cell(o)
    if c.items is None:
        raise U()("count on symbolic list")
    n = 0
    for x in c.items:
        if ctx.truthy(ctx.compare(ast.Eq(), x, a[0])):
            n += 1
    return n


def _l_clear(ctx, o, a, k):
    c = ctx.wcell(o, "[]")
    c.items, c.seq = [], None


LIST_METHODS = {"append": _l_append, "pop": _l_pop, "insert": _l_insert, "remove": _l_remove,
                "extend": _l_extend, "index": _l_index, "copy": _l_copy, "reverse": _l_reverse,
                "sort": _l_sort, "count": _l_count, "clear": _l_clear}


# ---- dict methods


def _d_items(ctx, o, a, k):
    return tuple(ctx.cell(o).d.items())


def _d_keys(ctx, o, a, k):
    return tuple(ctx.cell(o).d.keys())


def _d_values(ctx, o, a, k):
    return tuple(ctx.cell(o).d.values())


def _d_get(ctx, o, a, k):
    key = ctx.hashable(a[0])
    return ctx.cell(o).d.get(key, a[1] if len(a) > 1 else None)


def _d_pop(ctx, o, a, k):
    key = ctx.hashable(a[0])
    d = ctx.cell(o).d
    if key not in d:
        if len(a) > 1:
            return a[1]
        ctx.raise_exc("KeyError", (key,))
    return ctx.wcell(o, "{}").d.pop(key)


def _d_update(ctx, o, a, k):
    w = ctx.wcell(o, "{}")
    if a:
        for kk, vv in ctx.dict_items(a[0]):
            w.d[kk] = vv
    for kk, vv in k.items():
        w.d[kk] = vv


def _d_copy(ctx, o, a, k):
    return ctx.alloc(HDict(dict(ctx.cell(o).d)))


def _d_setdefault(ctx, o, a, k):
    key = ctx.hashable(a[0])
    d = ctx.cell(o).d
    if key in d:
        return d[key]
    v = a[1] if len(a) > 1 else None
    ctx.wcell(o, "{}").d[key] = v
    return v


def _d_clear(ctx, o, a, k):
    ctx.wcell(o, "{}").d.clear()


DICT_METHODS = {"items": _d_items, "keys": _d_keys, "values": _d_values, "get": _d_get, "pop": _d_pop,
                "update": _d_update, "copy": _d_copy, "setdefault": _d_setdefault, "clear": _d_clear}


def _s_add(ctx, o, a, k):
    ctx.wcell(o, "{}").s.add(ctx.hashable(a[0]))


def _s_discard(ctx, o, a, k):
    ctx.wcell(o, "{}").s.discard(ctx.hashable(a[0]))


def _s_remove(ctx, o, a, k):
    key = ctx.hashable(a[0])
    if key not in ctx.cell(o).s:
        ctx.raise_exc("KeyError", (key,))
    ctx.wcell(o, "{}").s.remove(key)


SET_METHODS = {"add": _s_add, "discard": _s_discard, "remove": _s_remove}


# ---- str methods (symbolic receiver or symbolic argument)


def _str_native_or(ctx, o, name, a, k):
    if not isinstance(o, Sym) and not any_sym(ctx, list(a) + list(k.values())):
        return _native_method(ctx, o, name, a, k)
    return None


def _st_startswith(ctx, o, a, k):
    r = _str_native_or(ctx, o, "startswith", a, k)
    if r is not None:
        return r
    if isinstance(a[0], tuple):
        return mk(z3.Or(*[z3.PrefixOf(term(x, "str"), term(o, "str")) for x in a[0]]), "bool")
    return mk(z3.PrefixOf(term(a[0], "str"), term(o, "str")), "bool")


def _st_endswith(ctx, o, a, k):
    r = _str_native_or(ctx, o, "endswith", a, k)
    if r is not None:
        return r
    return mk(z3.SuffixOf(term(a[0], "str"), term(o, "str")), "bool")


def _st_strip(ctx, o, a, k):
    r = _str_native_or(ctx, o, "strip", a, k)
    if r is not None:
        return r
    ctx.assumed.add("str.strip: uninterpreted function on symbolic strings")
    f = smt.uf("str_strip", ops.STR, ops.STR)
    return mk(f(o.t), "str")


def _st_join(ctx, o, a, k):
    items = ctx.iterate(a[0])
    if not isinstance(o, Sym) and not any_sym(ctx, items):
        if not all(isinstance(x, str) for x in items):
            ctx.raise_exc("TypeError", ("sequence item: expected str instance",))
        return o.join(items)
    parts = []
    for i, x in enumerate(items):
        if i:
            parts.append(o)
        parts.append(x)
    if not parts:
        return ""
    return ops.str_concat(parts)


def _st_replace(ctx, o, a, k):
    r = _str_native_or(ctx, o, "replace", a, k)
    if r is not None:
        return r
    raise U()("replace on symbolic string")


def _st_split(ctx, o, a, k):
    r = _str_native_or(ctx, o, "split", a, k)
    if r is not None:
        return r
    raise U()("split on symbolic string")


def _st_format(ctx, o, a, k):
    r = _str_native_or(ctx, o, "format", a, k)
    if r is not None:
        return r
    raise U()("format on symbolic string")


STR_METHODS = {"startswith": _st_startswith, "endswith": _st_endswith, "strip": _st_strip,
               "join": _st_join, "replace": _st_replace, "split": _st_split, "format": _st_format}


# --------------------------------------------------------------------------------------------
# subscripts


def _norm_index(ctx, idx, n):
    """python index -> non-negative index, raising IndexError on the out-of-range path"""
    if isinstance(idx, Sym) or isinstance(n, Sym):
        ti, tn = term(idx, "int"), term(n, "int")
        if ctx.branch(z3.Or(ti >= tn, ti < -tn)):
            ctx.raise_exc("IndexError", ("index out of range",))
        return mk(z3.If(ti < 0, ti + tn, ti), "int")
    if not (-n <= idx < n):
        ctx.raise_exc("IndexError", ("index out of range",))
    return idx + n if idx < 0 else idx


def _slice_bounds(ctx, sl, n):
    from .interp import SliceV
    if sl.st not in (None, 1):
        raise U()("extended slice")
    lo, hi = sl.lo, sl.hi
    if not isinstance(lo, Sym) and not isinstance(hi, Sym) and not isinstance(n, Sym):
        return slice(lo, hi).indices(n)[:2]
    tn = term(n, "int")

    def clamp(v, default):
        if v is None:
            return default
        t = term(v, "int")
        t = z3.If(t < 0, t + tn, t)
        return z3.If(t < 0, z3.IntVal(0), z3.If(t > tn, tn, t))
    return clamp(lo, z3.IntVal(0)), clamp(hi, tn)


def get_item(ctx, o, k):
    from .interp import SliceV
    if isinstance(k, Ext) and isinstance(k.obj, slice):
        k = SliceV(k.obj.start, k.obj.stop, k.obj.step)
    if isinstance(o, Ref):
        c = ctx.cell(o)
        if isinstance(c, HObj):
            f, _ = c.cls.lookup("__getitem__")
            if f is None:
                ctx.raise_exc("TypeError", ("object is not subscriptable",))
            return ctx.call(BoundMethod(f, o), [k], {})
        if isinstance(c, HDict):
            if isinstance(k, Sym):
                raise U()("symbolic dict key")
            key = ctx.hashable(k)
            if key not in c.d:
                ctx.raise_exc("KeyError", (key,))
            return c.d[key]
        if isinstance(c, HList):
            if isinstance(k, (np.ndarray, Ext)) and c.items is not None and getattr(c, "is_array", False):
                # fancy indexing with a concrete index array (e.g. the result of np.argsort on concrete keys)
                arr = k.obj if isinstance(k, Ext) else k
                if isinstance(arr, np.ndarray) and arr.ndim == 1 and arr.dtype.kind in "iu":
                    return _mk_array(ctx, [c.items[_norm_index(ctx, int(i), len(c.items))] for i in arr])
            if isinstance(k, Ref) and isinstance(ctx.cell(k), HList) and c.items is not None and ctx.cell(k).items is not None:
                if not getattr(c, "is_array", False):
                    ctx.raise_exc("TypeError", ("list indices must be integers or slices, not list",))
                ids = ctx.cell(k).items
                if any(isinstance(i, Sym) for i in ids):
                    raise U()("fancy indexing with symbolic indices")
                out = ctx.new_list([c.items[_norm_index(ctx, i, len(c.items))] for i in ids])
                ctx.cell(out).is_array = True
                return out
            if isinstance(k, SliceV) and c.items is not None and k.st == -1 and k.lo is None and k.hi is None:
                out = ctx.new_list(list(reversed(c.items)))
                if getattr(c, "is_array", False):
                    ctx.cell(out).is_array = True
                return out
            if isinstance(k, SliceV) and c.items is not None and k.st not in (None, 1) and not any(isinstance(x, Sym) for x in (k.lo, k.hi, k.st)):
                # extended slice with concrete bounds and step: Python's own index arithmetic
                out = ctx.new_list(c.items[slice(k.lo, k.hi, k.st)])
                if getattr(c, "is_array", False):
                    ctx.cell(out).is_array = True
                    ctx.cell(out).dtype = getattr(c, "dtype", "float")
                return out
            if isinstance(k, SliceV):
                if c.items is not None:
                    lo, hi = _slice_bounds(ctx, k, len(c.items))
                    if isinstance(lo, int):
                        return ctx.new_list(c.items[lo:hi])
                    raise U()("symbolic slice of concrete list")
                lo, hi = _slice_bounds(ctx, k, mk(z3.Length(c.seq), "int"))
                lo, hi = term(lo, "int") if not z3.is_expr(lo) else lo, term(hi, "int") if not z3.is_expr(hi) else hi
                ln = z3.If(hi - lo > 0, hi - lo, z3.IntVal(0))
                return ctx.alloc(HList(seq=smt.simp(z3.SubSeq(c.seq, lo, ln)), ek=c.ek))
            if isinstance(k, (str, float, type(None))) or (isinstance(k, Sym) and k.k not in ("int", "bool")):
                ctx.raise_exc("TypeError", ("list indices must be integers or slices",))
            if c.items is not None:
                if isinstance(k, Sym):
                    # symbolic index into a concrete list: case split
                    i = _norm_index(ctx, k, len(c.items))
                    if not isinstance(i, Sym):
                        return c.items[i]
                    for j in range(len(c.items)):
                        if ctx.branch(i.t == j):
                            return c.items[j]
                    raise U()("index case split exhausted")
                i = _norm_index(ctx, k, len(c.items))
                return c.items[i]
            i = _norm_index(ctx, k, mk(z3.Length(c.seq), "int"))
            return mk(c.seq[term(i, "int")], c.ek)
    if isinstance(o, tuple):
        if isinstance(k, SliceV):
            if isinstance(k.lo, Sym) or isinstance(k.hi, Sym):
                raise U()("symbolic slice of tuple")
            return o[slice(k.lo, k.hi, k.st)]
        if isinstance(k, Sym):
            i = _norm_index(ctx, k, len(o))
            if not isinstance(i, Sym):
                return o[i]
            for j in range(len(o)):
                if ctx.branch(i.t == j):
                    return o[j]
            raise U()("index case split exhausted")
        if not isinstance(k, int):
            ctx.raise_exc("TypeError", ("tuple indices must be integers or slices",))
        return o[_norm_index(ctx, k, len(o))]
    if isinstance(o, (str, Sym)) and kind_of(o) == "str":
        if isinstance(k, SliceV):
            if not isinstance(o, Sym) and not isinstance(k.lo, Sym) and not isinstance(k.hi, Sym):
                return o[slice(k.lo, k.hi, k.st)]
            n = mk(z3.Length(term(o, "str")), "int")
            lo, hi = _slice_bounds(ctx, k, n)
            lo = lo if z3.is_expr(lo) else z3.IntVal(lo)
            hi = hi if z3.is_expr(hi) else z3.IntVal(hi)
            ln = z3.If(hi - lo > 0, hi - lo, z3.IntVal(0))
            return mk(z3.SubString(term(o, "str"), lo, ln), "str")
        if not isinstance(o, Sym) and not isinstance(k, Sym):
            try:
                return o[k]
            except IndexError:
                ctx.raise_exc("IndexError", ("string index out of range",))
            except TypeError as e:
                ctx.raise_exc("TypeError", (str(e),))
        n = mk(z3.Length(term(o, "str")), "int")
        i = _norm_index(ctx, k, n)
        return mk(z3.SubString(term(o, "str"), term(i, "int"), 1), "str")
    if isinstance(o, Sym):
        ctx.raise_exc("TypeError", ("object is not subscriptable",))
    if isinstance(o, Ext) or isinstance(o, (np.ndarray,)):
        obj = o.obj if isinstance(o, Ext) else o
        if isinstance(k, SliceV):
            k = slice(k.lo, k.hi, k.st)
        try:
            return from_native(ctx, obj[to_native(ctx, k)])
        except (IndexError, KeyError, TypeError) as e:
            ctx.raise_exc(type(e).__name__, e.args)
    if o is None or isinstance(o, (int, float, bool)):
        ctx.raise_exc("TypeError", ("object is not subscriptable",))
    raise U()("subscript of %r" % (o,))


def set_item(ctx, o, k, v):
    if isinstance(o, Ref):
        c = ctx.cell(o)
        if isinstance(c, HObj):
            f, _ = c.cls.lookup("__setitem__")
            if f is None:
                ctx.raise_exc("TypeError", ("object does not support item assignment",))
            return ctx.call(BoundMethod(f, o), [k, v], {})
        if isinstance(c, HDict):
            ctx.wcell(o, "{}").d[ctx.hashable(k)] = v
            return
        if isinstance(c, HList):
            if c.items is None or isinstance(k, Sym):
                raise U()("item assignment on symbolic list / index")
            i = _norm_index(ctx, k, len(c.items))
            ctx.wcell(o, "[]").items[i] = v
            return
    if isinstance(o, np.ndarray):
        raise U()("in-place write to a numpy array")
    ctx.raise_exc("TypeError", ("object does not support item assignment",))


def del_item(ctx, o, k):
    if isinstance(o, Ref):
        c = ctx.cell(o)
        if isinstance(c, HObj):
            f, _ = c.cls.lookup("__delitem__")
            if f is None:
                ctx.raise_exc("TypeError", ("object doesn't support item deletion",))
            return ctx.call(BoundMethod(f, o), [k], {})
        if isinstance(c, HDict):
            key = ctx.hashable(k)
            if key not in c.d:
                ctx.raise_exc("KeyError", (key,))
            del ctx.wcell(o, "{}").d[key]
            return
        if isinstance(c, HList):
            if c.items is None or isinstance(k, Sym):
                raise U()("del on symbolic list / index")
            if not isinstance(k, int):
                ctx.raise_exc("TypeError", ("list indices must be integers or slices",))
            i = _norm_index(ctx, k, len(c.items))
            del ctx.wcell(o, "[]").items[i]
            return
    ctx.raise_exc("TypeError", ("object doesn't support item deletion",))


def iterate(ctx, v):
    """materialise an iterable as a python list of values (concrete length only)"""
    if isinstance(v, tuple):
        return list(v)
    if isinstance(v, Ref):
        c = ctx.cell(v)
        if isinstance(c, HGen):
            if c.consumed:
                return []
            c.consumed = True
            return c.thunk()
        if isinstance(c, HGenFn):
            out = []
            while True:
                kind, x = ctx.gen_next(c)
                if kind == "stop":
                    return out
                out.append(x)
        if isinstance(c, HList):
            if c.items is None:
                raise U()("iteration over a symbolic-length list without loop contract")
            return list(c.items)
        if isinstance(c, HDict):
            return list(c.d.keys())
        if isinstance(c, HSet):
            return sorted(c.s, key=repr)
        if isinstance(c, HObj):
            f, _ = c.cls.lookup("__iter__")
            if f is not None:
                return iterate(ctx, ctx.call(BoundMethod(f, v), [], {}))
            f, _ = c.cls.lookup("__getitem__")
            if f is not None:
                # sequence protocol: x[0], x[1], ... until IndexError
                from .interp import PyRaise
                out, i = [], 0
                while True:
                    try:
                        out.append(ctx.call(BoundMethod(f, v), [i], {}))
                    except PyRaise as e:
                        if e.exc.tname == "IndexError":
                            break
                        raise
                    i += 1
                    if i > 100000:
                        raise U()("unbounded iteration through __getitem__")
                return out
            ctx.raise_exc("TypeError", (c.cls.name + " object is not iterable",))
    if isinstance(v, str):
        return list(v)
    if isinstance(v, RangeV):
        raise U()("iteration over symbolic range without loop contract")
    if isinstance(v, Sym):
        if v.k == "str":
            raise U()("iteration over symbolic string")
        ctx.raise_exc("TypeError", ("object is not iterable",))
    if isinstance(v, Ext):
        try:
            return [from_native(ctx, x) for x in v.obj]
        except TypeError as e:
            ctx.raise_exc("TypeError", (str(e),))
    if isinstance(v, np.ndarray):
        return [from_native(ctx, x) for x in v]
    if v is None or isinstance(v, (int, float, bool)):
        ctx.raise_exc("TypeError", (type(v).__name__ + " object is not iterable",))
    if isinstance(v, ClassVal):
        # Enum iteration
        return [a for a in v.attrs.values() if isinstance(a, EnumMember)]
    raise U()("iteration over %r" % (v,))


@model(object.__new__)
def m_object_new(ctx, args, kw):
    cls = args[0]
    if isinstance(cls, ClassVal):
        return ctx.alloc(HObj(cls))
    return NotImplemented


# ---- models of numpy / itertools on lists with symbolic elements (concrete length) -----------------------
# An ndarray of symbolic scalars is represented as an HList tagged `is_array`.  Only the handful of
# operations the repository applies to such arrays is modelled; each model is an assumed contract.

def _as_items(ctx, v):
    if isinstance(v, Ref):
        c = ctx.cell(v)
        if isinstance(c, HList) and c.items is not None:
            return c.items
    if isinstance(v, tuple):
        return list(v)
    return None


def _mk_array(ctx, items, dtype=None, npdtype=None):
    return ops.make_array(ctx, items, dtype, npdtype)


def _arr_like(ctx, v):
    """(items, kind, fixed-width dtype) of a modelled array or of a concrete one-dimensional numpy array"""
    if isinstance(v, Ext):
        v = v.obj
    if isinstance(v, np.ndarray) and v.ndim == 1 and v.dtype.kind in "iuf":
        return v.tolist(), ("float" if v.dtype.kind == "f" else "int"), ops.fixed_width(v.dtype)
    c = ops._array_cell(ctx, v)
    if c is not None:
        return list(c.items), getattr(c, "dtype", None), getattr(c, "npdtype", None)
    return None


@model(np.array, np.asarray)
def m_np_array(ctx, args, kw):
    dt0 = kw.get("dtype", args[1] if len(args) > 1 else None)
    if isinstance(args[0], Sym) and isinstance(dt0, Ext) and args[0].k in ("int", "real"):
        # a zero-dimensional array of one scalar behaves as that scalar, cast to the requested dtype
        d = np.dtype(dt0.obj)
        if d.kind in "iu":
            x = ops.cast_elem(ctx, args[0], "int")
            return ops.wrap_elem(x, d) if ops.fixed_width(d) is not None else x
        if d.kind == "f":
            return ops.cast_elem(ctx, args[0], "float")
    src = _arr_like(ctx, args[0])
    if src is not None and dt0 is None and any_sym(ctx, src[0]):
        return _mk_array(ctx, src[0], src[1], src[2])   # np.asarray(array): same elements, same dtype
    items = _as_items(ctx, args[0])
    if items is None or not any_sym(ctx, items):
        return NotImplemented
    ctx.assumed.add("np.array(list of scalars): one-dimensional array with the same elements in the same order (dtype int / float / bool as numpy infers it, or as requested)")
    dt = kw.get("dtype", args[1] if len(args) > 1 else None)
    want = None
    if isinstance(dt, Ext):
        want = "float" if dt.obj in (float, np.float64, np.float32) else ("int" if dt.obj in (int, np.int64, np.int32) else None)
        if want is None and ops.fixed_width(dt.obj) is not None:
            return _mk_array(ctx, list(items), "int", ops.fixed_width(dt.obj))
    return _mk_array(ctx, list(items), want)


@model(np.argsort)
def m_argsort(ctx, args, kw):
    items = _as_items(ctx, args[0])
    if items is None or not any_sym(ctx, items):
        return NotImplemented
    ctx.assumed.add("np.argsort: returns the permutation that sorts its argument into non-decreasing order (modelled as a comparison sort on the symbolic values; which of several equal elements comes first is unspecified for the default quicksort and is chosen by the model as the stable order)")
    order = []
    for i, x in enumerate(items):
        pos = len(order)
        # insert i after every element that is <= x (stable insertion sort, forks on symbolic comparisons)
        j = 0
        while j < len(order) and ctx.truthy(ctx.compare(ast.LtE(), items[order[j]], x)):
            j += 1
        order.insert(j, i)
    return _mk_array(ctx, order)


_F64 = z3.Function("to_f64", z3.IntSort(), z3.RealSort())


def _promote_f64(ctx, items):
    out = []
    for x in items:
        if isinstance(x, Sym) and x.k == "int":
            r = _F64(x.t)
            xr = z3.ToReal(x.t)
            ax = z3.If(xr >= 0, xr, -xr)
            ctx.assume(z3.Implies(ax <= 2 ** 53, r == xr))
            ctx.assume(z3.And(r - xr <= ax / 2 ** 53, xr - r <= ax / 2 ** 53))
            out.append(ops.mk(r, "real"))
        elif isinstance(x, int) and not isinstance(x, bool):
            out.append(float(x))
        else:
            out.append(x)
    return out


@model(np.append)
def m_np_append(ctx, args, kw):
    src = _arr_like(ctx, args[0])
    if src is not None and (isinstance(args[1], Sym) or any_sym(ctx, src[0])) and _as_items(ctx, args[1]) is None and not isinstance(args[1], (Ref, Ext, np.ndarray)):
        # typed array followed by one scalar: the element is cast to the array's dtype when that is the common type
        ctx.assumed.add("np.append(array, x): array followed by x")
        one = args[1]
        kind = src[1]
        if kind == "int" and (isinstance(one, float) or (isinstance(one, Sym) and one.k == "real")):
            # integer array and a float: numpy promotes the WHOLE array to float64 -- the stored integers make a round trip through
            # binary64, which is exact only up to 2**53 in magnitude (rounded to 53 significant bits beyond)
            ctx.assumed.add("int -> float64 promotion of an integer array: exact for |x| <= 2**53, relative error <= 2**-53 beyond (uninterpreted rounding)")
            kind, npd = "float", None
            src = (_promote_f64(ctx, src[0]), src[1], src[2])
        else:
            npd = src[2]
        return _mk_array(ctx, src[0] + [one], kind, npd)
    a, b = _as_items(ctx, args[0]), _as_items(ctx, args[1])
    if a is None or (not any_sym(ctx, a) and not any_sym(ctx, [args[1]])):
        return NotImplemented
    ctx.assumed.add("np.append(array, x): array followed by x")
    return _mk_array(ctx, list(a) + (list(b) if b is not None else [args[1]]))


import itertools as _it


@model(_it.product)
def m_product(ctx, args, kw):
    lists = [_as_items(ctx, a) for a in args]
    if any(l is None for l in lists):
        return NotImplemented
    if not any(any_sym(ctx, l) for l in lists):
        return NotImplemented
    ctx.assumed.add("itertools.product: tuples in lexicographic index order, last argument varying fastest")
    return tuple(_it.product(*lists))


model(np.arcsin)(_uf1("arcsin"))
model(np.arccos)(_uf1("arccos"))
model(np.arctan)(_uf1("arctan"))
model(np.cbrt)(_uf1("cbrt"))


# ---- reductions over lists that hold repo objects or symbolic scalars -------------------------------------------
def _needs_model(ctx, items):
    return items is not None and (any_sym(ctx, items) or any(isinstance(x, Ref) for x in items))


@model(np.sum)
def m_np_sum(ctx, args, kw):
    items = _as_items(ctx, args[0])
    if not _needs_model(ctx, items):
        return NotImplemented
    ctx.assumed.add("np.sum(list): left fold of + over the elements")
    if not items:
        return 0.0
    acc = items[0]
    for x in items[1:]:
        acc = ctx.binop(ast.Add(), acc, x)
    return acc


@model(np.average)
def m_np_average(ctx, args, kw):
    items = _as_items(ctx, args[0])
    w = kw.get("weights")
    witems = _as_items(ctx, w) if w is not None else None
    if not _needs_model(ctx, items) and not (witems is not None and _needs_model(ctx, witems)):
        return NotImplemented
    ctx.assumed.add("np.average(a, weights=w): sum(a_i*w_i)/sum(w_i) (sum(a_i)/len(a) without weights)")
    if not items:
        ctx.raise_exc("ZeroDivisionError", ("average of empty list",))
    if witems is None:
        return ctx.binop(ast.Div(), m_np_sum(ctx, [args[0]], {}), len(items))
    if len(witems) != len(items):
        ctx.raise_exc("TypeError", ("Length of weights not compatible with specified axis.",))
    num = None
    den = None
    for x, wi in zip(items, witems):
        t = ctx.binop(ast.Mult(), x, wi)
        num = t if num is None else ctx.binop(ast.Add(), num, t)
        den = wi if den is None else ctx.binop(ast.Add(), den, wi)
    return ctx.binop(ast.Div(), num, den)


@model(np.divide)
def m_np_divide(ctx, args, kw):
    a, b = _as_items(ctx, args[0]), _as_items(ctx, args[1])
    if a is None or b is None or not (_needs_model(ctx, a) or _needs_model(ctx, b)):
        return NotImplemented
    ctx.assumed.add("np.divide(a, b): element-wise quotient")
    return _mk_array(ctx, [ctx.binop(ast.Div(), x, y) for x, y in zip(a, b)])


@model(np.argmax)
def m_np_argmax(ctx, args, kw):
    items = _as_items(ctx, args[0])
    if not _needs_model(ctx, items):
        return NotImplemented
    ctx.assumed.add("np.argmax(list): index of the first maximal element")
    best = 0
    for i in range(1, len(items)):
        if ctx.truthy(ctx.compare(ast.Gt(), items[i], items[best])):
            best = i
    return best


import copy as _copy_mod


@model(_copy_mod.copy)
def m_copy(ctx, args, kw):
    v = args[0]
    if isinstance(v, Ref):
        c = ctx.cell(v)
        if isinstance(c, HObj):
            f, _ = c.cls.lookup("__copy__")
            if f is not None:
                return ctx.call(BoundMethod(f, v), [], {})
            n = HObj(c.cls)
            n.fields = dict(c.fields)
            return ctx.alloc(n)
        if isinstance(c, HList):
            return ctx.alloc(HList(items=list(c.items) if c.items is not None else None, seq=c.seq, ek=c.ek))
        if isinstance(c, HDict):
            return ctx.alloc(HDict(dict(c.d)))
        if isinstance(c, HSet):
            return ctx.alloc(HSet(set(c.s)))
    if isinstance(v, (Sym, tuple)) or not isinstance(v, Ref):
        return v if isinstance(v, (Sym, tuple, str, int, float, bool, type(None))) else NotImplemented
    return NotImplemented


@model(_copy_mod.deepcopy)
def m_deepcopy(ctx, args, kw):
    v = args[0]
    ctx.assumed.add("copy.deepcopy: structural copy sharing no mutable object with the original (objects listed in the memo argument are shared, as in CPython)")
    memo = {}
    m = args[1] if len(args) > 1 else kw.get("memo")
    if isinstance(m, Ref) and isinstance(ctx.cell(m), HDict):
        # deepcopy(x, memo): an object whose id() is a key of memo is replaced by the memo's value instead of being copied
        for k, target in ctx.cell(m).d.items():
            if isinstance(k, int):
                memo[k] = target
    return ctx.world.verifier.snapshot(ctx, v, memo) if hasattr(ctx.world, "verifier") else NotImplemented


import inspect as _inspect_mod
import types as _types_mod

_FRAMEINFO = _types_mod.SimpleNamespace(filename="<verified-call>", lineno=0, function="<contract>", code_context=None, index=None)


@model(_inspect_mod.stack)
def m_inspect_stack(ctx, args, kw):
    """the interpreter has no CPython frames: callers are reported as one fixed pseudo-frame (only used by the
    repository to label where a DIP source was added from)"""
    ctx.assumed.add("inspect.stack()/getframeinfo(): the caller is reported as file '<verified-call>', line 0")
    return ctx.alloc(HList(items=[(None,), (None,), (None,), (None,)]))


@model(_inspect_mod.getframeinfo)
def m_inspect_getframeinfo(ctx, args, kw):
    return Ext(_FRAMEINFO)


import dataclasses as _dataclasses_mod


@model(_dataclasses_mod.replace)
def m_dataclasses_replace(ctx, args, kw):
    """dataclasses.replace(obj, **changes): a new instance built by the class from the current field values (the field
    values themselves are shared, as in CPython) with the given changes"""
    o = args[0]
    if not (isinstance(o, Ref) and isinstance(ctx.cell(o), HObj)):
        return NotImplemented
    c = ctx.cell(o)
    names = []
    for k in reversed(c.cls.linear()):
        if k.is_dataclass:
            for n in k.ann:
                if n not in names:
                    names.append(n)
    fields = {n: c.fields[n] for n in names if n in c.fields}
    fields.update(kw)
    return ctx.call(c.cls, [], fields)


@model(np.linspace)
def m_np_linspace(ctx, args, kw):
    """np.linspace(a, b, n) with the end point: a + i*(b-a)/(n-1); only for a concrete count"""
    if len(args) < 3 or kw or not (isinstance(args[0], Sym) or isinstance(args[1], Sym)) or not isinstance(args[2], int) or args[2] < 1:
        return NotImplemented
    a, b, n = args[0], args[1], args[2]
    ctx.assumed.add("np.linspace(a, b, n): a + i*(b-a)/(n-1) for i = 0..n-1")
    if n == 1:
        return _mk_array(ctx, [bi_float(ctx, [a], {})])
    step = ctx.binop(ast.Div(), ctx.binop(ast.Sub(), b, a), n - 1)
    return _mk_array(ctx, [ctx.binop(ast.Add(), a, ctx.binop(ast.Mult(), i, step)) for i in range(n)])


@model(np.logspace)
def m_np_logspace(ctx, args, kw):
    r = m_np_linspace(ctx, args, kw)
    if r is NotImplemented:
        return r
    ctx.assumed.add("np.logspace(a, b, n) = 10 ** np.linspace(a, b, n)")
    return _mk_array(ctx, [m_power(ctx, [10, x], {}) for x in ctx.cell(r).items])
